#!/usr/bin/env python3
"""tools/seed_meta.py <Cxx> <needs text> [check=result ...] : write /verif/seeded/<Cxx>/meta.json"""
import json, sys, os, subprocess
pid, needs = sys.argv[1], sys.argv[2]
d = '/verif/seeded/' + pid
title = [json.loads(l) for l in open('/verif/properties.jsonl') if json.loads(l)['id'] == pid[:3]][0]['title']
log = open(d + '/confirm.log').read() if os.path.exists(d + '/confirm.log') else ''
meta = {'property': pid[:3], 'seed': pid, 'property_title': title, 'origin': 'independent sub-agent given only the property text and a scratch worktree of /repo (HEAD incl. fix: commits)',
        'files_changed': sorted({l[6:].strip() for l in open(d + '/patch.diff') if l.startswith('+++ b/')}),
        'needs_to_manifest': needs,
        'confirmed_by_me': {'how': 'tools/seed_confirm.sh: rebuilt the worktree with the change, ctest (all 17 baseline tests pass), demo/build.sh + demo/demo non-zero with the change, reverted with git apply -R, rebuilt, demo exits 0, change re-applied', 'log': log.strip().split('\n')},
        'checks_run': {a.split('=', 1)[0]: a.split('=', 1)[1] for a in sys.argv[3:]},
        'how_checks_were_run': 'tools/seed_eval.sh: git -C /repo apply patch.diff; ./check <id> --tier quick; git -C /repo checkout -- .'}
json.dump(meta, open(d + '/meta.json', 'w'), indent=1)
print('wrote', d + '/meta.json')
