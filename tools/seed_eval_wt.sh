#!/bin/bash
# tools/seed_eval_wt.sh <seed dir under /verif/seeded> <worktree with the patch applied> <check ids...>
# like seed_eval.sh but runs the checks against a scratch worktree (VERIF_REPO) with evidence/replays redirected
# (VERIF_SCRATCH), so /repo and /verif/evidence stay untouched and several seeds can be evaluated side by side.
set -u
d="$1"; wt="$2"; shift 2
cd /verif
name=$(basename $d)
export VERIF_REPO="$wt" VERIF_SCRATCH="/tmp/scratch/eval_$name" VERIF_JOBS=${VERIF_JOBS:-8}
mkdir -p "$VERIF_SCRATCH"
for c in "$@"; do
  out=$(./check "$c" --tier quick 2>&1)
  rc=$?
  echo "$out" > "$VERIF_SCRATCH/$c.log"
  nv=$(echo "$out" | grep -c '^VIOLATION')
  echo "$name: $c exit=$rc violations=$nv $(echo "$out" | grep '^VIOLATION' | head -3 | sed 's/.*replay=.*\///' | tr '\n' ' ')"
  echo "$out" | grep -E "INCONCLUSIVE|ENGINE" | head -3
done
