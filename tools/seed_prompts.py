#!/usr/bin/env python3
"""tools/seed_prompts.py <round> [ids...] : create scratch worktrees /tmp/wt<round>_<id> of /repo HEAD and write the
prompt handed to a fresh sub-agent (/tmp/scratch/prompt<round>_<id>.txt). The sub-agent gets the property text only, nothing
from /verif. AVOID (optional, per id) names the site an earlier round already changed, to diversify."""
import json, subprocess, sys, os
AVOID2 = {'C01': 'StepAddress', 'C02': 'the rep/bkrep bookkeeping order in Interpreter::Run', 'C03': 'the operand negation in AddSub', 'C04': 'ShiftBus40 saturation', 'C05': 'the copy/terminate code of Teakra_Disasm_Do',
         'C06': 'Timer::Skip', 'C07': 'the latch sampling at the top of Interpreter::Run', 'C08': 'banke', 'C09': 'RestoreBlockRepeat', 'C10': 'StepAddress', 'C11': 'MemoryInterfaceUnit::InMMIO',
         'C12': 'MemoryInterfaceUnit::ToMMIO', 'C13': 'Dma::Channel::Start', 'C14': 'Apbp::SetSemaphore', 'C15': 'Timer::Skip', 'C16': 'Btdmp::Skip', 'C17': 'Timer::Reset', 'C18': 'RestoreBlockRepeat', 'C19': 'DataChannel::Recv', 'C20': 'the arp pseudo-register slots'}
AVOID3 = {'C01': 'StepAddress or Exp', 'C02': 'the rep/bkrep bookkeeping in Interpreter::Run or GetDecoderTable', 'C03': 'AddSub or SatAndSetAccAndFlag', 'C04': 'ShiftBus40 or DoMultiplication', 'C05': 'Teakra_Disasm_Do or the mma_my_my renderer',
         'C06': 'Timer::Skip or CoreTiming::Skip', 'C07': 'the latch sampling in Interpreter::Run or ICU::Trigger', 'C08': 'banke or ContextStore', 'C09': 'RestoreBlockRepeat or the block-end test in Interpreter::Run', 'C10': 'StepAddress or the epi/epj test in RnAndModify',
         'C11': 'MemoryInterfaceUnit::InMMIO or MemoryInterface::ProgramRead/ProgramWrite', 'C12': 'MemoryInterfaceUnit::ToMMIO or Cell::BitFieldCell', 'C13': 'Dma::Channel::Start or the counter0 limit in Dma::Channel::Tick', 'C14': 'Apbp::SetSemaphore or Apbp::ClearSemaphore',
         'C15': 'Timer::Skip or Timer::GetMaxSkip', 'C16': 'Btdmp::Skip or Btdmp::SetTransmitFlush', 'C17': 'Timer::Reset or Ahbm::Reset', 'C18': 'RestoreBlockRepeat or MemoryInterfaceUnit::ConvertDataAddress', 'C19': 'DataChannel::Recv or Apbp::SetSemaphore', 'C20': 'the arp pseudo-register slots or AccEProxy'}
AVOID4 = {'C06': 'Timer::Skip, CoreTiming::Skip or the idle flag handling at interrupt entry', 'C07': 'the latch sampling in Interpreter::Run, ICU::Trigger or the st2 pseudo-register', 'C11': 'MemoryInterfaceUnit::InMMIO, MemoryInterface::ProgramRead/ProgramWrite or Teakra::DataWrite',
          'C12': 'MemoryInterfaceUnit::ToMMIO, Cell::BitFieldCell or Dma::ActivateChannel', 'C13': 'Dma::Channel::Start, the counter0 limit or the destination alignment mask in Dma::Channel::Tick', 'C14': 'Apbp::SetSemaphore, Apbp::ClearSemaphore or DataChannel::Send',
          'C15': 'Timer::Skip, Timer::GetMaxSkip or the pause test in Timer::Tick', 'C16': 'Btdmp::Skip, Btdmp::SetTransmitFlush or Btdmp::Send', 'C17': 'Timer::Reset, Ahbm::Reset or the SharedMemory constructor', 'C19': 'DataChannel::Recv, Apbp::SetSemaphore or ICU::Trigger',
          'C01': 'StepAddress, Exp or max_gt', 'C02': 'the rep/bkrep bookkeeping in Interpreter::Run, GetDecoderTable or MatcherCreator', 'C03': 'AddSub, SatAndSetAccAndFlag or alm(Register)', 'C04': 'ShiftBus40, DoMultiplication or Exp', 'C05': 'Teakra_Disasm_Do, the mma_my_my renderer or GenerateParser',
          'C08': 'banke, ContextStore or pop(Abe)', 'C09': 'RestoreBlockRepeat, the block-end test in Interpreter::Run or rep(Register)', 'C10': 'StepAddress, the epi/epj test in RnAndModify or the mma addressing', 'C18': 'RestoreBlockRepeat, ConvertDataAddress or Ahbm::Channel::GetBurstSize', 'C20': 'the arp slots, AccEProxy or the st2 slots'}
AVOID5 = {'C02': 'the rep/bkrep bookkeeping or the second-word fetch in Interpreter::Run, GetDecoderTable or MatcherCreator', 'C05': 'Teakra_Disasm_Do, the mma_my_my renderer, DsmArRn or GenerateParser',
          'C06': 'Timer::Skip, CoreTiming::Skip, Btdmp::Skip or the idle flag handling at interrupt entry', 'C07': 'the latch sampling or interrupt_handled in Interpreter::Run, ICU::Trigger or the st2 pseudo-register',
          'C08': 'banke, ContextStore, pop(Abe) or push(Register)', 'C09': 'RestoreBlockRepeat, StoreBlockRepeat, the block-end test in Interpreter::Run or rep(Register)',
          'C11': 'MemoryInterfaceUnit::InMMIO, MemoryInterface::ProgramRead/ProgramWrite, Teakra::DataWrite or movd', 'C12': 'MemoryInterfaceUnit::ToMMIO, Cell::BitFieldCell, Dma::ActivateChannel or MemoryInterface::MMIORead/MMIOWrite',
          'C13': 'Dma::Channel::Start or the counter0 limit, destination alignment mask and dimension-2 step in Dma::Channel::Tick', 'C17': 'Timer::Reset, Ahbm::Reset, Btdmp::Reset or the SharedMemory constructor',
          'C18': 'RestoreBlockRepeat, ConvertDataAddress, Ahbm::Channel::GetBurstSize or the arp pseudo-register slots', 'C19': 'DataChannel::Recv, DataChannel::Send, Apbp::SetSemaphore or ICU::Trigger',
          'C14': 'Apbp::SetSemaphore, ClearSemaphore, MaskSemaphore or DataChannel::Send', 'C15': 'Timer::Skip, GetMaxSkip, TickEvent or the pause test in Timer::Tick', 'C16': 'Btdmp::Skip, SetTransmitFlush, Send or the enable test in Btdmp::Tick',
          'C01': 'StepAddress, Exp or max_gt', 'C03': 'AddSub, SatAndSetAccAndFlag or alm(Register)', 'C04': 'ShiftBus40, DoMultiplication or Exp', 'C10': 'StepAddress, the epi/epj test in RnAndModify or the mma addressing', 'C20': 'the arp slots, AccEProxy, the st2 slots or load_stepj'}
AVOID6 = {'C01': 'StepAddress, Exp, max_gt or the modr family', 'C03': 'AddSub, SatAndSetAccAndFlag, alm(Register) or SetAccFlag', 'C04': 'ShiftBus40, DoMultiplication or Exp',
          'C05': 'Teakra_Disasm_Do, Disassembler::Do, the mma_my_my renderer, DsmArRn or the loop bounds of GenerateParser',
          'C06': 'Timer::Skip, CoreTiming::Skip, Btdmp::Skip, the idle flag handling at interrupt entry or the zero-length-skip tick in Interpreter::Run',
          'C07': 'the latch sampling or interrupt_handled in Interpreter::Run, ICU::Trigger, ICU::Acknowledge or the st2 pseudo-register',
          'C08': 'banke, ContextStore, pop(Abe), push(Register) or the shadowed flag list in register.h', 'C09': 'RestoreBlockRepeat, StoreBlockRepeat, the block-end test in Interpreter::Run, rep(Register) or RegisterState::Lc',
          'C10': 'StepAddress, the epi/epj test in RnAndModify or the mma addressing', 'C11': 'MemoryInterfaceUnit::InMMIO, MemoryInterface::ProgramRead/ProgramWrite/DataReadA32, Teakra::DataWrite or movd',
          'C12': 'MemoryInterfaceUnit::ToMMIO/InMMIO, Cell::BitFieldCell, Dma::ActivateChannel or MemoryInterface::MMIORead/MMIOWrite',
          'C13': 'Dma::Channel::Start, the counter0 limit, destination alignment mask and dimension-2 step in Dma::Channel::Tick, or Ahbm::Write16',
          'C16': 'Btdmp::Skip, SetTransmitFlush, Send or the enable test in Btdmp::Tick', 'C17': 'Timer::Reset, Ahbm::Reset, Btdmp::Reset, Teakra::Impl::Reset or the SharedMemory constructor',
          'C18': 'RestoreBlockRepeat, ConvertDataAddress, Ahbm::Channel::GetBurstSize, Ahbm::GetChannelForDma or the arp pseudo-register slots',
          'C20': 'the arp slots, AccEProxy, the st2 slots or load_stepj', 'C02': 'Interpreter::Run, GetDecoderTable, MatcherCreator or parser.cpp',
          'C14': 'Apbp::SetSemaphore, ClearSemaphore, MaskSemaphore or DataChannel::Send', 'C15': 'Timer::Skip, GetMaxSkip, TickEvent or the pause test in Timer::Tick',
          'C19': 'DataChannel::Recv, DataChannel::Send, Apbp::SetSemaphore, ICU::Trigger or Interpreter::Run'}
AVOID7 = {'C04': 'ShiftBus40, DoMultiplication, Exp or ProductToBus40', 'C06': 'Timer::Skip, CoreTiming::Skip, Btdmp::Skip, the idle flag handling at interrupt entry or in brr, or the zero-length-skip tick in Interpreter::Run',
          'C08': 'banke, ContextStore, pop(Abe), push(Register), the shadowed flag list or the ar/arp pseudo-register layouts in register.h',
          'C12': 'MemoryInterfaceUnit::ToMMIO/InMMIO, Cell::BitFieldCell, Dma::ActivateChannel, MemoryInterface::MMIORead/MMIOWrite or the DMA 0x1DA cell in mmio.cpp',
          'C18': 'RestoreBlockRepeat, ConvertDataAddress, Ahbm::Channel::GetBurstSize, Ahbm::GetChannelForDma, the arp pseudo-register slots or ShiftBus40',
          'C20': 'the arp slots, AccEProxy, the st2 slots, load_stepj or mov_icr', 'C13': 'Dma::Channel::Start, anything in Dma::Channel::Tick, or Ahbm::Write16',
          'C17': 'Timer::Reset, Ahbm::Reset, Btdmp::Reset, Dma::Reset, Teakra::Impl::Reset or the SharedMemory constructor', 'C09': 'RestoreBlockRepeat, StoreBlockRepeat, the block-end test in Interpreter::Run, rep(Register), RegisterState::Lc or bkrep(Imm8, Address16)',
          'C03': 'AddSub, SatAndSetAccAndFlag, SaturateAcc, alm(Register) or SetAccFlag', 'C10': 'StepAddress, RnAndModify or the mma addressing', 'C16': 'anything in btdmp.cpp, Send, SetTransmitFlush or SetTransmitEnable'}
rnd = sys.argv[1]
AVOID = AVOID7 if rnd == '7' else AVOID6 if rnd == '6' else AVOID5 if rnd == '5' else AVOID4 if rnd == '4' else (AVOID3 if rnd == '3' else AVOID2)
ids = sys.argv[2:]
os.makedirs('/tmp/scratch', exist_ok=True)
for l in open('/verif/properties.jsonl'):
    p = json.loads(l)
    if ids and p['id'] not in ids:
        continue
    wt = '/tmp/wt%s_%s' % (rnd, p['id'])
    subprocess.run(['git', '-C', '/repo', 'worktree', 'add', '-q', '--detach', wt, 'HEAD'], check=False)
    avoid = AVOID.get(p['id'])
    txt = f"""You are working in a scratch git worktree of the open-source repository wwylele/teakra (an emulator, decoder, disassembler and assembler for the XpertTeak DSP, C++17) located at {wt} . Work ONLY inside that directory: do not read or modify /repo or /verif or any other worktree. Never use `git stash` (the stash is shared between worktrees).

Here is a semantic property the code base is supposed to satisfy:

TITLE: {p['title']}
STATEMENT: {p['statement']}
QUANTIFIED OVER: {p['quantifier']['text']}
RELEVANT FILES (hints): {', '.join(p['anchors']['files'])}

YOUR TASK: produce ONE small, realistic change to the library sources (files under src/ or include/) that BREAKS this property while
 (a) the project still compiles, and
 (b) the project's existing test suite still passes.
Build: `cmake -G Ninja -B _build -S . && cmake --build _build` ; run tests: `ctest --test-dir _build --timeout 900` (all must still pass with your change).
The change should look like something a developer could plausibly introduce by mistake (an off-by-one, a wrong mask, a swapped operand, a dropped update, a condition inverted in a corner case, a refactoring that is almost equivalent, ...). IMPORTANT: it must need something specific to manifest - a particular multi-step sequence of operations, an unusual input value or mode combination, a particular interleaving or cycle alignment, or two cooperating sites that each look fine alone - NOT something that ordinary use would expose immediately on the first call.{(' Do NOT make your change in ' + avoid + ' (used already); pick a different mechanism the property depends on.') if avoid else ''}

Also write a DEMONSTRATION: a small self-contained C++ program (put it in a new directory demo/ inside the worktree, e.g. demo/demo.cpp, plus demo/build.sh that compiles it against the library sources or the built static library in _build; build.sh must work when invoked as `sh demo/build.sh` from the worktree root and produce the executable demo/demo) that exits non-zero (and prints FAIL) WITH your change and exits 0 (prints PASS) WITHOUT it. You may use internal headers from src/ (compile with -I src -I include -I include/teakra/impl, C++17; private members can be reached with -fno-access-control if needed). Note: constructing a full Teakra::Teakra object costs a couple of seconds (it builds a 65536-entry decoder table) which is fine.

DELIVERABLES (leave them in the worktree, do NOT commit): your source change as an uncommitted modification (so that `git diff` shows exactly it, and nothing else under src/ or include/), and the untracked demo/ directory. In your final answer report: (1) the `git diff` of your change, (2) exactly how to build and run the demo, (3) what specific circumstances are needed for the breakage to manifest, (4) confirmation that you ran the existing test suite WITH the change (all pass) and ran the demo both WITH the change (fails) and WITHOUT it (save your change with `git diff > /tmp/scratch/{rnd}_{p['id']}.patch`, revert it with `git apply -R`, rebuild, run; then re-apply with `git apply`; passes)."""
    open('/tmp/scratch/prompt%s_%s.txt' % (rnd, p['id']), 'w').write(txt)
    print(wt)
