"""Single source for MANIFEST.json (run tools/gen_manifest.py after editing)."""
CHECKS = {}
NOT_APPLICABLE = {}


def add(pid, category, text, note, technique, design_ref):
    CHECKS[pid] = dict(category=category, text=text, note=note, technique=technique, design_ref=design_ref)


add('C15', 'model_checking',
    'Bounded-free symbolic model checking of the real Timer methods: every method is executed symbolically (LLVM IR of src/timer.cpp) from an arbitrary timer state and compared by SMT with a specification of one step; Skip is compared with the closed form of k ticks and with the step lemma Skip(s,k)=Skip(Tick(s),k-1) for every 64-bit k up to the reported horizon. Histories of any length follow by one-step induction (paper).',
    'Assumes count_mode<4 and scale==0 (asserted by the code); interrupt handler modelled as an event. Trusted: clang IR generation, the llsym executor (validated each run against the natively compiled timer.cpp on random concrete states), z3/cvc5.',
    'symbolic execution of LLVM IR + SMT (z3/cvc5): one-step specification and skip lemmas', 'DESIGN.md section 2 C15')

add('C14', 'model_checking',
    'Symbolic model checking of every real Apbp/DataChannel method (LLVM IR of src/apbp.cpp, including the lock_guard bodies) from an arbitrary mailbox/semaphore state satisfying the invariant signal == ((semaphore & ~mask) != 0): post-state, return value and the exact set of handler events are compared by SMT with the apbp.md handshake; the invariant is re-proved after every operation, which extends the result to all operation sequences by induction.',
    'Assumes handlers installed and channel index in 0..2 (enumerated); pthread mutex calls are stubs (thread interleavings are C19). The DSP-side status words and host facade are thin std::bind closures over these methods (covered structurally by C12 when built). Trusted: clang IR generation, llsym (validated per run against native apbp.cpp), z3/cvc5.',
    'symbolic execution of LLVM IR + SMT: one-step specification with inductive invariant', 'DESIGN.md section 2 C14')

add('C16', 'model_checking',
    'Symbolic model checking of the real Btdmp code including the real std::queue/std::deque template bodies: for every queue fill 0..16 (exhaustive case split) with symbolic words, period, phase, enable word and 64-bit k, Send/Flush/Tick are compared by SMT with the FIFO specification (frame = two oldest words in order, zeros when missing, flags exact, empty interrupt exactly when a pop empties the queue) and Skip is proved equal to Tick;Skip(k-1) for all 1<=k<=horizon (plus Skip(0)=id, horizon never reaches the emptying frame, ASSERTs unreachable); induction over single steps extends this to all interleavings.',
    'Assumes the invariant 0<period, timer<period (re-proved after every operation; the period has no reachable writer). Skip lemma: frame count per skip case-split (exhaustive inside the horizon, proved), empty-queue skips bounded to 3 frames; division by the symbolic period is rewritten via the Euclidean division theorem after z3 proves its premise (thorough tier re-proves small fills with symbolic division in cvc5 bv-as-int). Queue built by real Sends from a fresh deque (libstdc++ node-boundary paths trusted). Callbacks are events.',
    'symbolic execution of LLVM IR (incl. libstdc++ deque) + SMT: FIFO specification and skip lemmas per queue fill', 'DESIGN.md section 2 C16')

add('C05', 'other',
    'Only the C-binding clause is decided: the real Teakra_Disasm_Do (LLVM IR of src/disassembler_c.cpp) is executed symbolically for every buffer size 0..N+2 against an arbitrary text (symbolic length <= N, symbolic bytes) returned by a stub of Disassembler::Do; SMT proves: returns the length, writes nothing outside dst[0..dstlen), dst holds the text truncated to dstlen-1 characters followed by NUL, NULL dst is untouched. The other clauses of C05 are not claimed.',
    'NOT decided: disassembler/assembler token round trip, injectivity of printed text, Do == join(tokens), firmware assembly (std::string / stringstream / unordered_map<variant> code is outside what llsym can encode; enumerating 65536 concrete renderings would not be a solver verdict). N = 24 quick / 112 thorough (longest rendered text is 104 characters). std::string accessors are modelled on the {pointer,length} representation.',
    'symbolic execution of LLVM IR + SMT over symbolic text and all buffer sizes (bounded)', 'DESIGN.md section 2 C05, section 3')

add('C02', 'model_checking',
    'The three decode tables are built by executing the real GetDecodeTable<V>() inside the symbolic executor; on them SMT decides: the real Matcher::Matches IR equals the mask/expected/rejector predicate of each of the 443 rows, at most one row matches any 16-bit word, the real Decode<Interpreter>(o) returns row i for every o in row i with its uniqueness ASSERT unreachable, the Disassembler and TestGenerator tables are row-for-row identical to the interpreter table, Interpreter::Run reads exactly 1+expanded program words and hands pmem[pc+1] to the handler (never fetching it as an instruction), and flipping an Unused<k> bit changes neither matching nor registers/memory/exit class of the instruction.',
    'Quick tier runs Decode<> on rows with EXCEPT clauses plus a seeded sample (thorough: all rows). Run scaffold assumes prpage==0, rep==0, pc<0x3FFFE. Unused<k> positions are read from decoder.h text. Not decided: the assembler (parser.cpp) seeing the same form. Table extraction validated each run against the natively compiled table on all 65536 opcodes.',
    'symbolic execution of LLVM IR of the real decoder + SMT (16-bit opcode fully symbolic)', 'DESIGN.md section 2 C02')

add('C20', 'model_checking',
    'RegisterState::Get<W>/Set<W> of all 19 pseudo registers (the real PseudoRegister/ProxySlot template code) are executed symbolically from an arbitrary well-formed state with a symbolic 16-bit value; SMT decides per word: read-back on writable slots, read-only slots unchanged (with the documented write-1-to-clear loop flag, doubled limit flag and 4-bit accumulator extension), each slot reads/writes exactly its field at its bit position, reserved bits read 0, no field outside the word changes, Inv preserved, and after any Set<W1> every field shared with another word W2 reads the same through both. The annotated disassembler\'s ar/arp decoding (integers handed to std::to_string / ConvertArStepAndOffset) is proved equal to the interpreter fields after Set<ar/arp> of the same words.',
    'Layout oracle is the transcribed table spec/pseudo_regs.py. Disassembler name strings are data and not checked; the test generator\'s ar/arp pinning is examined in C01 (generator clause). Assumes Inv on the pre-state.',
    'symbolic execution of LLVM IR + SMT: table-driven bit-field specification', 'DESIGN.md section 2 C20')

add('C01', 'translation_validation',
    'Clause A: every row of the current decode table (built by the real GetDecodeTable inside the executor) is dispatched through the real Matcher::call / std::function / Proxy / handler code with the opcode symbolic inside the row, a symbolic second word, a symbolic RegisterState under Inv and data memory as an SMT array, and compared with the same row of the frozen pinned upstream interpreter (/verif/ref, the hardware-validated reference): post-registers, data/program memory writes and exit class must agree wherever the reference completes. Identical IR closures are equal by construction (quick tier still executes a seeded sample of them in both trees; thorough executes all 443); any differing cell is decided by SMT and a counterexample is replayed on natively compiled current and reference interpreters.',
    'Reference = pinned upstream sources (hardware result file is an LFS pointer, unavailable). Memory interface methods are SMT-array stubs (verified in C11); CounterAcc and the allowed_instruction set are tabulated by running the real code for all keys. Clause B (generator vectors) is checked by the generator obligations when present in the evidence; the Run(1) scaffold is compared in C02/C07/C09.',
    'symbolic execution of both trees\' LLVM IR + structural term identity / SMT equivalence per decode-table row', 'DESIGN.md section 2 C01')

add('C03', 'model_checking',
    'The real arithmetic kernels (AddSub, SetAccFlag, SaturateAcc, SatAndSetAccAndFlag, ExtendOperandForAlm, ConditionPass) are executed symbolically with fully symbolic arguments and compared by SMT with an independent model written from the property statement (exact 41-bit add/sub, flags of the 40-bit value, 32-bit saturation with limit flag). Then every row of the alm_r6 / alu (5 forms) / alm [imm8 address] / or / and / add / sub / add_p1 / sub_p1 / cmp (5) / pacr1 / lim / moda3 / moda4 (non-shift ops) families is dispatched through the real decode table with the opcode symbolic inside the row and compared field-by-field with the model applied to the operands the form names; compare forms change flags only; data memory unchanged; no abort reachable.',
    'Inv on the pre-state. Operand bit positions of each form are read from decoder.h INST lines. Documented hardware quirks are part of the model (and #imm8 keeps bits 8..15, neg carry/overflow rule, logic ops bypass saturation). Forms with Register/[Rn] operands and msu/sqr/sqra are covered by C01 (reference) / C04 / C10 rather than by this model.',
    'symbolic execution of LLVM IR + SMT equivalence with an independent arithmetic reference model', 'DESIGN.md section 2 C03')
