#!/bin/bash
# tools/seed_eval.sh <seed dir under /verif/seeded> <check ids...>
# applies the seeded patch to /repo, runs the given checks (quick tier), reverts /repo; prints one line per check.
set -u
d="$1"; shift
cd /verif
if ! git -C /repo diff --quiet; then echo "/repo has uncommitted changes"; exit 2; fi
git -C /repo apply "$(realpath $d)/patch.diff" || { echo "patch does not apply"; exit 2; }
for c in "$@"; do
  out=$(./check "$c" --tier quick 2>&1)
  rc=$?
  nv=$(echo "$out" | grep -c '^VIOLATION')
  echo "$c exit=$rc violations=$nv $(echo "$out" | grep '^VIOLATION' | head -2 | sed 's/.*replay=.*\///' | tr '\n' ' ')"
  echo "$out" | grep -E "INCONCLUSIVE|ENGINE" | head -3
done
git -C /repo checkout -- .
