#!/usr/bin/env python3
"""tools/seed_table.py : markdown table of /verif/seeded/*/meta.json (pasted into DESIGN.md section 7.6)"""
import json, glob, os
rows = []
for p in sorted(glob.glob('/verif/seeded/*/meta.json')):
    m = json.load(open(p))
    seed = m.get('seed', os.path.basename(os.path.dirname(p)))
    chk = '; '.join('%s: %s' % (k, v) for k, v in m['checks_run'].items())
    rows.append('| %s | %s | %s | %s |' % (seed, ', '.join(m['files_changed']), m['needs_to_manifest'].replace('|', '/'), chk.replace('|', '/')))
print('| seed | file | needs to manifest | checks run (quick tier) and result |\n|---|---|---|---|')
print('\n'.join(rows))
import sys
if '--update-design' in sys.argv:
    import io, re
    tbl = '| seed | file | needs to manifest | checks run (quick tier) and result |\n|---|---|---|---|\n' + '\n'.join(rows)
    s = open('/verif/DESIGN.md').read()
    a, b = '<!-- SEED-TABLE-BEGIN -->', '<!-- SEED-TABLE-END -->'
    s = s[:s.index(a) + len(a)] + '\n' + tbl + '\n' + s[s.index(b):]
    open('/verif/DESIGN.md', 'w').write(s)
