#!/usr/bin/env python3
import json, os, sys
sys.path.insert(0, os.path.dirname(os.path.abspath(__file__)))
import manifest_table as T
V = os.path.dirname(os.path.dirname(os.path.abspath(__file__)))
props = [json.loads(l)['id'] for l in open(os.path.join(V, 'properties.jsonl'))]
checks = []
for pid in props:
    if pid not in T.CHECKS:
        continue
    c = T.CHECKS[pid]
    checks.append({
        'property_id': pid,
        'quick_cmd': './check %s --tier quick' % pid,
        'thorough_cmd': './check %s --tier thorough' % pid,
        'evidence_file': 'evidence/%s.json' % pid,
        'replay_cmd_template': './check %s --replay {path}' % pid,
        'engine': 'llsym',
        'level_claimed': {'category': c['category'], 'text': c['text'], 'design_ref': c['design_ref']},
        'level_note': c['note'],
        'technique': c['technique'],
    })
na = [{'property_id': p, 'reason': T.NOT_APPLICABLE.get(p, 'check not built yet in this session (work in progress; see DESIGN.md section 5 for the order of work)')} for p in props if p not in T.CHECKS]
m = {
    'version': 1,
    'setup_cmd': 'python3-vt tools/setup.py',
    'hooks': {'guard': 'TEAKRA_VERIF', 'enable': 'no source hooks are needed: checks compile harness/*.cpp against /repo/src with clang++-14 -fno-access-control (IR) and g++ (native twin)',
              'baseline_off_cmd': 'cmake -G Ninja -B /repo/_build -S /repo && cmake --build /repo/_build && ctest --test-dir /repo/_build -j8 --timeout 900',
              'source_commits': [], 'add_only': True},
    'engines': [{'name': 'llsym', 'path': 'engine/', 'serves_properties': [c['property_id'] for c in checks],
                 'kind_free_text': 'own symbolic executor over clang++-14 LLVM IR of the real C++ sources -> z3 terms; verdicts by z3 4.x / cvc5 1.0; counterexamples replayed on a natively compiled twin'}],
    'checks': checks,
    'not_applicable': na,
    'notes': 'fix: commits in /repo are listed in known_findings.json (status fixed). Exit codes: 0 held, 1 violation (VIOLATION line), 3 engine error/inconclusive (never a verdict).',
}
json.dump(m, open(os.path.join(V, 'MANIFEST.json'), 'w'), indent=1)
print('MANIFEST.json: %d checks, %d not applicable' % (len(checks), len(na)))
