#!/usr/bin/env python3
"""MANIFEST.setup_cmd: offline sanity check of the tool chain; everything else is rebuilt by each check from /repo."""
import shutil, subprocess, sys, os
ok = True
for t in ('clang++-14', 'g++', 'cvc5', 'python3-vt'):
    if shutil.which(t) is None:
        print('missing tool', t)
        ok = False
try:
    import z3
    print('z3', z3.get_version_string())
except Exception as e:
    print('z3 python missing', e)
    ok = False
os.makedirs(os.path.join(os.path.dirname(os.path.dirname(os.path.abspath(__file__))), '.build'), exist_ok=True)
sys.exit(0 if ok else 1)
