#!/bin/bash
# tools/seed_confirm.sh <name> [worktree] : confirm a sub-agent's seeded change in its scratch worktree (default /tmp/wt_<name>) and store it
# under /verif/seeded/<Cxx>/ (patch.diff, demo/, confirm.log). Prints CONFIRMED or NOT-CONFIRMED.
id="$1"; wt=${2:-/tmp/wt_$id}; out=/verif/seeded/$id
mkdir -p $out; log=$out/confirm.log; : > $log
cd $wt || exit 2
git diff -- src include > $out/patch.diff
[ -s $out/patch.diff ] || { echo "NOT-CONFIRMED $id: empty diff"; exit 1; }
echo "== files changed: $(git diff --stat -- src include | tail -1)" >> $log
( cmake -G Ninja -B _build -S . >/dev/null 2>&1; cmake --build _build 2>&1 | tail -1 ) >> $log
t=$(ctest --test-dir _build --timeout 900 2>&1 | grep -E "tests passed|tests failed"); echo "== suite with change: $t" >> $log
echo "$t" | grep -q "100% tests passed" || { echo "NOT-CONFIRMED $id: suite fails with change ($t)"; exit 1; }
( sh demo/build.sh >/dev/null 2>&1 ); ./demo/demo > /tmp/scratch/demo_$id.with 2>&1; rc1=$?
echo "== demo with change: exit $rc1: $(tail -1 /tmp/scratch/demo_$id.with)" >> $log
git apply -R $out/patch.diff || { echo "NOT-CONFIRMED $id: cannot revert"; exit 1; }
( cmake --build _build 2>&1 | tail -1 ) >> $log
( sh demo/build.sh >/dev/null 2>&1 ); ./demo/demo > /tmp/scratch/demo_$id.without 2>&1; rc2=$?
echo "== demo without change: exit $rc2: $(tail -1 /tmp/scratch/demo_$id.without)" >> $log
git apply $out/patch.diff
rm -rf $out/demo; mkdir -p $out/demo; for f in demo/*; do case "$f" in *.cpp|*.sh|*.h|*.txt|*.md|*.patch) cp "$f" $out/demo/;; esac; done
if [ $rc1 -ne 0 ] && [ $rc2 -eq 0 ]; then echo "CONFIRMED $id (demo exit with=$rc1 without=$rc2)"; else echo "NOT-CONFIRMED $id (demo exit with=$rc1 without=$rc2)"; exit 1; fi
