// Entry points for C13 (and C18): the real Dma (dma.cpp) and Ahbm (ahbm.cpp) with the real SharedMemory.
#include "dma.cpp"
#include "ahbm.cpp"
using namespace Teakra;
extern "C" {
void dma_start(Dma* d, u16 ch) { d->channels[ch].Start(); }
void dma_tick(Dma* d, u16 ch) { d->channels[ch].Tick(*d); }
void dma_dodma(Dma* d, u16 ch) { d->DoDma(ch); }
void dma_setz(Dma* d, u16 v) { d->SetZ(v); }
void dma_reset(Dma* d) { d->Reset(); }
void dma_activate(Dma* d, u16 v) { d->ActivateChannel(v); }
void dma_setsize0(Dma* d, u16 v) { d->SetSize0(v); }
u16 dma_getsize0(const Dma* d) { return d->GetSize0(); }
void dma_setsrcspace(Dma* d, u16 v) { d->SetSrcSpace(v); }
void ahbm_ctor(Ahbm* a) { new (a) Ahbm(); }
void ahbm_reset(Ahbm* a) { a->Reset(); }
u16 ahbm_read16(Ahbm* a, u16 ch, u32 addr) { return a->Read16(ch, addr); }
u32 ahbm_read32(Ahbm* a, u16 ch, u32 addr) { return a->Read32(ch, addr); }
void ahbm_write16(Ahbm* a, u16 ch, u32 addr, u16 v) { a->Write16(ch, addr, v); }
void ahbm_write32(Ahbm* a, u16 ch, u32 addr, u32 v) { a->Write32(ch, addr, v); }
u16 ahbm_chan_for_dma(const Ahbm* a, u16 d) { return a->GetChannelForDma(d); }
#ifdef NATIVE_TWIN
static int g_irq;
struct DmaTwin { SharedMemory sm; Ahbm ahbm; Dma dma{sm, ahbm}; };
DmaTwin* dt_new() { auto* t = new DmaTwin(); t->dma.SetInterruptHandler([] { ++g_irq; }); return t; }
Dma* dt_dma(DmaTwin* t) { return &t->dma; }
u8* dt_raw(DmaTwin* t) { return t->sm.raw; }
int dt_irq() { return g_irq; }
void dt_clear() { g_irq = 0; }
#endif
}
