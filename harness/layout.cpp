// Native layout dump: prints JSON {class: {field: [offset, elem_size, count, stride]}} for the classes the checks
// build by hand inside the executor. Compiled against the tree's current headers on every run (field names are the
// only thing the checks take from it; a renamed field stops the check as an engine error, never as a verdict).
#include <cstdio>
#include <cstddef>
#include <array>
#include "teakra/impl/register.h"
#include "timer.h"
#include "btdmp.h"
#include "icu.h"
#include "dma.h"
#include "ahbm.h"
#include "memory_interface.h"
#include "shared_memory.h"
#include "interpreter.h"
#include "apbp.cpp"
#include "test.h"
#pragma GCC diagnostic ignored "-Winvalid-offsetof"
using namespace Teakra;
template <class T> struct Info { static constexpr size_t es = sizeof(T), n = 1; };
template <class T, size_t N> struct Info<std::array<T, N>> { static constexpr size_t es = sizeof(T), n = N; };
#define OFF(f) ((size_t)((char*)&o_->f - buf_))
#define BEGIN(C) { using CUR = C; alignas(64) static char buf_[sizeof(C)]; CUR* o_ = (CUR*)buf_; (void)o_; printf("%s\"%s\": {\"_size\": [%zu,0,0,0]", first_c ? "" : ",\n", #C, sizeof(C)); first_c = false;
#define F(f) printf(", \"%s\": [%zu,%zu,%zu,%zu]", #f, OFF(f), Info<decltype(CUR::f)>::es, Info<decltype(CUR::f)>::n, Info<decltype(CUR::f)>::es);
#define FS(name, f0, f1, n) printf(", \"%s\": [%zu,%zu,%zu,%zu]", name, OFF(f0), sizeof(o_->f0), (size_t)n, OFF(f1) - OFF(f0));
#define BLOB(f) printf(", \"%s\": [%zu,2,%zu,2]", #f, OFF(f), sizeof(CUR::f) / 2);
#define RAW(f) printf(", \"%s\": [%zu,%zu,1,%zu]", #f, OFF(f), sizeof(CUR::f), sizeof(CUR::f));
#define END printf("}"); }
int main() {
    bool first_c = true;
    printf("{");
    BEGIN(RegisterState)
    F(pc) F(prpage) F(cpc) F(repc) F(repcs) F(rep) F(crep) F(bcn) F(lp)
    FS("bkrep_stack.start", bkrep_stack[0].start, bkrep_stack[1].start, 4)
    FS("bkrep_stack.end", bkrep_stack[0].end, bkrep_stack[1].end, 4)
    FS("bkrep_stack.lc", bkrep_stack[0].lc, bkrep_stack[1].lc, 4)
    F(a) F(b) F(a1s) F(b1s) F(ccnta) F(sat) F(sata) F(s) F(sv) F(fz) F(fm) F(fn) F(fv) F(fe) F(fc0) F(fc1) F(flm) F(fvl) F(fr)
    F(vtr0) F(vtr1) F(x) F(y) F(hwm) F(p) F(pe) F(ps) F(p0h_cbs) F(r) F(mixp) F(sp) F(page) F(pcmhi)
    F(r0b) F(r1b) F(r4b) F(r7b) F(stepi) F(stepj) F(modi) F(modj) F(stepi0) F(stepj0)
    F(stepib) F(stepjb) F(modib) F(modjb) F(stepi0b) F(stepj0b) F(m) F(br) F(stp16) F(cmd) F(epi) F(epj)
    F(arstep) F(arpstepi) F(arpstepj) F(aroffset) F(arpoffseti) F(arpoffsetj) F(arrn) F(arprni) F(arprnj)
    F(ip) F(ipv) F(im) F(imv) F(ic) F(nimc) F(ie) F(ou) F(iu) F(ext) F(mod0_unk_const)
    BLOB(shadow_registers) BLOB(shadow_swap_registers)
    BLOB(shadow_swap_ar0) BLOB(shadow_swap_ar1) BLOB(shadow_swap_arp0) BLOB(shadow_swap_arp1) BLOB(shadow_swap_arp2) BLOB(shadow_swap_arp3)
    END
    BEGIN(State)
    F(a) F(b) F(p) F(r) F(x) F(y) F(stepi0) F(stepj0) F(mixp) F(sv) F(repc) F(lc) F(cfgi) F(cfgj) F(stt0) F(stt1) F(stt2) F(mod0) F(mod1) F(mod2) F(ar) F(arp) F(test_space_x) F(test_space_y)
    END
    BEGIN(TestCase)
    RAW(before) RAW(after) F(opcode) F(expand)
    END
    BEGIN(Timer)
    F(update_mmio) F(pause) F(count_mode) F(scale) F(start_high) F(start_low) F(counter) F(counter_high) F(counter_low) RAW(interrupt_handler)
    END
    BEGIN(Btdmp)
    F(transmit_clock_config) F(transmit_period) F(transmit_timer) F(transmit_enable) F(transmit_empty) F(transmit_full)
    RAW(transmit_queue) RAW(audio_callback) RAW(interrupt_handler)
    END
    BEGIN(DataChannel)
    RAW(handler) F(ready) F(data) F(disable_interrupt) RAW(mutex)
    END
    {
        using Impl = Apbp::Impl;
        BEGIN(Impl)
        RAW(data_channels) F(semaphore) F(semaphore_mask) F(semaphore_master_signal) RAW(semaphore_mutex) RAW(semaphore_handler)
        END
    }
    BEGIN(ICU)
    F(vector_low) F(vector_high) F(vector_context_switch) RAW(on_interrupt) RAW(on_vectored_interrupt)
    RAW(request) FS("enabled", enabled[0], enabled[1], 3) RAW(vectored_enabled) RAW(mutex)
    END
    BEGIN(Interpreter)
    FS("interrupt_pending", interrupt_pending[0], interrupt_pending[1], 3)
    RAW(vinterrupt_pending) RAW(vinterrupt_context_switch) RAW(vinterrupt_address) RAW(idle)
    END
    BEGIN(MemoryInterfaceUnit)
    F(x_page) F(y_page) F(z_page) F(x_size) F(y_size) F(page_mode) F(mmio_base)
    END
    BEGIN(Dma)
    RAW(interrupt_handler) F(enable_channel) F(active_channel) RAW(channels)
#define CH(f) FS("ch." #f, channels[0].f, channels[1].f, 8)
    CH(addr_src_low) CH(addr_src_high) CH(addr_dst_low) CH(addr_dst_high) CH(size0) CH(size1) CH(size2) CH(src_step0) CH(dst_step0) CH(src_step1) CH(dst_step1)
    CH(src_step2) CH(dst_step2) CH(src_space) CH(dst_space) CH(dword_mode) CH(y) CH(z) CH(current_src) CH(current_dst) CH(counter0) CH(counter1) CH(counter2) CH(running) CH(ahbm_channel)
    END
    BEGIN(Ahbm)
    F(busy_flag) RAW(channels)
#define AC(f) FS("ch." #f, channels[0].f, channels[1].f, 3)
    AC(unit_size) AC(burst_size) AC(direction) AC(dma_channel) AC(write_burst_start)
    FS("ch.burst_queue", channels[0].burst_queue, channels[1].burst_queue, 3)
    RAW(read_external8) RAW(write_external8) RAW(read_external16) RAW(write_external16) RAW(read_external32) RAW(write_external32)
    END
    printf("}\n");
    return 0;
}
