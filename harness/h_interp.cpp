// Entry points for the interpreter-centred checks (C01-C04, C08-C10, C18, C20): the real decode table, the real
// Matcher dispatch, Run, and private helpers reached through -fno-access-control. No code of /repo is copied here.
#include "interpreter.h"
#include <new>
using namespace Teakra;
using MI = Matcher<Interpreter>;
extern "C" {
void mk_table(std::vector<MI>* out) { new (out) std::vector<MI>(GetDecodeTable<Interpreter>()); }
void decode1(MI* out, u16 o) { new (out) MI(Decode<Interpreter>(o)); }
bool matches(const MI* m, u16 o) { return m->Matches(o); }
bool needexp(const MI* m) { return m->NeedExpansion(); }
const char* mname(const MI* m) { return m->GetName(); }
void callm(const MI* m, Interpreter* v, u16 o, u16 e) { m->call(*v, o, e); }
void runn(Interpreter* v, u64 c) { v->Run(c); }

u64 k_addsub(Interpreter* v, u64 a, u64 b, bool sub) { return v->AddSub(a, b, sub); }
void k_shift(Interpreter* v, u64 val, u16 sv, u16 dest) { v->ShiftBus40(val, sv, (RegName)dest); }
u16 k_exp(Interpreter* v, u64 val) { return v->Exp(val); }
void k_setaccflag(Interpreter* v, u64 val) { v->SetAccFlag(val); }
u64 k_saturate(Interpreter* v, u64 val) { return v->SaturateAcc(val); }
void k_satset(Interpreter* v, u16 name, u64 val) { v->SatAndSetAccAndFlag((RegName)name, val); }
u64 k_getsat(Interpreter* v, u16 name) { return v->GetAndSatAcc((RegName)name); }
void k_domul(Interpreter* v, u32 unit, bool xs, bool ys) { v->DoMultiplication(unit, xs, ys); }
u64 k_p2b40(Interpreter* v, u16 unit) { return v->ProductToBus40(Px{unit}); }
void k_prodsum(Interpreter* v, u16 base, u16 acc, bool sub0, bool al0, bool sub1, bool al1) { v->ProductSum((SumBase)base, (RegName)acc, sub0, al0, sub1, al1); }
u64 k_extalm(Interpreter* v, u16 op, u16 a) { return v->ExtendOperandForAlm((AlmOp)op, a); }
u16 k_step(Interpreter* v, u32 unit, u16 addr, u16 step, bool dmod) { return v->StepAddress(unit, addr, (StepValue)step, dmod); }
u16 k_rnmod(Interpreter* v, u32 unit, u16 step, bool dmod) { return v->RnAndModify(unit, (StepValue)step, dmod); }
u16 k_rnaddr(Interpreter* v, u32 unit, u32 value) { return v->RnAddress(unit, value); }
u16 k_rnaddrmod(Interpreter* v, u32 unit, u16 step, bool dmod) { return v->RnAddressAndModify(unit, (StepValue)step, dmod); }
u16 k_offset(Interpreter* v, u32 unit, u16 addr, u16 off, bool dmod) { return v->OffsetAddress(unit, addr, (Interpreter::OffsetValue)off, dmod); }
void k_pushpc(Interpreter* v) { v->PushPC(); }
void k_poppc(Interpreter* v) { v->PopPC(); }
void k_ctxs(Interpreter* v) { v->ContextStore(); }
void k_ctxr(Interpreter* v) { v->ContextRestore(); }
u16 k_reg2bus(Interpreter* v, u16 reg, bool sat) { return v->RegToBus16((RegName)reg, sat); }
void k_bus2reg(Interpreter* v, u16 reg, u16 val) { v->RegFromBus16((RegName)reg, val); }
bool k_cond(RegisterState* r, u16 c) { Cond cc; cc.storage = c; return r->ConditionPass(cc); }
void k_regs_ctor(RegisterState* r) { new (r) RegisterState(); }
void k_regs_reset(RegisterState* r) { r->Reset(); }
void k_signal(Interpreter* v, u32 i) { v->SignalInterrupt(i); }
void k_vsignal(Interpreter* v, u32 addr, bool cs) { v->SignalVectoredInterrupt(addr, cs); }

#define PSEUDO(W) \
    u16 get_##W(const RegisterState* r) { return r->Get<W>(); } \
    void set_##W(RegisterState* r, u16 v) { r->Set<W>(v); }
PSEUDO(cfgi) PSEUDO(cfgj) PSEUDO(stt0) PSEUDO(stt1) PSEUDO(stt2) PSEUDO(mod0) PSEUDO(mod1) PSEUDO(mod2) PSEUDO(mod3)
PSEUDO(st0) PSEUDO(st1) PSEUDO(st2) PSEUDO(icr) PSEUDO(ar0) PSEUDO(ar1) PSEUDO(arp0) PSEUDO(arp1) PSEUDO(arp2) PSEUDO(arp3)

#ifdef NATIVE_TWIN
// native twin: a real Interpreter whose MemoryInterface is the same flat model the symbolic runs use
// (data space = 64 Ki words, program space = 256 Ki words, no MMIO window); C11 verifies the real MemoryInterface.
}
namespace Teakra {
static u16 g_dmem[0x10000];
static u16 g_pmem[0x40000];
MemoryInterface::MemoryInterface(SharedMemory& sm, MemoryInterfaceUnit& miu) : shared_memory(sm), memory_interface_unit(miu) {}
u16 MemoryInterface::ProgramRead(u32 a) const { return g_pmem[a & 0x3FFFF]; }
static unsigned g_wlog[64][3]; static int g_nw;
static void wlog(unsigned sp, unsigned a, unsigned v) { if (g_nw < 64) { g_wlog[g_nw][0] = sp; g_wlog[g_nw][1] = a; g_wlog[g_nw][2] = v; } ++g_nw; }
void MemoryInterface::ProgramWrite(u32 a, u16 v) { wlog(1, a, v); g_pmem[a & 0x3FFFF] = v; }
u16 MemoryInterface::DataRead(u16 a, bool) { return g_dmem[a]; }
void MemoryInterface::DataWrite(u16 a, u16 v, bool) { wlog(0, a, v); g_dmem[a] = v; }
}
extern "C" {
struct NativeMachine {
    CoreTiming ct;
    MemoryInterfaceUnit miu;
    MemoryInterface mi{*(SharedMemory*)nullptr, miu};
    RegisterState regs;
    Interpreter* interp = nullptr;
};
NativeMachine* nm_new() {
    auto* m = new NativeMachine();
    m->interp = (Interpreter*)operator new(sizeof(Interpreter));
    // built without running the constructor: the 65536-entry decoder table costs 1.4 G instructions and rows are
    // dispatched through the real GetDecodeTable entries below
    *(CoreTiming**)((char*)m->interp + 0) = &m->ct;
    *(RegisterState**)((char*)m->interp + 8) = &m->regs;
    *(MemoryInterface**)((char*)m->interp + 16) = &m->mi;
    for (int i = 0; i < 3; ++i) new (&m->interp->interrupt_pending[i]) std::atomic<bool>(false);
    new (&m->interp->vinterrupt_pending) std::atomic<bool>(false);
    new (&m->interp->vinterrupt_context_switch) std::atomic<bool>(false);
    new (&m->interp->vinterrupt_address) std::atomic<u32>(0);
    m->interp->idle = false;
    return m;
}
Interpreter* nm_interp(NativeMachine* m) { return m->interp; }
RegisterState* nm_regs(NativeMachine* m) { return &m->regs; }
u16* nm_dmem() { return g_dmem; }
u16* nm_pmem() { return g_pmem; }
int nm_wlog_n() { return g_nw; }
unsigned nm_wlog(int k, int j) { return g_wlog[k][j]; }
void nm_wlog_clear() { g_nw = 0; }
int nm_try_row(NativeMachine* m, unsigned row, u16 o, u16 e) {
    static const auto table = GetDecodeTable<Interpreter>();
    try { table[row].call(*m->interp, o, e); return 0; } catch (const UnimplementedException&) { return 1; }
}
int nm_decode_row(u16 o) {
    static const auto table = GetDecodeTable<Interpreter>();
    int found = -1;
    for (unsigned i = 0; i < table.size(); ++i)
        if (table[i].Matches(o)) { if (found >= 0) return -2; found = (int)i; }
    return found;
}
// identity of the entry the interpreter really dispatches through (Interpreter::decoders == GetDecoderTable<Interpreter>(),
// 65536 entries) in terms of the decode table rows: row index, -1 for the catch-all "undefined" entry, -3 if it is neither
int nm_decoders_row(u16 o) {
    static const auto big = GetDecoderTable<Interpreter>();
    static const auto table = GetDecodeTable<Interpreter>();
    const auto& m = big[o];
    if (m.mask == 0 && m.expected == 0 && m.rejectors.empty()) return -1;
    for (unsigned i = 0; i < table.size(); ++i) {
        const auto& t = table[i];
        if (t.name == m.name && t.mask == m.mask && t.expected == m.expected && t.expanded == m.expanded && t.rejectors.size() == m.rejectors.size() &&
            std::equal(t.rejectors.begin(), t.rejectors.end(), m.rejectors.begin(), [](const Rejector& a, const Rejector& b) { return a.mask == b.mask && a.unexpected == b.unexpected; }))
            return (int)i;
    }
    return -3;
}
int nm_decoders_size() { static const auto big = GetDecoderTable<Interpreter>(); return (int)big.size(); }
int nm_row_needexp(unsigned row) { static const auto table = GetDecodeTable<Interpreter>(); return table[row].NeedExpansion(); }
int nm_table_size() { static const auto table = GetDecodeTable<Interpreter>(); return (int)table.size(); }
#endif
}
