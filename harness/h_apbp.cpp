// Entry points for C14/C19: the real Apbp methods (apbp.cpp included so the private Impl/DataChannel are visible).
#include "apbp.cpp"
using namespace Teakra;
extern "C" {
void ap_send(Apbp* a, unsigned ch, u16 d) { a->SendData(ch, d); }
u16 ap_recv(Apbp* a, unsigned ch) { return a->RecvData(ch); }
u16 ap_peek(const Apbp* a, unsigned ch) { return a->PeekData(ch); }
bool ap_ready(const Apbp* a, unsigned ch) { return a->IsDataReady(ch); }
u16 ap_getdis(const Apbp* a, unsigned ch) { return a->GetDisableInterrupt(ch); }
void ap_setdis(Apbp* a, unsigned ch, u16 v) { a->SetDisableInterrupt(ch, v); }
void ap_setsem(Apbp* a, u16 b) { a->SetSemaphore(b); }
void ap_clearsem(Apbp* a, u16 b) { a->ClearSemaphore(b); }
u16 ap_getsem(const Apbp* a) { return a->GetSemaphore(); }
void ap_mask(Apbp* a, u16 b) { a->MaskSemaphore(b); }
u16 ap_getmask(const Apbp* a) { return a->GetSemaphoreMask(); }
bool ap_signaled(const Apbp* a) { return a->IsSemaphoreSignaled(); }
void ap_reset(Apbp* a) { a->Reset(); }
#ifdef NATIVE_TWIN
static int g_ev[4];
Apbp* aw_new() {
    auto* a = new Apbp();
    for (unsigned i = 0; i < 3; ++i)
        a->SetDataHandler(i, [i] { ++g_ev[i]; });
    a->SetSemaphoreHandler([] { ++g_ev[3]; });
    return a;
}
void* aw_impl(Apbp* a) { return a->impl.get(); }
int aw_ev(int i) { return g_ev[i]; }
void aw_ev_clear() { g_ev[0] = g_ev[1] = g_ev[2] = g_ev[3] = 0; }
#endif
}
