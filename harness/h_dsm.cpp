// Disassembler visitor: its decode table and Decode<> entry (C02, C20).
#include "disassembler.cpp"
#include <new>
using D = Teakra::Disassembler::Disassembler;
using MD = Matcher<D>;
extern "C" {
void mk_table_dsm(std::vector<MD>* out) { new (out) std::vector<MD>(GetDecodeTable<D>()); }
void decode_dsm(MD* out, u16 o) { new (out) MD(Decode<D>(o)); }
bool dsm_needexp(u16 o) { return Teakra::Disassembler::NeedExpansion(o); }
bool dsm_matches(const MD* m, u16 o) { return m->Matches(o); }
}
