// Disassembler visitor: its decode table and Decode<> entry (C02, C20).
#include "disassembler.cpp"
#include <new>
using D = Teakra::Disassembler::Disassembler;
using MD = Matcher<D>;
extern "C" {
void mk_table_dsm(std::vector<MD>* out) { new (out) std::vector<MD>(GetDecodeTable<D>()); }
void decode_dsm(MD* out, u16 o) { new (out) MD(Decode<D>(o)); }
bool dsm_needexp(u16 o) { return Teakra::Disassembler::NeedExpansion(o); }
bool dsm_matches(const MD* m, u16 o) { return m->Matches(o); }
// one row's renderer through the real Matcher::call; the token list is left in *out (C05 text injectivity)
void dsm_callm(const MD* m, D* d, u16 o, u16 e, std::vector<std::string>* out) { new (out) std::vector<std::string>(m->call(*d, o, e)); }
void dsm_do(std::string* out, u16 o, u16 e) { new (out) std::string(Teakra::Disassembler::Do(o, e, std::nullopt)); }
#ifdef NATIVE_TWIN
// replay: the real GetTokenList / Do on concrete words
int dsm_same_text(u16 o1, u16 e1, u16 o2, u16 e2) { return Teakra::Disassembler::GetTokenList(o1, e1, std::nullopt) == Teakra::Disassembler::GetTokenList(o2, e2, std::nullopt); }
int dsm_do_is_join(u16 o, u16 e) {
    auto v = Teakra::Disassembler::GetTokenList(o, e, std::nullopt);
    std::string j;
    for (size_t k = 0; k < v.size(); ++k) { if (k) j += "    "; j += v[k]; }
    return j == Teakra::Disassembler::Do(o, e, std::nullopt);
}
int dsm_text(u16 o, u16 e, char* buf, int n) { std::string t = Teakra::Disassembler::Do(o, e, std::nullopt); int k = 0; for (; k < n - 1 && k < (int)t.size(); ++k) buf[k] = t[k]; buf[k] = 0; return (int)t.size(); }
#endif
}
