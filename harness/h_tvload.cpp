// The hardware verifier's state loader (C01 clause B): the statements of src/test_verifier/main.cpp that turn a TestCase into
// a RegisterState, extracted textually from the tree on every run (engine/build.py gen_tv_load) - main() itself is a
// file-reading loop and cannot be driven as a unit.
#include "teakra/impl/register.h"
#include "test.h"
extern "C" {
void tv_load(Teakra::RegisterState* regs_, const TestCase* tc_) {
    Teakra::RegisterState& regs = *regs_;
    const TestCase& test_case = *tc_;
#include "tv_load.inc"
}
}
