// Entry points for C16: the real Btdmp methods incl. the inline ones (Send, SetTransmitFlush) and the real std::queue.
#include "btdmp.cpp"
using namespace Teakra;
extern "C" {
void bt_ctor(Btdmp* b, CoreTiming* ct) { new (b) Btdmp(*ct); }
void bt_send(Btdmp* b, u16 v) { b->Send(v); }
void bt_flush(Btdmp* b, u16 v) { b->SetTransmitFlush(v); }
void bt_tick(Btdmp* b) { b->Tick(); }
void bt_skip(Btdmp* b, u64 k) { b->Skip(k); }
u64 bt_maxskip(const Btdmp* b) { return b->GetMaxSkip(); }
void bt_reset(Btdmp* b) { b->Reset(); }
void bt_setenable(Btdmp* b, u16 v) { b->SetTransmitEnable(v); }
void bt_setclock(Btdmp* b, u16 v) { b->SetTransmitClockConfig(v); }
u16 bt_getempty(const Btdmp* b) { return b->GetTransmitEmpty(); }
u16 bt_getfull(const Btdmp* b) { return b->GetTransmitFull(); }
u64 bt_qsize(const Btdmp* b) { return b->transmit_queue.size(); }
u16 bt_qat(const Btdmp* b, u64 i) { return b->transmit_queue.c[i]; }
#ifdef NATIVE_TWIN
static CoreTiming g_ct;
static int g_irq, g_nframes;
static s16 g_frames[64][2];
Btdmp* bw_new() {
    auto* b = new Btdmp(g_ct);
    b->SetInterruptHandler([] { ++g_irq; });
    b->SetAudioCallback([](std::array<s16, 2> s) { if (g_nframes < 64) { g_frames[g_nframes][0] = s[0]; g_frames[g_nframes][1] = s[1]; } ++g_nframes; });
    return b;
}
void bw_set(Btdmp* b, u16 period, u16 timer, u16 enable) { b->transmit_period = period; b->transmit_timer = timer; b->transmit_enable = enable; }
void bw_setflags(Btdmp* b, int e, int f) { b->transmit_empty = e; b->transmit_full = f; }
u16 bw_timer(Btdmp* b) { return b->transmit_timer; }
int bw_irq() { return g_irq; }
int bw_nframes() { return g_nframes; }
int bw_frame(int i, int j) { return (u16)g_frames[i][j]; }
void bw_clear() { g_irq = g_nframes = 0; }
#endif
}
