// Test generator visitor: its decode table, per-opcode Config and the random state constructor (C01 clause B, C02, C20).
#include "test_generator.cpp"
#include <new>
using namespace Teakra::Test;
using MG = Matcher<TestGenerator>;
extern "C" {
void mk_table_gen(std::vector<MG>* out) { new (out) std::vector<MG>(GetDecodeTable<TestGenerator>()); }
void gen_state(Config* c, State* out) { *out = c->GenerateRandomState(); }
void gen_cfg_layout(unsigned long* out) {
    Config* c = nullptr;
    out[0] = (unsigned long)&c->enable; out[1] = (unsigned long)&c->lock_page; out[2] = (unsigned long)&c->lock_r7; out[3] = (unsigned long)&c->r;
    out[4] = (unsigned long)&c->ar; out[5] = (unsigned long)&c->arp; out[6] = (unsigned long)&c->expand; out[7] = sizeof(Config); out[8] = sizeof(RegConfig); out[9] = sizeof(ExpandConfig);
}
void gen_callm(const MG* m, TestGenerator* g, u16 o, Config* out) { *out = m->call(*g, o, 0); }
#ifdef NATIVE_TWIN
int gen_cfg_of(u16 opcode, Config* out) { TestGenerator g; *out = Decode<TestGenerator>(opcode).call(g, opcode, 0); return out->enable; }
int gen_cfg_size() { return (int)sizeof(Config); }
#endif
}
