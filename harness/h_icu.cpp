// Entry points for C07 (controller side): the real ICU methods (all inline in icu.h).
#include "icu.h"
using namespace Teakra;
extern "C" {
void icu_trigger(ICU* c, u16 b) { c->Trigger(b); }
void icu_triggersingle(ICU* c, u32 irq) { c->TriggerSingle(irq); }
void icu_ack(ICU* c, u16 b) { c->Acknowledge(b); }
u16 icu_getrequest(const ICU* c) { return c->GetRequest(); }
void icu_setenable(ICU* c, u32 i, u16 b) { c->SetEnable(i, b); }
void icu_setenablev(ICU* c, u16 b) { c->SetEnableVectored(b); }
u16 icu_getenable(const ICU* c, u32 i) { return c->GetEnable(i); }
u16 icu_getenablev(const ICU* c) { return c->GetEnableVectored(); }
u32 icu_getvector(const ICU* c, u32 irq) { return c->GetVector(irq); }
#ifdef NATIVE_TWIN
static int g_n;
static u32 g_ev[256][3];
ICU* iw_new() {
    auto* c = new ICU();
    c->SetInterruptHandler([](u32 i) { if (g_n < 256) { g_ev[g_n][0] = 0; g_ev[g_n][1] = i; g_ev[g_n][2] = 0; } ++g_n; },
                           [](u32 a, bool cs) { if (g_n < 256) { g_ev[g_n][0] = 1; g_ev[g_n][1] = a; g_ev[g_n][2] = cs; } ++g_n; });
    return c;
}
int iw_n() { return g_n; }
u32 iw_ev(int k, int j) { return g_ev[k][j]; }
void iw_clear() { g_n = 0; }
#endif
}
