// Entry point for C05 (C binding clause): the real Teakra_Disasm_Do with Disassembler::Do as an environment stub
// returning an arbitrary string.
#include "disassembler_c.cpp"
#ifdef NATIVE_TWIN
#include <string>
static std::string g_str;
namespace Teakra::Disassembler {
std::string Do(std::uint16_t, std::uint16_t, std::optional<ArArpSettings>) { return g_str; }
bool NeedExpansion(std::uint16_t) { return false; }
}
extern "C" void dw_set(const char* s, size_t n) { g_str.assign(s, n); }
#endif
