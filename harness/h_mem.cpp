// Entry points for C11: the real SharedMemory and MemoryInterface (memory_interface.cpp included); MMIORegion::Read/Write
// are external here (events in the executor, trivial definitions in the native twin).
#include "memory_interface.cpp"
using namespace Teakra;
extern "C" {
u16 sm_read(const SharedMemory* s, u32 a) { return s->ReadWord(a); }
void sm_write(SharedMemory* s, u32 a, u16 v) { s->WriteWord(a, v); }
u16 mi_pread(const MemoryInterface* m, u32 a) { return m->ProgramRead(a); }
void mi_pwrite(MemoryInterface* m, u32 a, u16 v) { m->ProgramWrite(a, v); }
u16 mi_dread(MemoryInterface* m, u16 a, bool bypass) { return m->DataRead(a, bypass); }
void mi_dwrite(MemoryInterface* m, u16 a, u16 v, bool bypass) { m->DataWrite(a, v, bypass); }
u16 mi_dreada32(const MemoryInterface* m, u32 a) { return m->DataReadA32(a); }
void mi_dwritea32(MemoryInterface* m, u32 a, u16 v) { m->DataWriteA32(a, v); }
u16 mi_mmioread(MemoryInterface* m, u16 a) { return m->MMIORead(a); }
void mi_mmiowrite(MemoryInterface* m, u16 a, u16 v) { m->MMIOWrite(a, v); }
void sm_ctor(SharedMemory* s, u8* mem) { new (s) SharedMemory(mem); }
#ifdef NATIVE_TWIN
}
namespace Teakra {
static int g_nev; static unsigned g_ev[64][3];
MMIORegion::~MMIORegion() = default;
class MMIORegion::Impl {};
u16 MMIORegion::Read(u16 a) { if (g_nev < 64) { g_ev[g_nev][0] = 0; g_ev[g_nev][1] = a; } ++g_nev; return 0xBEEF; }
void MMIORegion::Write(u16 a, u16 v) { if (g_nev < 64) { g_ev[g_nev][0] = 1; g_ev[g_nev][1] = a; g_ev[g_nev][2] = v; } ++g_nev; }
}
extern "C" {
struct MemTwin { SharedMemory sm; MemoryInterfaceUnit miu; MemoryInterface mi{sm, miu}; };
MemTwin* mt_new() { auto* t = new MemTwin(); t->mi.SetMMIO(*(MMIORegion*)(void*)t); return t; }
MemoryInterface* mt_mi(MemTwin* t) { return &t->mi; }
MemoryInterfaceUnit* mt_miu(MemTwin* t) { return &t->miu; }
u8* mt_raw(MemTwin* t) { return t->sm.raw; }
int mt_nev() { return g_nev; }
unsigned mt_ev(int k, int j) { return g_ev[k][j]; }
void mt_clear() { g_nev = 0; }
#endif
}
