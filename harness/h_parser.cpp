// The assembler generator and lookup (src/parser.cpp) for C05: GenerateParser enumerates the disassembler (GetTokenList /
// NeedExpansion are external here and answered by the check), Parse walks the trie.
#include "parser.cpp"
#include <new>
extern "C" {
Teakra::Parser* pz_generate() { return Teakra::GenerateParser().release(); }
void pz_parse(Teakra::Parser* p, const std::vector<std::string>* toks, Teakra::Parser::Opcode* out) { *out = p->Parse(*toks); }
}
