// Entry points for C15: the real Timer methods (timer.cpp is included so the whole TU is in one IR module).
#include "timer.cpp"
using namespace Teakra;
extern "C" {
void tm_tick(Timer* t) { t->Tick(); }
void tm_tickevent(Timer* t) { t->TickEvent(); }
void tm_skip(Timer* t, u64 k) { t->Skip(k); }
u64 tm_maxskip(const Timer* t) { return t->GetMaxSkip(); }
void tm_restart(Timer* t) { t->Restart(); }
void tm_reset(Timer* t) { t->Reset(); }
#ifdef NATIVE_TWIN
static CoreTiming g_ct;
static int g_irq;
Timer* tw_new() {
    auto* t = new Timer(g_ct);
    t->SetInterruptHandler([] { ++g_irq; });
    return t;
}
int tw_irq() { return g_irq; }
void tw_irq_clear() { g_irq = 0; }
#endif
}
