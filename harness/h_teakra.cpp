// The whole library in one translation unit (object graph checks C06, C12, C17, C19): Teakra::Impl with all peripherals,
// the MMIO closure table, Processor/Interpreter. Only thin extern "C" entry points are added.
#include "ahbm.cpp"
#include "apbp.cpp"
#include "btdmp.cpp"
#include "dma.cpp"
#include "memory_interface.cpp"
#include "mmio.cpp"
#include "timer.cpp"
#include "processor.cpp"
#include "teakra.cpp"
#include <new>
#ifdef NATIVE_TWIN
#include <dlfcn.h>
#include <pthread.h>
#endif
using namespace Teakra;
using TImpl = ::Teakra::Teakra::Impl;
extern "C" {
void ti_ctor(TImpl* t, u8* mem) { new (t) TImpl(mem); }
void ti_reset(TImpl* t) { t->Reset(); }
void ti_run(TImpl* t, unsigned cycles) { t->processor.Run(cycles); }
u16 ti_mmio_read(TImpl* t, u16 a) { return t->mmio.Read(a); }
void ti_mmio_write(TImpl* t, u16 a, u16 v) { t->mmio.Write(a, v); }
u16 ti_dread(TImpl* t, u16 a, bool bypass) { return t->memory_interface.DataRead(a, bypass); }
void ti_dwrite(TImpl* t, u16 a, u16 v, bool bypass) { t->memory_interface.DataWrite(a, v, bypass); }
u16 ti_host_mmio_read(TImpl* t, u16 a) { return t->memory_interface.MMIORead(a); }
void ti_host_mmio_write(TImpl* t, u16 a, u16 v) { t->memory_interface.MMIOWrite(a, v); }
void ti_senddata(TImpl* t, u8 i, u16 v) { t->apbp_from_cpu.SendData(i, v); }
u16 ti_recvdata(TImpl* t, u8 i) { return t->apbp_from_dsp.RecvData(i); }
bool ti_senddataisempty(TImpl* t, u8 i) { return !t->apbp_from_cpu.IsDataReady(i); }
bool ti_recvdataisready(TImpl* t, u8 i) { return t->apbp_from_dsp.IsDataReady(i); }
u16 ti_peekrecvdata(TImpl* t, u8 i) { return t->apbp_from_dsp.PeekData(i); }
void ti_setsemaphore(TImpl* t, u16 v) { t->apbp_from_cpu.SetSemaphore(v); }
u16 ti_getsemaphore(TImpl* t) { return t->apbp_from_dsp.GetSemaphore(); }
void ti_clearsemaphore(TImpl* t, u16 v) { t->apbp_from_dsp.ClearSemaphore(v); }
void ti_masksemaphore(TImpl* t, u16 v) { t->apbp_from_dsp.MaskSemaphore(v); }
void ti_mk_table(std::vector<Matcher<Interpreter>>* out) { new (out) std::vector<Matcher<Interpreter>>(GetDecodeTable<Interpreter>()); }
void ti_pwrite(TImpl* t, u32 a, u16 v) { t->memory_interface.ProgramWrite(a, v); }
void ti_timer_poke(TImpl* t, u16 mode, u32 counter) {
    t->timer[0].count_mode = (Timer::CountMode)mode; t->timer[0].update_mmio = 1; t->timer[0].pause = 0; t->timer[0].counter = counter; t->timer[1].pause = 1;
}
void ti_timer1_poke(TImpl* t, u16 mode, u32 counter, u16 start_low) {
    t->timer[1].count_mode = (Timer::CountMode)mode; t->timer[1].update_mmio = 1; t->timer[1].pause = 0; t->timer[1].counter = counter; t->timer[1].start_low = start_low; t->timer[1].start_high = 0;
}
u32 ti_timer_counter(TImpl* t) { return t->timer[0].counter; }
u32 ti_timer1_counter(TImpl* t) { return t->timer[1].counter; }
void ti_tick(TImpl* t) { t->core_timing.Tick(); }
u64 ti_skip(TImpl* t, u64 n) { return t->core_timing.Skip(n); }
void ti_call_handler(std::function<void()>* f) { (*f)(); }
RegisterState* ti_regs(TImpl* t) { return &t->processor.GetRegisterState(); }
size_t ti_sizeof() { return sizeof(TImpl); }
// container-typed hidden state (C17): direct construction of a dirty state and size/front observers
void ti_ahbm_push(TImpl* t, unsigned ch, u32 v) { t->ahbm.channels[ch].burst_queue.push(v); }
u64 ti_ahbm_qsize(TImpl* t, unsigned ch) { return t->ahbm.channels[ch].burst_queue.size(); }
void ti_btdmp_push(TImpl* t, unsigned i, u16 v) { t->btdmp[i].transmit_queue.push(v); }
u64 ti_btdmp_qsize(TImpl* t, unsigned i) { return t->btdmp[i].transmit_queue.size(); }
// the public API of teakra.cpp (Teakra::Teakra is exactly one std::unique_ptr<Impl>): the real wrappers are called on a
// one-pointer stand-in for the Teakra object so that they run on the Impl under test
struct FakeTeakra { TImpl* impl; };
static_assert(sizeof(::Teakra::Teakra) == sizeof(FakeTeakra), "Teakra::Teakra is expected to hold exactly the Impl pointer");
#define TK(t) FakeTeakra f_{t}; ::Teakra::Teakra& k = *reinterpret_cast<::Teakra::Teakra*>(&f_)
bool tf_senddataisempty(TImpl* t, u8 i) { TK(t); return k.SendDataIsEmpty(i); }
void tf_senddata(TImpl* t, u8 i, u16 v) { TK(t); k.SendData(i, v); }
bool tf_recvdataisready(TImpl* t, u8 i) { TK(t); return k.RecvDataIsReady(i); }
u16 tf_recvdata(TImpl* t, u8 i) { TK(t); return k.RecvData(i); }
u16 tf_peekrecvdata(TImpl* t, u8 i) { TK(t); return k.PeekRecvData(i); }
void tf_setsemaphore(TImpl* t, u16 v) { TK(t); k.SetSemaphore(v); }
u16 tf_getsemaphore(TImpl* t) { TK(t); return k.GetSemaphore(); }
void tf_clearsemaphore(TImpl* t, u16 v) { TK(t); k.ClearSemaphore(v); }
void tf_masksemaphore(TImpl* t, u16 v) { TK(t); k.MaskSemaphore(v); }
u16 tf_pread(TImpl* t, u32 a) { TK(t); return k.ProgramRead(a); }
void tf_pwrite(TImpl* t, u32 a, u16 v) { TK(t); k.ProgramWrite(a, v); }
u16 tf_dread(TImpl* t, u16 a, bool b) { TK(t); return k.DataRead(a, b); }
void tf_dwrite(TImpl* t, u16 a, u16 v, bool b) { TK(t); k.DataWrite(a, v, b); }
u16 tf_dreada32(TImpl* t, u32 a) { TK(t); return k.DataReadA32(a); }
void tf_dwritea32(TImpl* t, u32 a, u16 v) { TK(t); k.DataWriteA32(a, v); }
u16 tf_mmioread(TImpl* t, u16 a) { TK(t); return k.MMIORead(a); }
void tf_mmiowrite(TImpl* t, u16 a, u16 v) { TK(t); k.MMIOWrite(a, v); }
u8* tf_getdspmemory(TImpl* t) { TK(t); return k.GetDspMemory(); }
RegisterState* tf_getregs(TImpl* t) { TK(t); return &k.GetRegisterState(); }
u16 tf_dmachan0srchigh(TImpl* t) { TK(t); return k.DMAChan0GetSrcHigh(); }
u16 tf_dmachan0dsthigh(TImpl* t) { TK(t); return k.DMAChan0GetDstHigh(); }
u16 tf_ahbmunitsize(TImpl* t, u16 i) { TK(t); return k.AHBMGetUnitSize(i); }
u16 tf_ahbmdirection(TImpl* t, u16 i) { TK(t); return k.AHBMGetDirection(i); }
u16 tf_ahbmdmachannel(TImpl* t, u16 i) { TK(t); return k.AHBMGetDmaChannel(i); }
// callback setters of the public API (function-pointer arguments become std::function objects by the real conversions)
typedef void (*VoidFn)();
typedef void (*AudioFn)(std::array<s16, 2>);
void tf_setrecvhandler(TImpl* t, u8 i, VoidFn f) { TK(t); k.SetRecvDataHandler(i, f); }
void ts_setrecvhandler(TImpl* t, u8 i, VoidFn f) { t->apbp_from_dsp.SetDataHandler(i, f); }
void tf_setsemhandler(TImpl* t, VoidFn f) { TK(t); k.SetSemaphoreHandler(f); }
void ts_setsemhandler(TImpl* t, VoidFn f) { t->apbp_from_dsp.SetSemaphoreHandler(f); }
void tf_setaudiocb(TImpl* t, AudioFn f) { TK(t); k.SetAudioCallback(f); }
void ts_setaudiocb(TImpl* t, AudioFn f) { t->btdmp[0].SetAudioCallback(f); }
void tf_setahbmcb(TImpl* t, u8 (*r8)(u32), void (*w8)(u32, u8), u16 (*r16)(u32), void (*w16)(u32, u16), u32 (*r32)(u32), void (*w32)(u32, u32)) {
    TK(t); ::Teakra::AHBMCallback cb; cb.read8 = r8; cb.write8 = w8; cb.read16 = r16; cb.write16 = w16; cb.read32 = r32; cb.write32 = w32; k.SetAHBMCallback(cb);
}
void ts_setahbmcb(TImpl* t, u8 (*r8)(u32), void (*w8)(u32, u8), u16 (*r16)(u32), void (*w16)(u32, u16), u32 (*r32)(u32), void (*w32)(u32, u32)) {
    t->ahbm.SetExternalMemoryCallback(r8, w8, r16, w16, r32, w32);
}
// what each wrapper is documented to do, written against the components directly
u16 ts_pread(TImpl* t, u32 a) { return t->memory_interface.ProgramRead(a); }
u16 ts_dreada32(TImpl* t, u32 a) { return t->memory_interface.DataReadA32(a); }
void ts_dwritea32(TImpl* t, u32 a, u16 v) { t->memory_interface.DataWriteA32(a, v); }
u8* ts_getdspmemory(TImpl* t) { return t->shared_memory.raw; }
u16 ts_dmachan0srchigh(TImpl* t) { return t->dma.channels[0].addr_src_high; }
u16 ts_dmachan0dsthigh(TImpl* t) { return t->dma.channels[0].addr_dst_high; }
u16 ts_ahbmunitsize(TImpl* t, u16 i) { return (u16)t->ahbm.channels[i].unit_size; }
u16 ts_ahbmdirection(TImpl* t, u16 i) { return (u16)t->ahbm.channels[i].direction; }
u16 ts_ahbmdmachannel(TImpl* t, u16 i) { return t->ahbm.channels[i].dma_channel; }
#ifdef NATIVE_TWIN
TImpl* tn_new() { return new TImpl(nullptr); }
// schedule replay: the k-th pthread_mutex_lock of the calling thread (counted from tn_set_hook) first runs a hook - the
// "other thread's" operation placed at that critical-section boundary. Bound to this shared object by -Wl,-Bsymbolic.
static int tn_lock_serial = 0, tn_lock_at = -1;
static void (*tn_hook)() = nullptr;
int pthread_mutex_lock(pthread_mutex_t* m) {
    static int (*real)(pthread_mutex_t*) = (int (*)(pthread_mutex_t*))dlsym(RTLD_NEXT, "pthread_mutex_lock");
    if (tn_hook) {
        if (tn_lock_serial++ == tn_lock_at) {
            auto h = tn_hook;
            tn_hook = nullptr;
            h();
        }
    }
    return real(m);
}
void tn_set_hook(int at, void (*h)()) { tn_lock_serial = 0; tn_lock_at = at; tn_hook = h; }
int tn_hook_pending() { return tn_hook != nullptr; }
#endif
}
