"""Native twin helpers: load the harness shared object with ctypes, poke object fields through the layout dump,
run a call in a forked child so that a deliberate abort (ASSERT/UNREACHABLE) is an outcome, not a crash of the check."""
import ctypes, os, pickle, signal, struct


class Twin:
    def __init__(s, so_path):
        s.lib = ctypes.CDLL(so_path)

    def fn(s, name, restype=None, argtypes=None):
        f = getattr(s.lib, name)
        f.restype = restype
        if argtypes is not None:
            f.argtypes = argtypes
        return f


def poke(addr, layout, field, value, i=0):
    off, sz, cnt, stride = layout[field]
    ctypes.memmove(addr + off + i * stride, int(value).to_bytes(sz, 'little'), sz)


def peek(addr, layout, field, i=0):
    off, sz, cnt, stride = layout[field]
    return int.from_bytes(ctypes.string_at(addr + off + i * stride, sz), 'little')


def in_child(fn, timeout=20):
    """run fn() in a forked child; returns ('ok', result) | ('signal', signo) | ('exit', code) | ('timeout', None)"""
    r, w = os.pipe()
    pid = os.fork()
    if pid == 0:
        os.close(r)
        try:
            devnull = os.open(os.devnull, os.O_WRONLY)
            os.dup2(devnull, 2)
            os.dup2(devnull, 1)
            signal.alarm(timeout)
            res = fn()
            os.write(w, pickle.dumps(res))
            os._exit(0)
        except BaseException as x:
            try:
                os.write(w, pickle.dumps(('pyerr', repr(x))))
            except Exception:
                pass
            os._exit(77)
    os.close(w)
    data = b''
    while True:
        b = os.read(r, 65536)
        if not b:
            break
        data += b
    os.close(r)
    _, status = os.waitpid(pid, 0)
    if os.WIFSIGNALED(status):
        sig = os.WTERMSIG(status)
        if sig == signal.SIGALRM:
            return ('timeout', None)
        return ('signal', sig)
    code = os.WEXITSTATUS(status)
    if code == 0 and data:
        return ('ok', pickle.loads(data))
    return ('exit', code, pickle.loads(data) if data else None)
