#!/usr/bin/env python3
"""llsym: symbolic executor for the LLVM-14 IR subset emitted by clang++-14 -O1 -fno-inline -> z3 terms.
See DESIGN.md section 1.2."""
import sys, time, itertools
import z3
from .llparse import parse_module, T, IntT, VOID

sys.setrecursionlimit(20000)


class Ptr:
    __slots__ = ('r', 'o', 'sym', 'lo', 'hi')
    # concrete pointer: r region id, o int offset, sym == ()
    # symbolic pointer: sym = tuple of (guard Bool, Ptr concrete) alternatives (mutually exclusive, exhaustive under pc)

    def __init__(s, r, o, sym=(), lo=None, hi=None):
        s.r, s.o, s.sym, s.lo, s.hi = r, o, tuple(sym), lo, hi

    def __repr__(s):
        return 'Ptr(%s+%s%s)' % (s.r, s.o, '|alts%d' % len(s.sym) if s.sym else '')

    def alts(s):
        return s.sym if s.sym else ((None, s),)


class Undef:
    pass


DEAD = object()


class Abort(Exception):
    pass


class UnwindBound(Exception):
    pass


class Region:
    __slots__ = ('size', 'cells', 'name', 'ro', 'arr')
    # arr: None for ordinary (cell-mapped) regions; a z3 Array(BitVec64 -> BitVec8) for array-backed regions, whose
    # pointers may carry symbolic byte offsets (Ptr.o is then a 64-bit term); every access records the obligation
    # offset + n <= size

    def __init__(s, size, name, cells=None, arr=None):
        s.size = size
        s.cells = cells if cells is not None else {}   # off -> (nbytes, value)
        s.name = name
        s.arr = arr

    def copy(s):
        return Region(s.size, s.name, dict(s.cells), s.arr)


def mk_concat_bytes(bs):
    # bs: list of 8-bit terms, low byte first. merge adjacent extracts of the same base term (deterministic)
    parts = []  # (base, lo, hi) or (term,None,None), low first
    for b in bs:
        if z3.is_app(b) and b.decl().kind() == z3.Z3_OP_EXTRACT:
            hi, lo = b.params()
            base = b.arg(0)
            if parts and parts[-1][1] is not None and parts[-1][0].eq(base) and parts[-1][2] + 1 == lo:
                parts[-1] = (base, parts[-1][1], hi)
                continue
            parts.append((base, lo, hi))
        else:
            parts.append((b, None, None))
    terms = []
    for base, lo, hi in parts:
        if lo is None:
            terms.append(base)
        elif lo == 0 and hi == base.size() - 1:
            terms.append(base)
        else:
            terms.append(z3.Extract(hi, lo, base))
    if len(terms) == 1:
        return terms[0]
    return z3.Concat(*reversed(terms))


def is_c(v):
    return isinstance(v, int)


def bv(v, bits):
    return z3.BitVecVal(v, bits) if isinstance(v, int) else v


def mask(b):
    return (1 << b) - 1


def sgn(v, b):
    return v - (1 << b) if v >> (b - 1) else v


class State:
    __slots__ = ('pc', 'mem', 'owned', 'log')

    def __init__(s):
        s.pc = []        # list of z3 Bool conjuncts
        s.mem = {}       # region id -> Region
        s.owned = set()  # region ids this state may mutate in place
        s.log = []       # (guard_len, payload)

    def fork(s):
        n = State()
        n.pc = list(s.pc)
        n.mem = dict(s.mem)
        n.owned = set()
        s.owned = set()
        n.log = list(s.log)
        return n

    def wregion(s, r):
        if r not in s.owned:
            s.mem[r] = s.mem[r].copy()
            s.owned.add(r)
        return s.mem[r]


class Frame:
    __slots__ = ('fn', 'env', 'rets', 'visits', 'allocas')

    def __init__(s, fn):
        s.fn = fn
        s.env = {}
        s.rets = []
        s.visits = {}
        s.allocas = []


class Exec:
    def __init__(s, mod, unwind=70):
        s.m = mod
        s.unwind = unwind
        s.lazy = False
        s.nreg = 0
        s.gaddr = {}      # global name -> region id
        s.faddr = {}      # function name -> id
        s.fbyid = {}
        s.exits = []      # (pc-list, kind, info)
        s.oblig = []      # (pc-list, cond Bool, desc)  must hold
        s.intercepts = {}
        s.solver = z3.Solver()
        s.ninstr = 0
        s.nsolver = 0
        s.fresh = itertools.count()
        s.uninit = []
        for i, name in enumerate(list(mod.funcs) + list(mod.decls) + list(mod.aliases)):
            s.faddr[name] = i + 1
            s.fbyid[i + 1] = name
        s.ipd = {}
        s.ginit = {}
        s.mem_trace = None       # when a list: every concrete-address access (kind, region, offset, n, atomic, lockset, pc) (C19)
        s.cur_atomic = False
        s.lockset = []
        s.load_trace = None      # when a set: (region, offset, nbytes) of every concrete-address load (footprints, C12)
        s.track_dead = False     # when set: stack slots of returned functions are remembered; touching one is a 'uaf' exit class
        s.dead = set()
        s.access_log = []        # accesses to array-backed regions: (kind, region name, pc, offset term, nbytes)
        s.div_oracle = None      # optional: fn(ex, st, op, bits, A, B) -> term or None (sound rewrites only; see checks/c16.py)
        s.div_zero_check = False
        s.feas_timeout_ms = 20000

    # ------------------------------------------------------------------ memory
    def new_region(s, st, size, name):
        s.nreg += 1
        r = s.nreg
        st.mem[r] = Region(size, name)
        st.owned.add(r)
        return r

    def global_ptr(s, st, name):
        if name in s.faddr and name not in s.m.globals:
            return Ptr('F', s.faddr[name])
        if name not in s.gaddr:
            t, init, const = s.m.globals[name]
            sz = s.m.size(t)
            s.nreg += 1
            r = s.nreg
            s.gaddr[name] = r
            reg = Region(sz, name)
            s.ginit[r] = (t, init)
        r = s.gaddr[name]
        if r not in st.mem:
            t, init = s.ginit[r]
            st.mem[r] = Region(s.m.size(t), name)
            st.owned.add(r)
            if init is not None:
                s.write_const(st, Ptr(r, 0), t, init)
        return Ptr(r, 0)

    def write_const(s, st, p, t, init):
        k = init[0]
        if k == 'zero' or k == 'undef':
            if k == 'zero':
                s.fill(st, p, s.m.size(t), 0)
            return
        if k == 'agg':
            if t.k == 'struct':
                offs = s.m.offsets(t)
                for (et, ev), o in zip(init[1], offs):
                    s.write_const(st, Ptr(p.r, p.o + o), et, ev)
            else:
                es = s.m.size(t.elem)
                for i, (et, ev) in enumerate(init[1]):
                    s.write_const(st, Ptr(p.r, p.o + i * es), et, ev)
            return
        if k == 'str':
            for i, b in enumerate(init[1]):
                s.store(st, Ptr(p.r, p.o + i), 1, b)
            return
        v = s.const(st, t, init)
        s.store(st, p, s.m.size(t), v)

    def fill(s, st, p, n, byte):
        o = p.o
        i = 0
        while i < n:
            if (o + i) % 8 == 0 and n - i >= 8:
                s.store(st, Ptr(p.r, o + i), 8, byte * 0x0101010101010101 if is_c(byte) else z3.Concat(*[bv(byte, 8)] * 8))
                i += 8
            else:
                s.store(st, Ptr(p.r, o + i), 1, byte)
                i += 1

    def load(s, st, p, n, desc=''):
        if p.r == 'F':
            raise Abort('load from function')
        if p.sym:
            return s.load_sym(st, p, n)
        reg = st.mem[p.r]
        if s.track_dead and p.r in s.dead:
            s.exits.append((list(st.pc), 'uaf', 'load from dead stack slot %s+%s (%s)' % (reg.name, p.o, desc)))
        if s.load_trace is not None and reg.arr is None:
            s.load_trace.add((p.r, p.o, n))
        if s.mem_trace is not None and reg.arr is None:
            s.mem_trace.append(('R', p.r, p.o, n, s.cur_atomic, tuple(s.lockset), list(st.pc)))
        if reg.arr is not None:
            off = bv(p.o, 64)
            s.oblig.append((list(st.pc), z3.And(z3.ULE(off, reg.size - n), z3.ULE(off + n, reg.size)), 'load of %d byte(s) inside %s' % (n, reg.name)))
            s.access_log.append(('L', reg.name, list(st.pc), off, n))
            bs = [z3.Select(reg.arr, off + i) for i in range(n)]
            if is_c(p.o):
                # concrete address: a byte laid down by a concrete store (e.g. a program word) reads back as a Python int
                cb = [z3.simplify(b) for b in bs]
                if all(z3.is_bv_value(b) for b in cb):
                    v = 0
                    for i, b in enumerate(cb):
                        v |= b.as_long() << (8 * i)
                    return v
            return bs[0] if n == 1 else z3.Concat(*reversed(bs))
        if reg.size is not None and not (0 <= p.o and p.o + n <= reg.size):
            raise Abort('OOB load %s+%d size %s (%s)' % (reg.name, p.o, reg.size, desc))
        c = reg.cells.get(p.o)
        if c is not None and c[0] == n:
            return c[1]
        # slow path: assemble bytes
        bs = []
        for i in range(n):
            bs.append(s.load_byte(st, reg, p.r, p.o + i))
        if any(isinstance(b, Ptr) for b in bs):
            raise Abort('partial pointer load')
        if all(is_c(b) for b in bs):
            v = 0
            for i, b in enumerate(bs):
                v |= b << (8 * i)
            return v
        return mk_concat_bytes([bv(b, 8) for b in bs])

    def load_byte(s, st, reg, rid, o):
        c = reg.cells.get(o)
        if c is not None and c[0] == 1:
            return c[1]
        for back in range(0, 16):
            c = reg.cells.get(o - back)
            if c is not None and c[0] > back:
                v = c[1]
                if isinstance(v, Ptr):
                    return v
                if is_c(v):
                    return (v >> (8 * back)) & 0xFF
                return z3.Extract(8 * back + 7, 8 * back, v)
        # uninitialised byte
        u = z3.BitVec('uninit_%s_%d_%d' % (reg.name, o, next(s.fresh)), 8)
        s.uninit.append(u)
        st.wregion(rid).cells[o] = (1, u)
        return u

    def store(s, st, p, n, v):
        if p.sym:
            return s.store_sym(st, p, n, v)
        reg = st.wregion(p.r)
        if s.mem_trace is not None and reg.arr is None:
            s.mem_trace.append(('W', p.r, p.o, n, s.cur_atomic, tuple(s.lockset), list(st.pc)))
        if s.track_dead and p.r in s.dead:
            s.exits.append((list(st.pc), 'uaf', 'store to dead stack slot %s+%s' % (reg.name, p.o)))
        if reg.arr is not None:
            off = bv(p.o, 64)
            s.oblig.append((list(st.pc), z3.And(z3.ULE(off, reg.size - n), z3.ULE(off + n, reg.size)), 'store of %d byte(s) inside %s' % (n, reg.name)))
            s.access_log.append(('S', reg.name, list(st.pc), off, n))
            if isinstance(v, Ptr):
                raise Abort('pointer stored into array-backed region')
            V = bv(v, 8 * n)
            arr = reg.arr
            for i in range(n):
                arr = z3.Store(arr, off + i, z3.Extract(8 * i + 7, 8 * i, V))
            reg.arr = arr
            return
        if reg.size is not None and not (0 <= p.o and p.o + n <= reg.size):
            raise Abort('OOB store %s+%d size %s' % (reg.name, p.o, reg.size))
        c = reg.cells.get(p.o)
        if c is not None and c[0] == n:
            reg.cells[p.o] = (n, v)
            return
        # clear overlapping cells (split them to bytes)
        for o in range(p.o - 15, p.o + n):
            c = reg.cells.get(o)
            if c is not None and o + c[0] > p.o and o < p.o + n and not (o == p.o and c[0] == n):
                del reg.cells[o]
                if isinstance(c[1], Ptr):
                    continue
                for i in range(c[0]):
                    if not (p.o <= o + i < p.o + n):
                        b = (c[1] >> (8 * i)) & 0xFF if is_c(c[1]) else z3.Extract(8 * i + 7, 8 * i, c[1])
                        reg.cells[o + i] = (1, b)
        reg.cells[p.o] = (n, v)

    def load_sym(s, st, p, n):
        out = None
        isptr = False
        vals = []
        for g, q in p.sym:
            reg = st.mem.get(q.r)
            if reg is not None and reg.size is not None and not (0 <= q.o and q.o + n <= reg.size):
                s.oblig.append((list(st.pc), z3.Not(g), 'load through %s+%d stays in bounds' % (reg.name, q.o)))
                continue
            vals.append((g, s.load(st, q, n)))
        if not vals:
            raise Abort('symbolic load: every alternative out of bounds')
        if any(isinstance(v, Ptr) for _, v in vals):
            if not all(isinstance(v, Ptr) for _, v in vals):
                raise Abort('mixed pointer/int symbolic load')
            alts = []
            for g, v in vals:
                for g2, q2 in v.alts():
                    alts.append((g if g2 is None else z3.And(g, g2), q2))
            return Ptr(None, None, alts)
        for g, v in reversed(vals):
            v = bv(v, 8 * n) if n else v
            out = v if out is None else z3.If(g, v, out)
        return out

    def store_sym(s, st, p, n, v):
        for g, q in p.sym:
            reg = st.mem.get(q.r)
            if reg is not None and reg.size is not None and not (0 <= q.o and q.o + n <= reg.size):
                s.oblig.append((list(st.pc), z3.Not(g), 'store through %s+%d stays in bounds' % (reg.name, q.o)))
                continue
            old = s.load(st, q, n)
            if isinstance(old, Ptr) or isinstance(v, Ptr):
                raise Abort('symbolic store of pointer')
            s.store(st, q, n, z3.If(g, bv(v, 8 * n), bv(old, 8 * n)))

    # ------------------------------------------------------------------ values
    def const(s, st, t, op):
        k = op[0]
        if k == 'c':
            return op[1]
        if k == 'flt':
            return 0      # floating point values are never computed with (only libstdc++ load factors, whose users are stubbed)
        if k == 'null':
            return Ptr(0, 0)
        if k == 'g':
            return s.global_ptr(st, op[1])
        if k == 'undef':
            return 0 if t.k == 'int' else (Ptr(0, 0) if t.k == 'ptr' else Undef())
        if k == 'zero':
            if t.k == 'int':
                return 0
            if t.k == 'ptr':
                return Ptr(0, 0)
            if t.k == 'struct':
                return [s.const(st, e, ('zero', e)) for e in t.elems]
            if t.k == 'array':
                return [s.const(st, t.elem, ('zero', t.elem)) for _ in range(t.n)]
        if k == 'cgep':
            base = s.const(st, None, op[2])
            return s.gep(st, op[1], base, [(it, s.const(st, it, iv)) for it, iv in op[3]])
        if k == 'ccast':
            x = s.const(st, op[2], op[3])
            return s.cast(op[1], op[2], x, op[4])
        if k == 'agg':
            return [s.const(st, et, ev) for et, ev in op[1]]
        raise Abort('const? %r' % (op,))

    def val(s, st, fr, t, op):
        if op[0] == 'v':
            return fr.env[op[1]]
        return s.const(st, t, op)

    def gep(s, st, bt, base, idx):
        if not isinstance(base, Ptr):
            raise Abort('gep on non-pointer %r' % (base,))
        res = []
        for g0, q in base.alts():
            if q.r != 'F' and q.r in st.mem and st.mem[q.r].arr is not None:
                # array-backed region: plain (possibly symbolic) byte-offset arithmetic in 64 bits
                off = q.o
                t = bt
                first = True
                for it, iv in idx:
                    if first:
                        es = s.m.size(t)
                        first = False
                    elif t.k == 'struct':
                        off = off + s.m.offsets(t)[iv] if is_c(off) else off + s.m.offsets(t)[iv]
                        t = t.elems[iv]
                        continue
                    elif t.k == 'array':
                        es = s.m.size(t.elem)
                        t = t.elem
                    else:
                        raise Abort('gep into ' + t.k)
                    if is_c(iv) and is_c(off):
                        off = off + sgn(iv, it.bits) * es
                    else:
                        ivs = bv(iv, it.bits)
                        ivs = ivs if it.bits == 64 else z3.SignExt(64 - it.bits, ivs)
                        off = bv(off, 64) + ivs * es
                res.append((g0, Ptr(q.r, off)))
                continue
            cur = [(g0, q.o)]
            t = bt
            first = True
            for it, iv in idx:
                if first:
                    es = s.m.size(t)
                    bound = None
                    first = False
                elif t.k == 'struct':
                    assert is_c(iv)
                    off = s.m.offsets(t)[iv]
                    cur = [(g, o + off) for g, o in cur]
                    t = t.elems[iv]
                    continue
                elif t.k == 'array':
                    es = s.m.size(t.elem)
                    bound = t.n
                    t = t.elem
                else:
                    raise Abort('gep into ' + t.k)
                if is_c(iv):
                    d = sgn(iv, it.bits) * es
                    cur = [(g, o + d) for g, o in cur]
                else:
                    if bound is None or bound > 1024:
                        # pointer arithmetic with a symbolic index: enumerate the element slots of the (small) region
                        reg = st.mem.get(q.r) if q.r != 'F' else None
                        if reg is None or reg.size is None or reg.size > 8192 or len(cur) != 1 or es == 0:
                            raise Abort('unbounded symbolic index')
                        g, o = cur[0]
                        lo = -(o // es)
                        hi = (reg.size - o) // es       # one-past allowed as an address
                        ivs = iv if it.bits == 64 else z3.SignExt(64 - it.bits, iv)
                        s.oblig.append((list(st.pc) + ([g] if g is not None else []), z3.And(ivs >= lo, ivs <= hi), 'pointer index stays inside %s' % reg.name))
                        cur = [((ivs == i) if g is None else z3.And(g, ivs == i), o + i * es) for i in range(lo, hi + 1)]
                        continue
                    s.oblig.append((list(st.pc) + ([g0] if g0 is not None else []), z3.ULT(iv, bound), 'index<%d' % bound))
                    cur = [((iv == i) if g is None else z3.And(g, iv == i), o + i * es) for g, o in cur for i in range(bound)]
            res.extend((g, Ptr(q.r, o)) for g, o in cur)
        if len(res) == 1 and res[0][0] is None:
            return res[0][1]
        return Ptr(None, None, res)

    def cast(s, op, ft, x, tt):
        if op == 'bitcast' or op == 'addrspacecast':
            return x
        if op == 'ptrtoint':
            if isinstance(x, Ptr):
                if x.r == 'F':
                    return x.o << 4     # function "address"
                if x.sym:
                    out = None
                    for g, q in reversed(x.sym):
                        v = z3.BitVecVal((q.r << 32) + q.o, 64)
                        out = v if out is None else z3.If(g, v, out)
                    return out
                return (x.r << 32) + x.o
            return x
        if op == 'inttoptr':
            if is_c(x):
                if x == 0:
                    return Ptr(0, 0)
                if x < (1 << 32):
                    return Ptr('F', x >> 4)
                return Ptr(x >> 32, x & 0xFFFFFFFF)
            raise Abort('inttoptr symbolic')
        fb, tb = ft.bits, tt.bits
        if op == 'trunc':
            if is_c(x):
                return x & mask(tb)
            if tb == 1:
                return z3.Extract(0, 0, x) == 1
            return z3.Extract(tb - 1, 0, x)
        if op == 'zext':
            if is_c(x):
                return x
            if fb == 1:
                return z3.If(x, z3.BitVecVal(1, tb), z3.BitVecVal(0, tb))
            return z3.ZeroExt(tb - fb, x)
        if op == 'sext':
            if is_c(x):
                return sgn(x, fb) & mask(tb)
            if fb == 1:
                return z3.If(x, z3.BitVecVal(mask(tb), tb), z3.BitVecVal(0, tb))
            return z3.SignExt(tb - fb, x)
        raise Abort('cast ' + op)

    def binop(s, op, t, a, b):
        bits = t.bits
        if bits == 1:
            if is_c(a) and is_c(b):
                return {'and': a & b, 'or': a | b, 'xor': a ^ b, 'add': a ^ b, 'sub': a ^ b}[op]
            A = z3.BoolVal(bool(a)) if is_c(a) else a
            B = z3.BoolVal(bool(b)) if is_c(b) else b
            return {'and': z3.And, 'or': z3.Or, 'xor': z3.Xor, 'add': z3.Xor, 'sub': z3.Xor}[op](A, B)
        if is_c(a) and is_c(b):
            m = mask(bits)
            if op == 'add':
                return (a + b) & m
            if op == 'sub':
                return (a - b) & m
            if op == 'mul':
                return (a * b) & m
            if op == 'and':
                return a & b
            if op == 'or':
                return a | b
            if op == 'xor':
                return a ^ b
            if op == 'shl':
                return (a << b) & m if b < bits else 0
            if op == 'lshr':
                return a >> b if b < bits else 0
            if op == 'ashr':
                return (sgn(a, bits) >> min(b, bits - 1)) & m
            if op == 'udiv':
                return a // b
            if op == 'urem':
                return a % b
            if op == 'sdiv':
                q = abs(sgn(a, bits)) // abs(sgn(b, bits))
                return (q if (sgn(a, bits) < 0) == (sgn(b, bits) < 0) else -q) & m
            raise Abort('binop ' + op)
        A, B = bv(a, bits), bv(b, bits)
        if op == 'add':
            return A + B
        if op == 'sub':
            return A - B
        if op == 'mul':
            return A * B
        if op == 'and':
            if is_c(b) and b == mask(bits):
                return A
            return A & B
        if op == 'or':
            return A | B
        if op == 'xor':
            return A ^ B
        if op == 'shl':
            return A << B
        if op == 'lshr':
            return z3.LShR(A, B)
        if op == 'ashr':
            return A >> B
        if op == 'udiv':
            return z3.UDiv(A, B)
        if op == 'urem':
            return z3.URem(A, B)
        if op == 'sdiv':
            return A / B
        if op == 'srem':
            return z3.SRem(A, B)
        raise Abort('binop ' + op)

    def icmp(s, pred, t, a, b):
        if isinstance(a, Ptr) or isinstance(b, Ptr):
            if isinstance(a, Ptr) and isinstance(b, Ptr) and not a.sym and not b.sym:
                eq = (a.r == b.r and a.o == b.o)
                if pred == 'eq':
                    return int(eq)
                if pred == 'ne':
                    return int(not eq)
                if a.r == b.r:
                    return int({'ult': a.o < b.o, 'ule': a.o <= b.o, 'ugt': a.o > b.o, 'uge': a.o >= b.o}[pred])
            if isinstance(a, Ptr) and isinstance(b, Ptr) and pred in ('eq', 'ne'):
                terms = []
                for g1, p1 in a.alts():
                    for g2, p2 in b.alts():
                        if p1.r == p2.r and p1.o == p2.o:
                            gs = [g for g in (g1, g2) if g is not None]
                            terms.append(z3.And(*gs) if len(gs) > 1 else (gs[0] if gs else z3.BoolVal(True)))
                e = z3.Or(*terms) if len(terms) > 1 else (terms[0] if terms else z3.BoolVal(False))
                return e if pred == 'eq' else z3.Not(e)
            raise Abort('ptr icmp %s %r %r' % (pred, a, b))
        bits = t.bits if t.k == 'int' else 64
        if bits == 1:
            A = z3.BoolVal(bool(a)) if is_c(a) else a
            B = z3.BoolVal(bool(b)) if is_c(b) else b
            if is_c(a) and is_c(b):
                return int({'eq': a == b, 'ne': a != b}[pred])
            return (A == B) if pred == 'eq' else (A != B)
        if is_c(a) and is_c(b):
            sa, sb = sgn(a, bits), sgn(b, bits)
            return int({'eq': a == b, 'ne': a != b, 'ult': a < b, 'ule': a <= b, 'ugt': a > b, 'uge': a >= b,
                        'slt': sa < sb, 'sle': sa <= sb, 'sgt': sa > sb, 'sge': sa >= sb}[pred])
        A, B = bv(a, bits), bv(b, bits)
        return {'eq': lambda: A == B, 'ne': lambda: A != B, 'ult': lambda: z3.ULT(A, B), 'ule': lambda: z3.ULE(A, B),
                'ugt': lambda: z3.UGT(A, B), 'uge': lambda: z3.UGE(A, B), 'slt': lambda: A < B, 'sle': lambda: A <= B,
                'sgt': lambda: A > B, 'sge': lambda: A >= B}[pred]()

    # ------------------------------------------------------------------ control
    def feasible(s, st, cond):
        """unknown counts as feasible (sound: an infeasible path only contributes terms under a false guard)"""
        s.nsolver += 1
        s.solver.set('timeout', s.feas_timeout_ms)
        r = s.solver.check(*(st.pc + [cond]))
        return r != z3.unsat

    def decide(s, st, c):
        """returns True/False if decided, else z3 Bool"""
        if is_c(c):
            return bool(c)
        c2 = z3.simplify(c)
        if z3.is_true(c2):
            return True
        if z3.is_false(c2):
            return False
        return c

    def ipdoms(s, fn):
        if fn.name in s.ipd:
            return s.ipd[fn.name]
        succ = {}
        for lb, ins in fn.blocks.items():
            t = ins[-1]
            if t[0] == 'br':
                succ[lb] = [t[2]]
            elif t[0] == 'condbr':
                succ[lb] = [t[3], t[4]]
            elif t[0] == 'switch':
                succ[lb] = list(dict.fromkeys([t[4]] + [c[1] for c in t[5]]))
            elif t[0] == 'invoke':
                succ[lb] = [t[5]]
            else:
                succ[lb] = ['$exit']
        nodes = list(fn.blocks) + ['$exit']
        succ['$exit'] = []
        full = set(nodes)
        pd = {n: set(full) for n in nodes}
        pd['$exit'] = {'$exit'}
        ch = True
        while ch:
            ch = False
            for n in reversed(fn.order):
                ss = succ[n]
                new = set.intersection(*[pd[x] for x in ss]) | {n} if ss else {n}
                if new != pd[n]:
                    pd[n] = new
                    ch = True
        ip = {}
        for n in fn.order:
            cands = pd[n] - {n}
            # immediate: the one that is post-dominated by all others in cands
            best = None
            for c in cands:
                if all((o in pd[c]) for o in cands):
                    best = c
            ip[n] = best
        s.ipd[fn.name] = ip
        return ip

    def merge(s, base_len, states, frames_envs):
        """merge list of (state, env) that share pc prefix of length base_len"""
        if len(states) == 1:
            return states[0]
        guards = []
        for st, env in states:
            g = st.pc[base_len:]
            guards.append(z3.And(*g) if len(g) != 1 else g[0])
        st0, env0 = states[0]
        out = st0
        # pc
        newpc = st0.pc[:base_len]
        if not getattr(s, '_exhaustive', False):
            newpc.append(z3.Or(*guards))
        out.pc = newpc
        # env
        keys = set(env0)
        for st, env in states[1:]:
            keys &= set(env)
        menv = {}
        for k in keys:
            vs = [env[k] for _, env in states]
            menv[k] = s.ite_merge(guards, vs, s.vbits(frames_envs, k))
        # memory
        rids = set()
        m0 = states[0][0].mem
        for st, _ in states[1:]:
            mm = st.mem
            if len(mm) != len(m0):
                rids |= set(mm) ^ set(m0)
            for r_, reg_ in mm.items():
                if m0.get(r_) is not reg_:
                    rids.add(r_)
        for r in rids:
            regs = [st.mem.get(r) for st, _ in states]
            if any(x is None for x in regs):
                # region created in only some branches (alloca): keep where exists
                ex = [x for x in regs if x is not None][0]
                out.mem[r] = ex
                continue
            if all(x is regs[0] for x in regs):
                continue
            offs = set()
            for x in regs:
                offs |= set(x.cells)
            nreg = Region(regs[0].size, regs[0].name)
            if regs[0].arr is not None:
                nreg.arr = s.ite_merge(guards, [x.arr for x in regs])
            for o in offs:
                cs = [x.cells.get(o) for x in regs]
                if all(c is not None and c[0] == cs[0][0] for c in cs):
                    nreg.cells[o] = (cs[0][0], s.ite_merge(guards, [c[1] for c in cs], 8 * cs[0][0]))
                elif any(c is not None and isinstance(c[1], Ptr) for c in cs):
                    # a pointer-valued slot (typically a dead stack temporary) written on some branches only: keep the
                    # pointer alternatives under their guards; the other branches hold indeterminate bytes there
                    alts = []
                    for g_, c in zip(guards, cs):
                        if c is not None and isinstance(c[1], Ptr):
                            for g2, q2 in c[1].alts():
                                alts.append((g_ if g2 is None else z3.And(g_, g2), q2))
                    nreg.cells[o] = (8, alts[0][1] if len(alts) == 1 and len([1 for c in cs if c is not None and isinstance(c[1], Ptr)]) == len(cs) else Ptr(None, None, alts))
                    for i in range(1, 8):
                        nreg.cells.pop(o + i, None)
                else:
                    # width mismatch: fall back to byte merge
                    n = max(c[0] for c in cs if c is not None)
                    for i in range(n):
                        bs = []
                        for (stx, _), x in zip(states, regs):
                            bs.append(s.load_byte(stx, x, r, o + i))
                        nreg.cells[o + i] = (1, s.ite_merge(guards, bs, 8))
            out.mem[r] = nreg
            out.owned.add(r)
        # logs: common prefix + rest
        logs = [st.log for st, _ in states]
        out.log = [e for lg in logs for e in lg] if False else s.merge_logs(logs)
        return out, menv

    def vbits(s, fn, k):
        if fn is None:
            return None
        if k == '$ret':
            t = fn.rett
        else:
            vt = getattr(fn, 'vtypes', None)
            if vt is None:
                vt = {}
                for (t, pn) in fn.params:
                    vt[pn] = t
                for ins in fn.blocks.values():
                    for x in ins:
                        d = x[1]
                        if not d:
                            continue
                        k0 = x[0]
                        if k0 in ('add', 'sub', 'mul', 'and', 'or', 'xor', 'shl', 'lshr', 'ashr', 'udiv', 'sdiv', 'urem', 'srem', 'load', 'select', 'phi', 'freeze'):
                            vt[d] = x[2]
                        elif k0 == 'icmp':
                            vt[d] = IntT(1)
                        elif k0 == 'cast':
                            vt[d] = x[5]
                        elif k0 in ('call', 'invoke'):
                            vt[d] = x[2]
                        elif k0 == 'atomicrmw':
                            vt[d] = x[3]
                fn.vtypes = vt
            t = vt.get(k)
        if t is not None and t.k == 'int':
            return t.bits
        return None

    def merge_logs(s, logs):
        """ordered union by identity: an entry shared by several branches (appended before they forked) appears once;
        entries of different branches are mutually exclusive through their guards, so their relative order is immaterial"""
        seen = set()
        out = []
        for l in logs:
            for e in l:
                if id(e) not in seen:
                    seen.add(id(e))
                    out.append(e)
        return out

    def ite_merge(s, guards, vs, bits=None):
        v0 = vs[0]
        same = True
        for v in vs[1:]:
            if v is v0:
                continue
            if is_c(v) and is_c(v0) and v == v0:
                continue
            if isinstance(v, Ptr) and isinstance(v0, Ptr) and not v.sym and not v0.sym and v.r == v0.r and v.o == v0.o:
                continue
            if z3.is_expr(v) and z3.is_expr(v0) and v.eq(v0):
                continue
            same = False
            break
        if same:
            return v0
        if any(isinstance(v, (Ptr, list, Undef)) for v in vs):
            if all(isinstance(v, Ptr) for v in vs):
                alts = []
                for g, v in zip(guards, vs):
                    for g2, q2 in v.alts():
                        alts.append((g if g2 is None else z3.And(g, g2), q2))
                return Ptr(None, None, alts)
            raise Abort('merge of non-scalar %r' % (vs,))
        # determine sort
        exs = [v for v in vs if z3.is_expr(v)]
        if not exs:
            if bits is None:
                raise Abort('ite_merge of ints with unknown width')
            if bits == 1:
                vv = [z3.BoolVal(bool(v)) for v in vs]
            else:
                vv = [bv(v, bits) for v in vs]
            out = vv[-1]
            for g, v in zip(reversed(guards[:-1]), reversed(vv[:-1])):
                out = z3.If(g, v, out)
            return out
        ex = exs[0]
        if z3.is_array(ex):
            vv = vs
        elif z3.is_bool(ex):
            vv = [z3.BoolVal(bool(v)) if is_c(v) else v for v in vs]
        else:
            bits = ex.size()
            vv = [bv(v, bits) for v in vs]
        out = vv[-1]
        for g, v in zip(reversed(guards[:-1]), reversed(vv[:-1])):
            out = z3.If(g, v, out)
        return out

    # ------------------------------------------------------------------ run
    def call(s, st, name, args):
        """returns (state, retval) or None if all paths died"""
        name = s.m.aliases.get(name, name)
        if name in s.intercepts:
            return s.intercepts[name](s, st, args)
        fn = s.m.funcs.get(name)
        if fn is None:
            raise Abort('external call ' + name)
        fr = Frame(fn)
        for (t, pn), a in zip(fn.params, args):
            fr.env[pn] = a
        s.run_until(fr, st, fn.order[0], None, None)
        if s.track_dead:
            s.dead.update(fr.allocas)
        if not fr.rets:
            return None
        base = min(len(x[0].pc) for x in fr.rets)
        # common prefix length of pcs
        pcs = [x[0].pc for x in fr.rets]
        k = 0
        while k < base and all(p[k] is pcs[0][k] for p in pcs):
            k += 1
        if len(fr.rets) == 1:
            return fr.rets[0]
        merged = s.merge(k, [(stx, {'$ret': rv}) for stx, rv in fr.rets], fn)
        stm, env = merged
        return stm, env['$ret']

    def call_plain(s, st, name, args):
        """call the real function even if an intercept is installed for it"""
        ic = s.intercepts.pop(name, None)
        try:
            return s.call(st, name, args)
        finally:
            if ic is not None:
                s.intercepts[name] = ic

    def enter_phis(s, fr, st, bb, prev):
        ins = fr.fn.blocks[bb]
        newv = {}
        for x in ins:
            if x[0] != 'phi':
                break
            for vv, lb in x[3]:
                if lb == prev:
                    newv[x[1]] = s.val(st, fr, x[2], vv)
                    break
        fr.env.update(newv)
        return st


# --------------------------------------------------------------------------------------------
# The above run_until grew awkward around phi handling; implement clean edge-based version below.

def run_until(s, fr, st, bb, stop, prev):
    """Execute starting at block bb having arrived from prev (phis of bb evaluated here w.r.t. prev),
    until an edge into `stop` is about to be taken: then evaluate stop's phis for that edge and return state.
    Returns state or None (all paths ended by ret/unreachable/dead)."""
    fn = fr.fn
    ipd = s.ipdoms(fn)
    first = True
    while True:
        if not first and bb == stop:
            s.enter_phis(fr, st, bb, prev)
            return st
        if first and bb == stop:
            s.enter_phis(fr, st, bb, prev)
            return st
        first = False
        v = fr.visits.get(bb, 0) + 1
        fr.visits[bb] = v
        if v > s.unwind:
            raise UnwindBound(fn.name + ' ' + bb)
        ins = fn.blocks[bb]
        if prev != '$merged':
            s.enter_phis(fr, st, bb, prev)
        i = 0
        while ins[i][0] == 'phi':
            i += 1
        dead = False
        for x in ins[i:-1]:
            if s.step(fr, st, x) == 'dead':
                dead = True
                break
        if dead:
            return None
        term = ins[-1]
        k = term[0]
        s.ninstr += 1
        if k == 'br':
            prev, bb = bb, term[2]
            continue
        if k == 'ret':
            rv = s.val(st, fr, term[2], term[3]) if term[3] is not None else None
            fr.rets.append((st, rv))
            return None
        if k in ('unreachable', 'resume'):
            return None
        if k == 'invoke':
            if s.do_call(fr, st, term) == 'dead':
                return None
            prev, bb = bb, term[5]
            continue
        if k == 'condbr':
            c = s.decide(st, s.val(st, fr, IntT(1), term[2]))
            if c is True:
                prev, bb = bb, term[3]
                continue
            if c is False:
                prev, bb = bb, term[4]
                continue
            succs = [(c, term[3]), (z3.Not(c), term[4])]
        elif k == 'switch':
            t = term[2]
            v = s.val(st, fr, t, term[3])
            if is_c(v):
                tgt = term[4]
                for cv, lb in term[5]:
                    if cv & mask(t.bits) == v:
                        tgt = lb
                        break
                prev, bb = bb, tgt
                continue
            bytgt = {}
            allc = []
            for cv, lb in term[5]:
                e = (v == (cv & mask(t.bits)))
                bytgt.setdefault(lb, []).append(e)
                allc.append(e)
            succs = [((z3.Or(*cs) if len(cs) > 1 else cs[0]), lb) for lb, cs in bytgt.items()]
            succs.append((z3.Not(z3.Or(*allc)) if len(allc) > 1 else z3.Not(allc[0]), term[4]))
        else:
            raise Abort('terminator ' + k)
        if s.lazy and fr.visits.get(bb, 0) <= 1:
            feas = succs
        else:
            feas = [(c, lb) for c, lb in succs if s.feasible(st, c)]
        if not feas:
            return None
        if len(feas) == 1:
            st.pc.append(feas[0][0])
            prev, bb = bb, feas[0][1]
            continue
        J = ipd[bb]
        if J == '$exit':
            J = None
        base_len = len(st.pc)
        results = []
        env0 = fr.env
        for n, (c, lb) in enumerate(feas):
            st2 = st.fork() if n < len(feas) - 1 else st
            st2.pc.append(c)
            fr.env = dict(env0)
            r = run_until(s, fr, st2, lb, J, bb)
            if r is not None:
                results.append((r, fr.env))
        fr.env = env0
        if J is None or not results:
            return None
        if len(results) == 1:
            st, fr.env = results[0]
        else:
            s._exhaustive = (len(results) == len(feas))
            st, fr.env = s.merge(base_len, results, fn)
            s._exhaustive = False
        if J == stop:
            # phis of stop were already evaluated on the inner edges into J
            return st
        prev, bb = '$merged', J


Exec.run_until = lambda s, fr, st, bb, stop, prev: run_until(s, fr, st, bb, stop, prev)


def step(s, fr, st, x):
    s.ninstr += 1
    k = x[0]
    env = fr.env
    if k in ('add', 'sub', 'mul', 'and', 'or', 'xor', 'shl', 'lshr', 'ashr', 'udiv', 'sdiv', 'urem', 'srem'):
        _, d, t, a, b = x
        A, B = s.val(st, fr, t, a), s.val(st, fr, t, b)
        if isinstance(A, Ptr) or isinstance(B, Ptr):
            raise Abort('arith on pointer')
        if k in ('udiv', 'urem', 'sdiv', 'srem'):
            if is_c(B) and B == 0:
                s.exits.append((list(st.pc), 'ub', 'division by zero in ' + fr.fn.name))
                return 'dead'
            if not is_c(B) and s.div_zero_check:
                s.oblig.append((list(st.pc), bv(B, t.bits) != 0, 'divisor != 0 in ' + fr.fn.name))
            if s.div_oracle is not None and not (is_c(A) and is_c(B)):
                r = s.div_oracle(s, st, k, t.bits, A, B)
                if r is not None:
                    env[d] = r
                    return
        env[d] = s.binop(k, t, A, B)
    elif k == 'icmp':
        _, d, pred, t, a, b = x
        env[d] = s.icmp(pred, t, s.val(st, fr, t, a), s.val(st, fr, t, b))
    elif k == 'cast':
        _, d, op, ft, v, tt = x
        env[d] = s.cast(op, ft, s.val(st, fr, ft, v), tt)
    elif k == 'gep':
        _, d, bt, base, idx = x
        env[d] = s.gep(st, bt, s.val(st, fr, None, base), [(it, s.val(st, fr, it, iv)) for it, iv in idx])
    elif k == 'load':
        _, d, t, a, atomic = x
        s.cur_atomic = bool(atomic)
        p = s.val(st, fr, None, a)
        if t.k == 'fp':
            env[d] = s.load(st, p, t.bits // 8, fr.fn.name)
        elif t.k in ('int', 'ptr'):
            n = (t.bits + 7) // 8 if t.k == 'int' else 8
            v = s.load(st, p, n, fr.fn.name)
            if t.k == 'int':
                if isinstance(v, Ptr):
                    v = s.cast('ptrtoint', None, v, t)
                if t.bits == 1 or (t.bits % 8):
                    if is_c(v):
                        v &= mask(t.bits)
                    else:
                        v = (z3.Extract(0, 0, v) == 1) if t.bits == 1 else z3.Extract(t.bits - 1, 0, v)
            else:
                if not isinstance(v, Ptr):
                    v = s.cast('inttoptr', None, v, t)
                    if not isinstance(v, Ptr):
                        raise Abort('non-pointer loaded as pointer')
            env[d] = v
        else:
            raise Abort('load of aggregate ' + repr(t))
    elif k == 'store':
        _, _, t, v, a, atomic = x
        s.cur_atomic = bool(atomic)
        p = s.val(st, fr, None, a)
        V = s.val(st, fr, t, v)
        if t.k == 'int':
            n = (t.bits + 7) // 8
            if t.bits == 1:
                V = V if is_c(V) else z3.If(V, z3.BitVecVal(1, 8), z3.BitVecVal(0, 8))
            elif t.bits % 8 and not is_c(V):
                V = z3.ZeroExt(8 * n - t.bits, V)
            s.store(st, p, n, V)
        elif t.k == 'ptr':
            s.store(st, p, 8, V)
        elif t.k == 'fp':
            s.store(st, p, t.bits // 8, V)
        else:
            raise Abort('store of aggregate')
    elif k == 'alloca':
        _, d, t, cnt = x
        c = s.val(st, fr, IntT(64), cnt)
        r = s.new_region(st, s.m.size(t) * c, 'alloca:%s:%s' % (fr.fn.name[-20:], d))
        fr.allocas.append(r)
        env[d] = Ptr(r, 0)
    elif k == 'select':
        _, d, t, c, a, b = x
        C = s.decide(st, s.val(st, fr, IntT(1), c))
        A, B = s.val(st, fr, t, a), s.val(st, fr, t, b)
        if C is True:
            env[d] = A
        elif C is False:
            env[d] = B
        else:
            env[d] = s.ite_merge([C, z3.Not(C)], [A, B], t.bits if t.k == 'int' else None)
    elif k == 'call':
        return s.do_call(fr, st, x)
    elif k == 'extractvalue':
        _, d, t, v, idx = x
        V = s.val(st, fr, t, v)
        for i in idx:
            V = V[i]
        env[d] = V
    elif k == 'insertvalue':
        _, d, t, v, et, e, idx = x
        V = s.val(st, fr, t, v)
        if isinstance(V, Undef):
            V = [Undef()] * (len(t.elems) if t.k == 'struct' else t.n)
        V = list(V)
        assert len(idx) == 1
        V[idx[0]] = s.val(st, fr, et, e)
        env[d] = V
    elif k == 'atomicrmw':
        _, d, rop, t, a, v = x
        s.cur_atomic = True
        p = s.val(st, fr, None, a)
        n = s.m.size(t)
        old = s.load(st, p, n)
        V = s.val(st, fr, t, v)
        if rop == 'xchg':
            new = V
        elif rop == 'add':
            new = s.binop('add', t, old, V)
        elif rop == 'sub':
            new = s.binop('sub', t, old, V)
        else:
            raise Abort('atomicrmw ' + rop)
        s.store(st, p, n, new)
        env[d] = old
    elif k == 'landingpad':
        env[x[1]] = Undef()
    elif k == 'fence':
        pass
    elif k == 'freeze':
        env[x[1]] = s.val(st, fr, x[2], x[3])
    elif k == 'phi':
        pass
    else:
        raise Abort('instr ' + k)


def do_call(s, fr, st, x):
    _, d, rett, callee, args = x[:5]
    if callee[0] == 'g':
        name = callee[1]
    else:
        fp = s.val(st, fr, None, callee)
        if not (isinstance(fp, Ptr) and fp.r == 'F'):
            raise Abort('indirect call via %r' % (fp,))
        name = s.fbyid[fp.o]
    A = [s.val(st, fr, t, a) for t, a in args]
    if name.startswith('@llvm.'):
        r = s.intrinsic(st, name, A, args)
        if r is DEAD:
            return 'dead'
        if d:
            fr.env[d] = r
        return
    r = s.call(st, name, A)
    if r is None or r is DEAD:
        return 'dead'
    st2, rv = r
    if st2 is not st:
        # merged state object replaced: copy into st (callers hold reference to st)
        st.pc, st.mem, st.owned, st.log = st2.pc, st2.mem, st2.owned, st2.log
    if d:
        fr.env[d] = rv


def intrinsic(s, st, name, A, args):
    if name.startswith(('@llvm.lifetime', '@llvm.dbg', '@llvm.assume', '@llvm.experimental.noalias')):
        return None
    if name.startswith('@llvm.memcpy') or name.startswith('@llvm.memmove'):
        dst, src, n = A[0], A[1], A[2]
        if dst.sym or src.sym or not is_c(n):
            # symbolic pointers and/or length: bound the length with the solver, then copy byte-wise under guards
            if is_c(n):
                nb, maxl = None, n
            else:
                nb = bv(n, 64)
                maxl = None
                for B in (16, 64, 256, 1024, 4096):
                    if not s.feasible(st, z3.UGT(nb, B)):
                        maxl = B
                        break
                if maxl is None:
                    raise Abort('symbolic memcpy length (unbounded)')
            for gd, dq in dst.alts():
                for gs, sq in src.alts():
                    gl = [g for g in (gd, gs) if g is not None]
                    g = None if not gl else (z3.And(*gl) if len(gl) > 1 else gl[0])
                    if g is not None and not s.feasible(st, g):
                        continue
                    sreg, dreg = st.mem[sq.r], st.mem[dq.r]
                    lim = maxl
                    if sreg.size is not None:
                        lim = min(lim, sreg.size - sq.o)
                    if dreg.size is not None:
                        lim = min(lim, dreg.size - dq.o)
                    lim = max(lim, 0)
                    if lim < maxl:
                        c = z3.ULE(nb, lim) if nb is not None else z3.BoolVal(False)
                        s.oblig.append((list(st.pc) + ([g] if g is not None else []), c, 'memcpy stays inside %s/%s' % (sreg.name, dreg.name)))
                    srcb = [s.load_byte(st, st.mem[sq.r], sq.r, sq.o + o) for o in range(lim)]
                    for o in range(lim):
                        old = s.load_byte(st, st.mem[dq.r], dq.r, dq.o + o)
                        if isinstance(old, Ptr) or isinstance(srcb[o], Ptr):
                            raise Abort('guarded memcpy over pointer bytes')
                        cs = ([g] if g is not None else []) + ([z3.UGT(nb, o)] if nb is not None else [])
                        c = z3.And(*cs) if len(cs) > 1 else cs[0]
                        s.store(st, Ptr(dq.r, dq.o + o), 1, z3.If(c, bv(srcb[o], 8), bv(old, 8)))
            return None
        if n == 0:
            return None
        sreg = st.mem[src.r]
        # copy cell-wise when aligned with cells, else bytes
        tmp = []
        o = 0
        while o < n:
            c = sreg.cells.get(src.o + o)
            if c is not None and o + c[0] <= n:
                tmp.append((o, c[0], c[1]))
                o += c[0]
            else:
                tmp.append((o, 1, s.load_byte(st, sreg, src.r, src.o + o)))
                o += 1
        for o, w, v in tmp:
            s.store(st, Ptr(dst.r, dst.o + o), w, v)
        return None
    if name.startswith('@llvm.memset'):
        dst, b, n = A[0], A[1], A[2]
        if not is_c(n):
            raise Abort('symbolic memset length')
        if not dst.sym and dst.r in st.mem and st.mem[dst.r].arr is not None:
            reg = st.wregion(dst.r)
            if is_c(dst.o) and dst.o == 0 and n == reg.size and is_c(b):
                reg.arr = z3.K(z3.BitVecSort(64), z3.BitVecVal(b, 8))      # whole-array fill
                return None
            if n > 64:
                raise Abort('partial memset of an array-backed region')
        s.fill(st, dst, n, b)
        return None
    if name.startswith('@llvm.ctlz'):
        bits = args[0][0].bits
        v = A[0]
        if is_c(v):
            return bits - v.bit_length()
        out = z3.BitVecVal(bits, bits)
        for i in range(bits):
            out = z3.If(z3.Extract(i, i, v) == 1, z3.BitVecVal(bits - 1 - i, bits), out)
        return out
    if name.startswith('@llvm.umax') or name.startswith('@llvm.umin'):
        bits = args[0][0].bits
        a, b = A[0], A[1]
        if is_c(a) and is_c(b):
            return max(a, b) if 'umax' in name else min(a, b)
        a, b = bv(a, bits), bv(b, bits)
        return z3.If(z3.UGT(a, b), a, b) if 'umax' in name else z3.If(z3.ULT(a, b), a, b)
    if name.startswith('@llvm.fshl'):
        bits = args[0][0].bits
        a, b, c = [bv(v, bits) for v in A]
        cc = z3.URem(c, bits)
        return z3.Extract(2 * bits - 1, bits, z3.Concat(a, b) << z3.ZeroExt(bits, cc))
    if name.startswith('@llvm.bitreverse'):
        bits = args[0][0].bits
        v = A[0]
        if is_c(v):
            return int(format(v, '0%db' % bits)[::-1], 2)
        return z3.Concat(*[z3.Extract(i, i, v) for i in range(bits)])
    if '.with.overflow.' in name:
        import re as _re
        m = _re.match(r'@llvm\.([su])(add|sub|mul)\.with\.overflow\.i(\d+)', name)
        if m:
            sg, op, bits = m.group(1) == 's', m.group(2), int(m.group(3))
            a, b = A[0], A[1]
            if is_c(a) and is_c(b):
                if sg:
                    a = a - (1 << bits) if a >> (bits - 1) else a
                    b = b - (1 << bits) if b >> (bits - 1) else b
                r = a + b if op == 'add' else (a - b if op == 'sub' else a * b)
                lo, hi = (-(1 << (bits - 1)), (1 << (bits - 1)) - 1) if sg else (0, (1 << bits) - 1)
                return [r & mask(bits), 0 if lo <= r <= hi else 1]
            a, b = bv(a, bits), bv(b, bits)
            extra = bits if op == 'mul' else 1
            ext = z3.SignExt if sg else z3.ZeroExt
            wa, wb = ext(extra, a), ext(extra, b)
            wr = wa + wb if op == 'add' else (wa - wb if op == 'sub' else wa * wb)
            res = z3.Extract(bits - 1, 0, wr)
            return [res, wr != ext(extra, res)]
    if name.startswith('@llvm.trap') or name.startswith('@llvm.ubsantrap'):
        s.exits.append((list(st.pc), 'trap', name))
        return DEAD
    raise Abort('intrinsic ' + name)


Exec.step = step
Exec.do_call = do_call
Exec.intrinsic = intrinsic
