#!/usr/bin/env python3
"""Prototype parser for the subset of LLVM-14 textual IR emitted by clang++-14 -O1 -fno-inline."""
import re, sys, pickle, os

TOK = re.compile(r'''
   (?P<ws>\s+)
 | (?P<str>c"(?:[^"\\]|\\.)*")
 | (?P<qstr>"(?:[^"\\]|\\.)*")
 | (?P<lid>%(?:"(?:[^"\\]|\\.)*"|[-a-zA-Z$._0-9]+))
 | (?P<gid>@(?:"(?:[^"\\]|\\.)*"|[-a-zA-Z$._0-9]+))
 | (?P<meta>![-a-zA-Z$._0-9]*|!\{[^}]*\}|!"[^"]*")
 | (?P<attr>\#\d+)
 | (?P<flt>-?\d+\.\d+(?:e[+-]?\d+)?|0x[KLMHR]?[0-9A-Fa-f]+)
 | (?P<int>-?\d+)
 | (?P<word>[a-zA-Z_][-a-zA-Z_0-9.]*)
 | (?P<dots>\.\.\.)
 | (?P<p>[()\[\]{}<>,=*])
''', re.X)


def tokenize(s):
    out = []
    pos = 0
    n = len(s)
    while pos < n:
        m = TOK.match(s, pos)
        if not m:
            raise SyntaxError("tok @%d: %r" % (pos, s[pos:pos + 40]))
        pos = m.end()
        k = m.lastgroup
        if k == 'ws':
            continue
        out.append((k, m.group()))
    return out


class T:
    __slots__ = ('k', 'bits', 'n', 'elem', 'elems', 'packed', 'name', '_size', '_align', '_offs')

    def __init__(s, k, **kw):
        s.k = k
        s.bits = kw.get('bits')
        s.n = kw.get('n')
        s.elem = kw.get('elem')
        s.elems = kw.get('elems')
        s.packed = kw.get('packed', False)
        s.name = kw.get('name')
        s._size = s._align = s._offs = None

    def __repr__(s):
        if s.k == 'int':
            return 'i%d' % s.bits
        if s.k == 'ptr':
            return '%r*' % (s.elem,)
        if s.k == 'array':
            return '[%d x %r]' % (s.n, s.elem)
        if s.k == 'struct':
            return s.name or '{%s}' % ','.join(map(repr, s.elems or []))
        return s.k


VOID = T('void')
_ints = {}


def IntT(b):
    if b not in _ints:
        _ints[b] = T('int', bits=b)
    return _ints[b]


class Module:
    def __init__(s):
        s.types = {}     # name -> T(struct)
        s.globals = {}   # name -> (type, init or None, is_const)
        s.funcs = {}     # name -> Func
        s.decls = {}
        s.aliases = {}

    # ---- layout
    def size(s, t):
        if t._size is None:
            s._layout(t)
        return t._size

    def align(s, t):
        if t._align is None:
            s._layout(t)
        return t._align

    def offsets(s, t):
        if t._offs is None:
            s._layout(t)
        return t._offs

    def _layout(s, t):
        if t.k == 'int':
            b = (t.bits + 7) // 8
            p = 1
            while p < b:
                p *= 2
            t._size = p
            t._align = min(p, 16) if p > 8 else p
        elif t.k in ('ptr', 'func'):
            t._size = t._align = 8
        elif t.k == 'fp':
            t._size = t._align = {32: 4, 64: 8, 80: 16}[t.bits]
        elif t.k == 'array':
            t._size = s.size(t.elem) * t.n
            t._align = s.align(t.elem)
        elif t.k == 'struct':
            if t.elems is None:
                raise ValueError('opaque ' + str(t.name))
            off = 0
            al = 1
            offs = []
            for e in t.elems:
                a = 1 if t.packed else s.align(e)
                al = max(al, a)
                off = (off + a - 1) // a * a
                offs.append(off)
                off += s.size(e)
            off = (off + al - 1) // al * al
            t._size, t._align, t._offs = off, al, offs
        else:
            raise ValueError('layout of ' + t.k)


class Func:
    def __init__(s, name, rett, params):
        s.name = name
        s.rett = rett
        s.params = params   # [(type, name)]
        s.blocks = {}       # label -> [instr]
        s.order = []
        s.ipdom = None


class P:
    """token-stream parser"""

    def __init__(s, mod, toks):
        s.m = mod
        s.t = toks
        s.i = 0

    def peek(s, o=0):
        return s.t[s.i + o] if s.i + o < len(s.t) else ('eof', '')

    def next(s):
        x = s.peek()
        s.i += 1
        return x

    def accept(s, v):
        if s.peek()[1] == v:
            s.i += 1
            return True
        return False

    def expect(s, v):
        x = s.next()
        if x[1] != v:
            raise SyntaxError('expected %r got %r near %r' % (v, x, s.t[max(0, s.i - 6):s.i + 4]))

    ATTRW = {'noundef', 'nonnull', 'zeroext', 'signext', 'nocapture', 'readonly', 'writeonly', 'noalias',
             'immarg', 'returned', 'inreg', 'nest', 'readnone', 'nofree', 'swiftself', 'noreturn', 'nounwind',
             'inbounds', 'tail', 'notail', 'musttail', 'fastcc', 'ccc', 'coldcc', 'volatile', 'nsw', 'nuw', 'exact',
             'dso_local', 'local_unnamed_addr', 'unnamed_addr', 'nobuiltin', 'builtin', 'allocsize', 'inrange', 'comdat'}

    def skip_attrs(s):
        while True:
            k, v = s.peek()
            if k == 'word' and v in s.ATTRW:
                s.i += 1
            elif k == 'word' and v in ('align',):
                s.i += 1
                if s.peek()[0] == 'int':
                    s.i += 1
                elif s.accept('('):
                    s.next(); s.expect(')')
            elif k == 'word' and v in ('dereferenceable', 'dereferenceable_or_null'):
                s.i += 1
                s.expect('(')
                s.next()
                s.expect(')')
            elif k == 'word' and v in ('sret', 'byval', 'byref', 'preallocated', 'inalloca', 'elementtype'):
                s.i += 1
                s.expect('(')
                s.type()
                s.expect(')')
            elif k == 'attr':
                s.i += 1
            else:
                return

    def type(s):
        k, v = s.next()
        if k == 'word' and re.fullmatch(r'i\d+', v):
            t = IntT(int(v[1:]))
        elif v == 'void':
            t = VOID
        elif v in ('label', 'metadata', 'token'):
            t = T(v)
        elif v in ('float', 'double', 'x86_fp80'):
            t = T('fp', bits={'float': 32, 'double': 64, 'x86_fp80': 80}[v])
        elif k == 'lid':
            n = v
            if n not in s.m.types:
                s.m.types[n] = T('struct', name=n)
            t = s.m.types[n]
        elif v == '[':
            n = int(s.next()[1])
            s.expect('x')
            e = s.type()
            s.expect(']')
            t = T('array', n=n, elem=e)
        elif v == '{':
            t = T('struct', elems=s.typelist('}'))
        elif v == '<':
            if s.accept('{'):
                el = s.typelist('}')
                s.expect('>')
                t = T('struct', elems=el, packed=True)
            else:
                n = int(s.next()[1])
                s.expect('x')
                e = s.type()
                s.expect('>')
                t = T('vector', n=n, elem=e)
        elif v == 'ptr':
            t = T('ptr', elem=IntT(8))
        elif v == 'opaque':
            t = T('struct', elems=None)
        else:
            raise SyntaxError('type? %r %r' % (k, v))
        while True:
            if s.accept('*'):
                t = T('ptr', elem=t)
            elif s.peek()[1] == '(' and t.k != 'label':
                # function type
                s.i += 1
                ps = []
                va = False
                while not s.accept(')'):
                    if s.peek()[0] == 'dots':
                        s.i += 1
                        va = True
                    else:
                        ps.append(s.type())
                        s.skip_attrs()
                    s.accept(',')
                t = T('func', elem=t, elems=ps)
            else:
                return t

    def typelist(s, end):
        el = []
        while not s.accept(end):
            el.append(s.type())
            s.accept(',')
        return el

    # ---- values: returns operand tuple
    CASTS = ('bitcast', 'ptrtoint', 'inttoptr', 'trunc', 'zext', 'sext', 'addrspacecast')
    BINOPS = ('add', 'sub', 'mul', 'and', 'or', 'xor', 'shl', 'lshr', 'ashr', 'udiv', 'sdiv', 'urem', 'srem')

    def value(s, ty):
        k, v = s.next()
        if k == 'int':
            return ('c', int(v) & ((1 << ty.bits) - 1) if ty.k == 'int' else int(v))
        if k == 'flt':
            return ('flt', v)
        if k == 'lid':
            return ('v', v)
        if k == 'gid':
            return ('g', v)
        if v in ('true', 'false'):
            return ('c', 1 if v == 'true' else 0)
        if v == 'null':
            return ('null',)
        if v in ('undef', 'poison'):
            return ('undef', ty)
        if v == 'zeroinitializer':
            return ('zero', ty)
        if k == 'str':
            return ('str', cstr(v))
        if v == 'getelementptr':
            s.skip_attrs()
            s.expect('(')
            bt = s.type()
            s.expect(',')
            pt = s.type()
            base = s.value(pt)
            idx = []
            while s.accept(','):
                s.skip_attrs()
                it = s.type()
                idx.append((it, s.value(it)))
            s.expect(')')
            return ('cgep', bt, base, idx)
        if v in s.CASTS:
            s.expect('(')
            ft = s.type()
            x = s.value(ft)
            s.expect('to')
            tt = s.type()
            s.expect(')')
            return ('ccast', v, ft, x, tt)
        if v in s.BINOPS or v == 'icmp' or v == 'select':
            raise SyntaxError('const binop unsupported: ' + v)
        if v == '{' or v == '[' or v == '<':
            if v == '<' and s.accept('{'):
                end = '}'
                packed = True
            else:
                end = {'{': '}', '[': ']', '<': '>'}[v]
                packed = False
            el = []
            while not s.accept(end):
                et = s.type()
                el.append((et, s.value(et)))
                s.accept(',')
            if packed:
                s.expect('>')
            return ('agg', el)
        raise SyntaxError('value? %r %r' % (k, v))

    def tvalue(s):
        t = s.type()
        s.skip_attrs()
        return t, s.value(t)


def cstr(v):
    body = v[2:-1]
    out = bytearray()
    i = 0
    while i < len(body):
        if body[i] == '\\':
            out.append(int(body[i + 1:i + 3], 16))
            i += 3
        else:
            out.append(ord(body[i]))
            i += 1
    return bytes(out)


def strip_meta(line):
    # drop trailing ", !tbaa !5" style metadata and comments
    if ';' in line:
        # careful with strings; IR comments only at end or full-line
        q = line.find(';')
        if '"' not in line[:q] or line[:q].count('"') % 2 == 0:
            line = line[:q]
    line = re.sub(r',\s*![-a-zA-Z_.0-9]+\s+![0-9]+', '', line)
    line = re.sub(r',\s*![-a-zA-Z_.0-9]+\s+!\{[^}]*\}', '', line)
    return line.rstrip()


def parse_module(path):
    m = Module()
    lines = open(path).read().split('\n')
    i = 0
    n = len(lines)
    while i < n:
        ln = lines[i]
        i += 1
        if not ln or ln[0] in ';!' or ln.startswith(('source_filename', 'target ', 'attributes ', '$')):
            continue
        if ln.startswith('%') and ' = type ' in ln:
            toks = tokenize(ln)
            p = P(m, toks)
            name = p.next()[1]
            p.expect('=')
            p.expect('type')
            t = p.type()
            if name in m.types:
                tt = m.types[name]
                tt.elems, tt.packed = t.elems, t.packed
            else:
                t.name = name
                m.types[name] = t
            continue
        if ln.startswith('@'):
            parse_global(m, strip_meta(ln))
            continue
        if ln.startswith('declare'):
            mm = re.search(r'(@(?:"(?:[^"\\]|\\.)*"|[-a-zA-Z$._0-9]+))\(', ln)
            m.decls[mm.group(1)] = ln
            continue
        if ln.startswith('define'):
            body = []
            while lines[i] != '}':
                body.append(lines[i])
                i += 1
            i += 1
            parse_func(m, ln, body)
            continue
    return m


LINKW = {'private', 'internal', 'linkonce_odr', 'weak_odr', 'external', 'common', 'available_externally', 'weak',
         'linkonce', 'appending', 'dso_local', 'unnamed_addr', 'local_unnamed_addr', 'hidden', 'thread_local',
         'externally_initialized', 'dso_preemptable', 'extern_weak', 'protected', 'default'}


def parse_global(m, ln):
    toks = tokenize(ln)
    p = P(m, toks)
    name = p.next()[1]
    p.expect('=')
    while p.peek()[1] in LINKW:
        p.i += 1
        if p.peek()[1] == '(':
            while p.next()[1] != ')':
                pass
    kw = p.next()[1]
    if kw == 'alias' or kw == 'ifunc':
        p.type(); p.accept(',')
        t2 = p.type()
        tgt = p.next()[1]
        m.aliases[name] = tgt
        return
    assert kw in ('global', 'constant'), ln[:100]
    t = p.type()
    init = None
    if p.peek()[0] != 'eof' and p.peek()[1] != ',':
        init = p.value(t)
    m.globals[name] = (t, init, kw == 'constant')


def parse_func(m, header, body):
    toks = tokenize(strip_meta(header.rstrip('{ ')))
    p = P(m, toks)
    p.expect('define')
    while p.peek()[1] in LINKW or p.peek()[1] in P.ATTRW:
        p.i += 1
    p.skip_attrs()
    rett = p.type()
    name = p.next()[1]
    p.expect('(')
    params = []
    while not p.accept(')'):
        if p.peek()[0] == 'dots':
            p.i += 1
        else:
            t = p.type()
            p.skip_attrs()
            pn = p.next()[1] if p.peek()[0] == 'lid' else None
            params.append((t, pn))
        p.accept(',')
    f = Func(name, rett, params)
    m.funcs[name] = f
    # implicit numbering: unnamed params %0.., entry block label = next number
    cnt = 0
    for k, (t, pn) in enumerate(params):
        if pn is None:
            params[k] = (t, '%%%d' % cnt)
            cnt += 1
        elif re.fullmatch(r'%\d+', pn):
            cnt = int(pn[1:]) + 1
    cur = '%%%d' % cnt
    f.order.append(cur)
    f.blocks[cur] = []
    j = 0
    nb = len(body)
    while j < nb:
        ln = body[j]
        j += 1
        if not ln.strip():
            continue
        mm = re.match(r'^((?:"(?:[^"\\]|\\.)*"|[-a-zA-Z$._0-9]+)):', ln)
        if mm:
            cur = '%' + mm.group(1)
            f.order.append(cur)
            f.blocks[cur] = []
            continue
        s = strip_meta(ln)
        st = s.strip()
        if (st.startswith('switch ') or ' = landingpad ' in st or st.startswith('landingpad')) and not st.endswith(']'):
            # multi-line
            if st.startswith('switch'):
                while not body[j].strip().startswith(']'):
                    s += ' ' + strip_meta(body[j]).strip()
                    j += 1
                s += ' ]'
                j += 1
            else:
                while j < nb and re.match(r'^\s+(catch|cleanup|filter)\b', body[j]):
                    s += ' ' + strip_meta(body[j]).strip()
                    j += 1
        if st.startswith('invoke') or ' = invoke ' in st:
            s += ' ' + strip_meta(body[j]).strip()
            j += 1
        f.blocks[cur].append(parse_instr(m, s))
    return f


def parse_instr(m, s):
    toks = tokenize(s)
    p = P(m, toks)
    dest = None
    if p.peek()[0] == 'lid' and p.peek(1)[1] == '=':
        dest = p.next()[1]
        p.i += 1
    p.skip_attrs()
    op = p.next()[1]
    if op in P.BINOPS:
        p.skip_attrs()
        t = p.type()
        a = p.value(t)
        p.expect(',')
        b = p.value(t)
        return (op, dest, t, a, b)
    if op == 'icmp':
        pred = p.next()[1]
        t = p.type()
        a = p.value(t)
        p.expect(',')
        b = p.value(t)
        return ('icmp', dest, pred, t, a, b)
    if op in P.CASTS:
        ft = p.type()
        x = p.value(ft)
        p.expect('to')
        tt = p.type()
        return ('cast', dest, op, ft, x, tt)
    if op == 'alloca':
        p.skip_attrs()
        t = p.type()
        cnt = ('c', 1)
        if p.accept(','):
            if p.peek()[1] != 'align':
                ct = p.type()
                cnt = p.value(ct)
        return ('alloca', dest, t, cnt)
    if op == 'load':
        atomic = p.accept('atomic')
        p.skip_attrs()
        t = p.type()
        p.expect(',')
        pt = p.type()
        a = p.value(pt)
        return ('load', dest, t, a, atomic)
    if op == 'store':
        atomic = p.accept('atomic')
        p.skip_attrs()
        t = p.type()
        v = p.value(t)
        p.expect(',')
        pt = p.type()
        a = p.value(pt)
        return ('store', None, t, v, a, atomic)
    if op == 'getelementptr':
        p.skip_attrs()
        bt = p.type()
        p.expect(',')
        pt = p.type()
        base = p.value(pt)
        idx = []
        while p.accept(','):
            p.skip_attrs()
            it = p.type()
            idx.append((it, p.value(it)))
        return ('gep', dest, bt, base, idx)
    if op == 'select':
        ct = p.type()
        c = p.value(ct)
        p.expect(',')
        t = p.type()
        a = p.value(t)
        p.expect(',')
        t2 = p.type()
        b = p.value(t2)
        return ('select', dest, t, c, a, b)
    if op == 'phi':
        t = p.type()
        inc = []
        while p.accept('['):
            v = p.value(t)
            p.expect(',')
            lb = p.next()[1]
            p.expect(']')
            inc.append((v, lb))
            p.accept(',')
        return ('phi', dest, t, inc)
    if op in ('call', 'invoke'):
        p.skip_attrs()
        rt = p.type()
        # rt may have swallowed the function type "i32 (i8*, ...)" -> then it is func or ptr-to-func
        if rt.k == 'func':
            rett = rt.elem
        elif rt.k == 'ptr' and rt.elem.k == 'func' and p.peek()[0] in ('lid', 'gid') and False:
            rett = rt.elem.elem
        else:
            rett = rt
        k, v = p.peek()
        if k in ('lid', 'gid'):
            p.i += 1
            callee = ('v', v) if k == 'lid' else ('g', v)
        else:
            callee = p.value(T('ptr', elem=IntT(8)))
        p.expect('(')
        args = []
        while not p.accept(')'):
            at = p.type()
            p.skip_attrs()
            if at.k == 'metadata':
                p.next()
                args.append((at, ('undef', at)))
            else:
                args.append((at, p.value(at)))
            p.accept(',')
        p.skip_attrs()
        if op == 'invoke':
            p.expect('to')
            p.expect('label')
            ok = p.next()[1]
            p.expect('unwind')
            p.expect('label')
            uw = p.next()[1]
            return ('invoke', dest, rett, callee, args, ok, uw)
        return ('call', dest, rett, callee, args)
    if op == 'br':
        if p.accept('label'):
            return ('br', None, p.next()[1])
        t = p.type()
        c = p.value(t)
        p.expect(',')
        p.expect('label')
        a = p.next()[1]
        p.expect(',')
        p.expect('label')
        b = p.next()[1]
        return ('condbr', None, c, a, b)
    if op == 'switch':
        t = p.type()
        v = p.value(t)
        p.expect(',')
        p.expect('label')
        d = p.next()[1]
        p.expect('[')
        cases = []
        while not p.accept(']'):
            ct = p.type()
            cv = p.value(ct)
            p.expect(',')
            p.expect('label')
            cases.append((cv[1], p.next()[1]))
        return ('switch', None, t, v, d, cases)
    if op == 'ret':
        t = p.type()
        if t.k == 'void':
            return ('ret', None, t, None)
        return ('ret', None, t, p.value(t))
    if op == 'unreachable':
        return ('unreachable', None)
    if op == 'resume':
        return ('resume', None)
    if op == 'landingpad':
        return ('landingpad', dest, 'catch' in s)
    if op == 'extractvalue':
        t = p.type()
        v = p.value(t)
        idx = []
        while p.accept(','):
            idx.append(int(p.next()[1]))
        return ('extractvalue', dest, t, v, idx)
    if op == 'insertvalue':
        t = p.type()
        v = p.value(t)
        p.expect(',')
        et = p.type()
        e = p.value(et)
        idx = []
        while p.accept(','):
            idx.append(int(p.next()[1]))
        return ('insertvalue', dest, t, v, et, e, idx)
    if op == 'atomicrmw':
        p.skip_attrs()
        rop = p.next()[1]
        pt = p.type()
        a = p.value(pt)
        p.expect(',')
        t = p.type()
        v = p.value(t)
        return ('atomicrmw', dest, rop, t, a, v)
    if op == 'cmpxchg':
        p.skip_attrs()
        pt = p.type()
        a = p.value(pt)
        p.expect(',')
        t = p.type()
        c = p.value(t)
        p.expect(',')
        t2 = p.type()
        nv = p.value(t2)
        return ('cmpxchg', dest, t, a, c, nv)
    if op == 'fence':
        return ('fence', None)
    if op == 'freeze':
        t = p.type()
        return ('freeze', dest, t, p.value(t))
    raise SyntaxError('instr? ' + s[:120])


def load(path):
    pk = path + '.pkl'
    if os.path.exists(pk) and os.path.getmtime(pk) > os.path.getmtime(path):
        sys.setrecursionlimit(100000)
        return pickle.load(open(pk, 'rb'))
    m = parse_module(path)
    return m


if __name__ == '__main__':
    import time
    t0 = time.time()
    m = parse_module(sys.argv[1])
    print('parsed', len(m.funcs), 'funcs', len(m.globals), 'globals', len(m.types), 'types in', round(time.time() - t0, 2), 's')
