"""Build steps: harness C++ -> LLVM IR (for llsym) and -> native shared object (the "native twin").

Everything is regenerated from the tree's current sources on every run; the only cache is keyed by the sha256 of the
fully preprocessed translation unit, so any source change that reaches the harness invalidates it.
Outputs live under /verif/.build (never /tmp)."""
import hashlib, os, subprocess, sys, time, pickle

VERIF = os.path.dirname(os.path.dirname(os.path.abspath(__file__)))
REPO = os.environ.get('VERIF_REPO', '/repo')
REF = os.path.join(VERIF, 'ref')
BUILD = os.path.join(VERIF, '.build')
CLANG = 'clang++-14'

IRFLAGS = ['-std=c++17', '-O1', '-fno-inline', '-fno-vectorize', '-fno-slp-vectorize', '-fno-unroll-loops',
           '-fno-access-control', '-fno-strict-aliasing', '-S', '-emit-llvm']
UBFLAGS = ['-fsanitize=array-bounds,shift,signed-integer-overflow,integer-divide-by-zero,unreachable',
           '-fsanitize-trap=all']


def incs(tree):
    return ["-I", os.path.join(tree, "include"), "-I", os.path.join(tree, "include/teakra/impl"), "-I", os.path.join(tree, "src"), '-I', os.path.join(VERIF, 'harness')]


def gen_tv_load(tree=REPO):
    """extract the TestCase -> RegisterState loading statements of src/test_verifier/main.cpp (from `regs.Reset();` up to the
    test-space copy loop) into <build>/gen/<hash>/tv_load.inc; returns the -I flags for it"""
    src = open(os.path.join(tree, 'src', 'test_verifier', 'main.cpp')).read()
    a = src.find('regs.Reset();')
    b = src.find('for (u16 offset = 0; offset < TestSpaceSize; ++offset)', a)
    if a < 0 or b < 0:
        sys.stderr.write('BUILD FAILED: cannot locate the state loader in src/test_verifier/main.cpp\n')
        raise SystemExit(3)
    body = src[a:b]
    d = os.path.join(BUILD, 'gen', hashlib.sha256(body.encode()).hexdigest()[:16])
    os.makedirs(d, exist_ok=True)
    f = os.path.join(d, 'tv_load.inc')
    if not os.path.exists(f):
        tmp = f + '.%d.tmp' % os.getpid()
        open(tmp, 'w').write(body)
        os.replace(tmp, f)
    return ['-I', d]


def _run(cmd, **kw):
    r = subprocess.run(cmd, capture_output=True, text=True, **kw)
    if r.returncode != 0:
        sys.stderr.write('BUILD FAILED: %s\n%s\n' % (' '.join(cmd), r.stderr[-4000:]))
        raise SystemExit(3)
    return r


def _pp_hash(src, tree, defs):
    r = _run([CLANG, '-std=c++17', '-E', '-P', '-fno-access-control'] + incs(tree) + list(defs) + [src])
    return hashlib.sha256(r.stdout.encode()).hexdigest()[:20]


def compile_ir(src, tree=REPO, defs=(), ubsan=False):
    """returns (path_to_ll, content_hash). src is relative to /verif/harness."""
    src = os.path.join(VERIF, 'harness', src)
    h = _pp_hash(src, tree, defs)
    tag = os.path.basename(src).replace('.cpp', '') + ('-ub' if ubsan else '') + '-v2-' + h
    d = os.path.join(BUILD, 'ir')
    os.makedirs(d, exist_ok=True)
    out = os.path.join(d, tag + '.ll')
    if not os.path.exists(out):
        tmp = out + '.%d.tmp' % os.getpid()
        _run([CLANG] + IRFLAGS + ['-fmacro-prefix-map=%s/=' % tree] + (UBFLAGS if ubsan else []) + incs(tree) + list(defs) + [src, '-o', tmp])
        os.replace(tmp, out)
        _gc(d, os.path.basename(src).replace('.cpp', '') + ('-ub' if ubsan else '') + '-', keep=4)
    return out, h


def compile_so(src, tree=REPO, defs=()):
    """native twin: same harness compiled by g++ to a shared object; returns path."""
    src = os.path.join(VERIF, 'harness', src)
    defs = list(defs) + ['-DNATIVE_TWIN']
    h = _pp_hash(src, tree, defs)
    d = os.path.join(BUILD, 'so')
    os.makedirs(d, exist_ok=True)
    base = os.path.basename(src).replace('.cpp', '')
    out = os.path.join(d, '%s-%s.so' % (base, h))
    if not os.path.exists(out):
        tmp = out + '.%d.tmp' % os.getpid()
        _run(['g++', '-std=c++17', '-O1', '-g', '-fno-access-control', '-fno-strict-aliasing', '-shared', '-fPIC', '-pthread', '-Wl,-Bsymbolic'] + incs(tree) + defs + [src, '-o', tmp, '-ldl'])
        os.replace(tmp, out)
        _gc(d, base + '-', keep=4)
    return out


def compile_exe(src, tree=REPO, defs=(), extra=()):
    src = os.path.join(VERIF, 'harness', src)
    h = _pp_hash(src, tree, defs)
    d = os.path.join(BUILD, 'bin')
    os.makedirs(d, exist_ok=True)
    base = os.path.basename(src).replace('.cpp', '')
    out = os.path.join(d, '%s-%s' % (base, h))
    if not os.path.exists(out):
        tmp = out + '.%d.tmp' % os.getpid()
        _run(['g++', '-std=c++17', '-O1', '-fno-access-control', '-pthread'] + incs(tree) + list(defs) + [src] + list(extra) + ['-o', tmp])
        os.replace(tmp, out)
        _gc(d, base + '-', keep=4)
    return out


def _gc(d, prefix, keep):
    fs = sorted((f for f in os.listdir(d) if f.startswith(prefix) and not f.endswith('.tmp') and not f.endswith('.pkl')),
                key=lambda f: os.path.getmtime(os.path.join(d, f)))
    for f in fs[:-keep]:
        for g in (f, f + '.pkl'):
            try:
                os.remove(os.path.join(d, g))
            except OSError:
                pass


_mods = {}


def load_module(path):
    """parse an .ll file (cached in-process, and on disk as a pickle next to the .ll, keyed by the same content hash)."""
    from . import llparse
    if path in _mods:
        return _mods[path]
    pk = path + '.pkl'
    m = None
    if os.path.exists(pk):
        try:
            sys.setrecursionlimit(100000)
            with open(pk, 'rb') as f:
                m = pickle.load(f)
        except Exception:
            m = None
    if m is None:
        m = llparse.parse_module(path)
        if os.path.getsize(path) > 2_000_000:
            try:
                sys.setrecursionlimit(100000)
                tmp = pk + '.%d.tmp' % os.getpid()
                with open(tmp, 'wb') as f:
                    pickle.dump(m, f, protocol=pickle.HIGHEST_PROTOCOL)
                os.replace(tmp, pk)
            except Exception:
                pass
    _mods[path] = m
    return m
