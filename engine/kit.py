"""Helpers shared by the checks: executor set-up with the standard intercepts, symbolic objects, event logs."""
import z3
from .llsym import Exec, Ptr, State, Region, DEAD, Abort, UnwindBound, bv, is_c, mask
from .llparse import IntT

ASSERT_FN = '@_Z6AssertPKcS0_i'


def path_cond(pc):
    pc = [c for c in pc]
    if not pc:
        return z3.BoolVal(True)
    return z3.And(*pc) if len(pc) > 1 else pc[0]


def new_exec(mod, unwind=70):
    """executor + initial state with the standard environment stubs (DESIGN 1.2 'Intercepts')"""
    ex = Exec(mod, unwind=unwind)
    st = State()
    st.mem[0] = Region(0, 'null')

    def dead(kind):
        def f(e, s, a):
            info = None
            if kind == 'assert':
                try:
                    info = (cstring(e, s, a[0]), a[2])
                except Exception:
                    info = None
            elif kind == 'throw' and len(a) > 1 and isinstance(a[1], Ptr) and a[1].r in s.mem:
                info = s.mem[a[1].r].name
            e.exits.append((list(s.pc), kind, info))
            return DEAD
        return f

    ex.intercepts[ASSERT_FN] = dead('assert')
    ex.intercepts['@abort'] = dead('abort')
    ex.intercepts['@__cxa_throw'] = dead('throw')
    ex.intercepts['@__cxa_allocate_exception'] = lambda e, s, a: (s, Ptr(e.new_region(s, a[0], 'exc'), 0))
    ex.intercepts['@__cxa_free_exception'] = lambda e, s, a: (s, None)
    ex.intercepts['@_ZN6Teakra22UnimplementedExceptionC2Ev'] = lambda e, s, a: (s, None)
    ex.intercepts['@_Znwm'] = lambda e, s, a: (s, Ptr(e.new_region(s, a[0], 'heap%d' % a[0]), 0))
    ex.intercepts['@_Znam'] = ex.intercepts['@_Znwm']
    for n in ('@_ZdlPv', '@_ZdaPv', '@_ZdlPvm'):
        ex.intercepts[n] = lambda e, s, a: (s, None)
    for n in ('@puts', '@printf', '@fprintf', '@putchar', '@fputs', '@fwrite', '@fflush'):
        ex.intercepts[n] = lambda e, s, a: (s, 0)
    ex.intercepts['@__cxa_guard_acquire'] = lambda e, s, a: (s, 1)
    ex.intercepts['@__cxa_guard_release'] = lambda e, s, a: (s, None)
    ex.intercepts['@__cxa_atexit'] = lambda e, s, a: (s, 0)
    ex.intercepts['@pthread_mutex_lock'] = lambda e, s, a: (s, 0)
    ex.intercepts['@pthread_mutex_unlock'] = lambda e, s, a: (s, 0)
    ex.intercepts['@strlen'] = lambda e, s, a: (s, len(cstring(e, s, a[0])))
    for n in list(mod.decls):
        if n.startswith('@_ZSt') and 'throw' in n:
            ex.intercepts[n] = dead('throw')
    return ex, st


def cstring(ex, st, p, maxlen=4096):
    bs = []
    for i in range(maxlen):
        ch = ex.load(st, Ptr(p.r, p.o + i), 1)
        if not is_c(ch):
            raise Abort('symbolic C string')
        if ch == 0:
            break
        bs.append(ch)
    return bytes(bs).decode('latin1')


def find_type(mod, suffix):
    """IR struct type whose name ends with suffix (e.g. 'Teakra::Timer"')"""
    c = [n for n in mod.types if n.endswith(suffix) or n.endswith(suffix + '"')]
    if len(c) != 1:
        c2 = [n for n in c if '.base' not in n]
        if len(c2) == 1:
            return mod.types[c2[0]]
        raise KeyError('type %r: %r' % (suffix, c))
    return mod.types[c[0]]


def symbolize(ex, st, p, t, prefix, out, skip_ptr=True):
    """fill the object of IR type t at p with fresh variables, one per scalar leaf; out gets (offset, nbytes, var)"""
    m = ex.m
    if t.k == 'int':
        n = m.size(t)
        v = z3.BitVec('%s_%d' % (prefix, p.o), 8 * n)
        ex.store(st, p, n, v)
        out.append((p.o, n, v))
    elif t.k == 'array':
        es = m.size(t.elem)
        for i in range(t.n):
            symbolize(ex, st, Ptr(p.r, p.o + i * es), t.elem, prefix, out)
    elif t.k == 'struct':
        for e, o in zip(t.elems, m.offsets(t)):
            symbolize(ex, st, Ptr(p.r, p.o + o), e, prefix, out)
    elif t.k == 'ptr':
        pass
    else:
        raise Exception('symbolize ' + t.k)


class Obj:
    """a hand-built object in executor memory with named scalar fields; layout = {field: [offset, elem_size, count, stride]}
    from the native layout dump (harness/layout.cpp)."""

    def __init__(s, ex, st, layout, name, prefix=None, symbolic=True, only=None, skip=()):
        s.ex, s.name, s.layout = ex, name, layout
        s.rid = ex.new_region(st, layout['_size'][0], name)
        s.ptr = Ptr(s.rid, 0)
        s.vars = {}
        prefix = prefix or name
        if symbolic:
            for f, (off, sz, cnt, stride) in layout.items():
                if f == '_size' or sz > 8 or f in skip or (only is not None and f not in only):
                    continue
                for i in range(cnt):
                    nm = f if cnt == 1 else '%s[%d]' % (f, i)
                    v = z3.BitVec('%s.%s' % (prefix, nm), 8 * sz)
                    ex.store(st, Ptr(s.rid, off + i * stride), sz, v)
                    s.vars[nm] = v

    def fields(s):
        return [f for f, (off, sz, cnt, stride) in s.layout.items() if f != '_size' and sz <= 8]

    def at(s, f, i=0):
        off, sz, cnt, stride = s.layout[f]
        return Ptr(s.rid, off + i * stride)

    def get(s, st, f, i=0):
        off, sz, cnt, stride = s.layout[f]
        v = s.ex.load(st, Ptr(s.rid, off + i * stride), sz)
        return bv(v, 8 * sz)

    def set(s, st, f, v, i=0):
        off, sz, cnt, stride = s.layout[f]
        s.ex.store(st, Ptr(s.rid, off + i * stride), sz, v)

    def snapshot(s, st, fields=None):
        out = {}
        for f in (fields if fields is not None else s.fields()):
            off, sz, cnt, stride = s.layout[f]
            for i in range(cnt):
                out[f if cnt == 1 else '%s[%d]' % (f, i)] = s.get(st, f, i)
        return out


_layout = None


def layout():
    """run the native layout dumper built against the tree's current headers"""
    global _layout
    if _layout is None:
        import json, subprocess
        from . import build
        exe = build.compile_exe('layout.cpp', defs=['-Wno-invalid-offsetof'])
        _layout = json.loads(subprocess.run([exe], capture_output=True, text=True, check=True).stdout)
    return _layout


def events(st, kind):
    """[(guard Bool, payload...)] for the log entries of that kind, in program order"""
    return [(path_cond(e[1]),) + tuple(e[2:]) for e in st.log if e[0] == kind]


def any_event(st, kind):
    ev = events(st, kind)
    if not ev:
        return z3.BoolVal(False)
    return z3.Or(*[e[0] for e in ev]) if len(ev) > 1 else ev[0][0]


def count_events(st, kind, bits=8):
    t = z3.BitVecVal(0, bits)
    for e in events(st, kind):
        t = t + z3.If(e[0], z3.BitVecVal(1, bits), z3.BitVecVal(0, bits))
    return t


def logger(kind, nargs=0):
    def f(e, s, a):
        s.log.append((kind, list(s.pc)) + tuple(a[1:1 + nargs]))
        return s, None
    return f


def exit_cond(ex, kinds=('assert', 'abort', 'throw', 'trap')):
    cs = [path_cond(p) for p, k, _ in ex.exits if k in kinds]
    if not cs:
        return z3.BoolVal(False)
    return z3.Or(*cs) if len(cs) > 1 else cs[0]


def differs(a, b):
    """a, b: dict name -> z3 term; returns (Bool 'some field differs', list of names that differ structurally)"""
    ds, names = [], []
    for k in a:
        x, y = a[k], b[k]
        if z3.is_expr(x) and z3.is_expr(y) and x.eq(y):
            continue
        if is_c(x) and is_c(y) and x == y:
            continue
        bits = x.size() if z3.is_expr(x) else y.size()
        ds.append(bv(x, bits) != bv(y, bits))
        names.append(k)
    if not ds:
        return z3.BoolVal(False), []
    return (z3.Or(*ds) if len(ds) > 1 else ds[0]), names


def set_vptr(ex, st, objptr, cls_mangled):
    """store the vtable address point of class (Itanium: _ZTV<cls> + 16) at objptr"""
    name = '@_ZTV' + cls_mangled
    if name not in ex.m.globals:
        raise KeyError('vtable ' + name)
    g = ex.global_ptr(st, name)
    ex.store(st, objptr, 8, Ptr(g.r, 16))


def obligations(ex):
    """the executor's own side conditions (array index < bound, pointer stays in its region, divisor != 0):
    Bool that all of them hold on their paths"""
    cs = [z3.Implies(path_cond(pc), c) for pc, c, _ in ex.oblig]
    if not cs:
        return z3.BoolVal(True)
    return z3.And(*cs) if len(cs) > 1 else cs[0]
