"""Check framework: obligations, solver portfolio, known findings, replay files, evidence, exit codes.
DESIGN.md sections 1.3, 1.4, 1.8."""
import json, os, subprocess, sys, time, traceback, tempfile, re, multiprocessing
import z3

VERIF = os.path.dirname(os.path.dirname(os.path.abspath(__file__)))
# VERIF_SCRATCH (seed evaluation only): replay files and the evidence file go there instead of /verif, so that several
# seeded trees (VERIF_REPO) can be evaluated side by side without touching the committed evidence.
SCRATCH = os.environ.get('VERIF_SCRATCH') or VERIF
OUT = os.path.join(SCRATCH, 'out')
KNOWN = os.path.join(VERIF, 'known_findings.json')


class Inconclusive(Exception):
    pass


# ------------------------------------------------------------------------------------------------ solving
def _consts(es):
    seen, out, todo = set(), {}, list(es)
    while todo:
        e = todo.pop()
        if e.get_id() in seen:
            continue
        seen.add(e.get_id())
        if z3.is_const(e) and e.decl().kind() == z3.Z3_OP_UNINTERPRETED:
            out[e.decl().name()] = e
        todo.extend(e.children())
    return out


def _smt2(assertions, logic=None):
    s = z3.Solver()
    s.add(*assertions)
    txt = s.to_smt2()
    return txt


def _cvc5(assertions, args, timeout_s, want_model):
    txt = _smt2(assertions)
    txt = txt.replace('(check-sat)', '')
    cs = _consts(assertions)
    names = sorted(cs)
    body = '(set-option :produce-models true)\n' + txt + '\n(check-sat)\n'
    if want_model and names:
        body += '(get-value (%s))\n' % ' '.join('|%s|' % n if not re.fullmatch(r'[A-Za-z_][A-Za-z_0-9.]*', n) else n for n in names)
    d = os.path.join(VERIF, '.build', 'smt')
    os.makedirs(d, exist_ok=True)
    fd, path = tempfile.mkstemp(suffix='.smt2', dir=d)
    with os.fdopen(fd, 'w') as f:
        f.write(body)
    try:
        r = subprocess.run(['cvc5', '--tlimit=%d' % int(timeout_s * 1000)] + args + [path], capture_output=True, text=True, timeout=timeout_s + 5)
        out = r.stdout + r.stderr
    except subprocess.TimeoutExpired:
        out = 'timeout'
    finally:
        try:
            os.remove(path)
        except OSError:
            pass
    if '(error' in out:
        first = out.strip().split('\n')[0]
        if first not in ('sat', 'unsat'):
            return 'unknown', None
        if first == 'sat':
            return 'unknown', None
    first = out.strip().split('\n')[0] if out.strip() else ''
    if first == 'unsat':
        return 'unsat', None
    if first == 'sat':
        model = {}
        for mm in re.finditer(r'\(\|?([^\s|()]+)\|?\s+(#b[01]+|#x[0-9a-fA-F]+|true|false)\)', out):
            n, v = mm.group(1), mm.group(2)
            if v in ('true', 'false'):
                model[n] = (v == 'true')
            elif v.startswith('#b'):
                model[n] = int(v[2:], 2)
            else:
                model[n] = int(v[2:], 16)
        return 'sat', model
    return 'unknown', None


def _has_div(es):
    seen, todo = set(), list(es)
    while todo:
        e = todo.pop()
        if e.get_id() in seen:
            continue
        seen.add(e.get_id())
        if z3.is_app(e) and e.decl().kind() in (z3.Z3_OP_BUDIV, z3.Z3_OP_BUREM, z3.Z3_OP_BSDIV, z3.Z3_OP_BSREM, z3.Z3_OP_BUDIV_I, z3.Z3_OP_BUREM_I):
            return True
        todo.extend(e.children())
    return False


def solve(assertions, timeout_s=30, want_model=True, portfolio=True, stats=None):
    """-> ('sat', {name: int|bool}) | ('unsat', None) | ('unknown', None); records which solver answered.
    Queries with bit-vector division go to cvc5 --solve-bv-as-int=sum first (DESIGN 1.3): only its UNSAT is taken."""
    t0 = time.time()
    if portfolio and _has_div([a for a in assertions if z3.is_expr(a)]):
        res, model = _cvc5([a for a in assertions], ['--solve-bv-as-int=sum'], min(timeout_s, 20), False)
        if res == 'unsat':
            if stats is not None:
                stats['queries'] = stats.get('queries', 0) + 1
                stats['solver_s'] = stats.get('solver_s', 0.0) + (time.time() - t0)
                stats.setdefault('by', {})
                stats['by']['cvc5-bvint:unsat'] = stats['by'].get('cvc5-bvint:unsat', 0) + 1
            return 'unsat', None
    s = z3.Solver()
    s.set('timeout', int(timeout_s * 1000))
    s.add(*assertions)
    r = s.check()
    who = 'z3'
    model = None
    if r == z3.sat:
        res = 'sat'
        m = s.model()
        model = {}
        for n, c in _consts(assertions).items():
            v = m.eval(c, model_completion=True)
            if z3.is_bool(c):
                model[n] = z3.is_true(v)
            elif z3.is_bv(c):
                model[n] = v.as_long()
            else:
                model[n] = None   # arrays: queried through eval_model below
        model['__z3model__'] = m
    elif r == z3.unsat:
        res = 'unsat'
    else:
        res = 'unknown'
        if portfolio:
            for args, nm in ((['--solve-bv-as-int=sum'], 'cvc5-bvint'), ([], 'cvc5')):
                res, model = _cvc5(assertions, args, timeout_s, want_model)
                if res != 'unknown':
                    who = nm
                    break
    if stats is not None:
        stats['queries'] = stats.get('queries', 0) + 1
        stats['solver_s'] = stats.get('solver_s', 0.0) + (time.time() - t0)
        stats.setdefault('by', {})
        stats['by'][who + ':' + res] = stats['by'].get(who + ':' + res, 0) + 1
    return res, model


def second_opinion(assertions, expect, timeout_s=60):
    """thorough tier: a different solver must agree with `expect` ('sat'/'unsat'); returns True/False/None(unknown)."""
    for args in ([], ['--solve-bv-as-int=sum']):
        res, _ = _cvc5(assertions, args, timeout_s, False)
        if res != 'unknown':
            return res == expect
    return None


def mval(model, term):
    """evaluate a z3 term (or python int) under a model returned by solve()."""
    if isinstance(term, (int, bool)):
        return term
    m = model.get('__z3model__')
    if m is not None:
        v = m.eval(term, model_completion=True)
        if z3.is_bool(term):
            return z3.is_true(v)
        return v.as_long()
    # cvc5 model: substitute constants
    subs = []
    for n, c in _consts([term]).items():
        if n in model and model[n] is not None:
            subs.append((c, z3.BoolVal(model[n]) if z3.is_bool(c) else z3.BitVecVal(model[n], c.size())))
        elif z3.is_bv(c):
            subs.append((c, z3.BitVecVal(0, c.size())))
        elif z3.is_bool(c):
            subs.append((c, z3.BoolVal(False)))
    v = z3.simplify(z3.substitute(term, *subs))
    if z3.is_bool(term):
        return z3.is_true(v)
    return v.as_long()


# ------------------------------------------------------------------------------------------------ known findings
def load_known(pid):
    if not os.path.exists(KNOWN):
        return []
    with open(KNOWN) as f:
        data = json.load(f)
    return [e for e in data.get('findings', []) if e.get('property') == pid]


# ------------------------------------------------------------------------------------------------ the check object
class Result:
    """picklable record of one obligation"""
    def __init__(s, name, status, **kw):
        s.name = name
        s.status = status   # 'unsat' (discharged), 'identical', 'violation', 'known', 'inconclusive', 'witness-ok', 'witness-fail'
        s.kw = kw

    def to_json(s):
        d = {'obligation': s.name, 'status': s.status}
        d.update({k: v for k, v in s.kw.items() if isinstance(v, (int, float, str, bool, list, dict, type(None)))})
        return d


class Check:
    def __init__(s, pid, level, tier='quick', seed=0, design_ref=''):
        s.pid, s.level, s.tier, s.seed = pid, level, tier, seed
        s.t0 = time.time()
        s.results = []
        s.funcs = set()
        s.assumptions = []
        s.stubs = []
        s.bounds = []
        s.samples = []
        s.notes = []
        s.stats = {}
        s.violations = []
        s.known_printed = []
        s.inconclusive = []
        s.engine_errors = []
        s.validated = 0
        s.ninstr = 0
        s.nstates = 0
        s.known = load_known(pid)
        s.timeout = 30 if tier == 'quick' else 120
        s.replayers = {}

    # ---- obligations decided in-process ------------------------------------------------------
    def prove(s, name, assume, goal, vars=None, replay=None, sample=None, witness=True, timeout=None, funcs=(), replay_known=True):
        """Decide: for all values, (AND assume) => goal.
        vars: {name: z3 term} made available to known-finding regions and written into replay files.
        replay: callable(inputs: {name:int}) -> (reproduced: bool, detail: dict) running the native twin."""
        timeout = timeout or s.timeout
        t0 = time.time()
        s.funcs.update(funcs)
        vars = vars or {}
        assume = [a for a in assume if not (isinstance(a, bool) and a)]
        neg = z3.Not(goal) if not isinstance(goal, bool) else z3.BoolVal(not goal)
        if witness:
            w, _ = solve(assume, timeout, want_model=False, stats=s.stats)
            if w != 'sat':
                s.results.append(Result(name, 'witness-fail' if w == 'unsat' else 'inconclusive', what='assumptions unsatisfiable' if w == 'unsat' else 'witness unknown'))
                (s.engine_errors if w == 'unsat' else s.inconclusive).append(name + ': vacuity witness ' + w)
                return False
        regions = []
        for e in s.known:
            ob = e.get('obligation', '')
            if e.get('status') != 'known' or not (ob == name or (ob.endswith('*') and name.startswith(ob[:-1]))):
                continue
            try:
                loc = dict(vars)
                loc['v'] = lambda n_, _vars=vars: _vars[n_]
                reg = eval(e['region'], {'z3': z3, 'ULT': z3.ULT, 'ULE': z3.ULE, 'UGT': z3.UGT, 'UGE': z3.UGE, 'And': z3.And, 'Or': z3.Or, 'Not': z3.Not}, loc)
            except Exception as x:
                s.engine_errors.append('known-finding region of %s does not evaluate: %r' % (e.get('id'), x))
                continue
            if isinstance(reg, bool):
                reg = z3.BoolVal(reg)
            regions.append((e, reg))
        outside = [z3.Not(r) for _, r in regions]
        res, model = solve(assume + [neg] + outside, timeout, stats=s.stats)
        rec = {}
        if s.tier == 'thorough' and res in ('sat', 'unsat'):
            so = second_opinion(assume + [neg] + outside, res, min(timeout, 30))     # a cross-check, not the deciding query: capped
            rec['second_solver'] = {True: 'agrees', False: 'DISAGREES', None: 'unknown'}[so]
            if so is False:
                s.engine_errors.append(name + ': solvers disagree')
        ok = True
        if res == 'unknown':
            s.inconclusive.append(name + ': solver timeout/unknown')
            s.results.append(Result(name, 'inconclusive', t=round(time.time() - t0, 2)))
            return False
        if res == 'sat':
            inputs = {k: mval(model, v) for k, v in vars.items()}
            if not isinstance(goal, bool) and z3.is_and(goal):
                try:
                    fc = [(i, str(c)[:200]) for i, c in enumerate(goal.children()) if not mval(model, c)]
                    inputs['__failed_conjuncts__'] = fc[:6]
                except Exception:
                    pass
            s._report(name, inputs, replay)
            ok = False
        # known regions: still reproducible?
        for e, reg in regions:
            r2, m2 = solve(assume + [neg, reg], timeout, stats=s.stats)
            if r2 == 'sat':
                inputs = {k: mval(m2, v) for k, v in vars.items()}
                conf = None
                if replay is not None and replay_known:
                    try:
                        conf, detail = replay(inputs)
                    except Exception as x:
                        conf, detail = None, {'error': repr(x)}
                    if conf:
                        s.validated += 1
                if conf is False:
                    s.engine_errors.append('%s: known finding %s has a model that does not replay natively: %r' % (name, e['id'], inputs))
                line = 'KNOWN-FINDING: property=%s %s [%s]' % (s.pid, e['text'], e['id'])
                if line not in s.known_printed:
                    s.known_printed.append(line)
                    if multiprocessing.current_process().name == 'MainProcess':
                        print(line, flush=True)
                s.results.append(Result(name + '#' + e['id'], 'known', inputs=inputs, replayed=conf))
            elif r2 == 'unknown':
                s.inconclusive.append(name + ': known region query unknown')
            elif not e.get('obligation', '').endswith('*'):
                s.notes.append('known finding %s no longer reproduces at obligation %s' % (e['id'], name))
        if res == 'unsat':
            s.results.append(Result(name, 'unsat', t=round(time.time() - t0, 2), excluded_known=[e['id'] for e, _ in regions], **rec))
        if sample is not None and len(s.samples) < 12:
            s.samples.append({'obligation': name, 'what': sample, 'verdict': res})
        return ok

    def _report(s, name, inputs, replay):
        conf, detail = None, {}
        if replay is not None:
            try:
                conf, detail = replay(inputs)
            except Exception as x:
                conf, detail = None, {'error': repr(x), 'tb': traceback.format_exc()[-800:]}
        os.makedirs(os.path.join(OUT, 'replay'), exist_ok=True)
        path = os.path.join(OUT, 'replay', '%s-%s.json' % (s.pid, re.sub(r'[^A-Za-z0-9_.-]+', '_', name)[:80]))
        with open(path, 'w') as f:
            json.dump({'property': s.pid, 'obligation': name, 'inputs': inputs, 'native_replay': {'reproduced': conf, 'detail': detail}}, f, indent=1, default=str)
        if conf is False:
            s.engine_errors.append('%s: counterexample does not reproduce natively (%r) -> engine error, see %s' % (name, detail, path))
            s.results.append(Result(name, 'inconclusive', inputs=inputs, replay=path))
            return
        if conf:
            s.validated += 1
        s.violations.append((name, path))
        s.results.append(Result(name, 'violation', inputs=inputs, replay=path, replayed=conf))
        print('VIOLATION property=%s replay=%s' % (s.pid, path), flush=True)
        print('  obligation %s fails for %s %s' % (name, json.dumps(inputs, default=str)[:600], json.dumps(detail, default=str)[:400]), flush=True)

    def witness(s, name, conds, timeout=None):
        """reachability witness: conds must be satisfiable"""
        r, _ = solve(conds, timeout or s.timeout, want_model=False, stats=s.stats)
        if r == 'sat':
            s.results.append(Result(name, 'witness-ok'))
            return True
        (s.engine_errors if r == 'unsat' else s.inconclusive).append('witness %s: %s' % (name, r))
        s.results.append(Result(name, 'witness-fail'))
        return False

    def identical(s, name, sample=None):
        s.results.append(Result(name, 'identical'))
        if sample is not None and len(s.samples) < 12:
            s.samples.append({'obligation': name, 'what': sample, 'verdict': 'structurally identical'})

    # ---- merging worker results ------------------------------------------------------------
    def absorb(s, other):
        """merge a sub-Check (picklable dict produced by export()) run in a worker process"""
        s.results.extend(other['results'])
        s.funcs.update(other['funcs'])
        for k in ('samples',):
            for x in other[k]:
                if len(s.samples) < 12:
                    s.samples.append(x)
        s.violations.extend(other['violations'])
        s.inconclusive.extend(other['inconclusive'])
        s.engine_errors.extend(other['engine_errors'])
        s.notes.extend(other['notes'])
        for l in other['known_printed']:
            if l not in s.known_printed:
                s.known_printed.append(l)
                print(l, flush=True)
        s.validated += other['validated']
        s.ninstr += other['ninstr']
        s.nstates += other['nstates']
        for k, v in other['stats'].items():
            if isinstance(v, dict):
                d = s.stats.setdefault(k, {})
                for kk, vv in v.items():
                    d[kk] = d.get(kk, 0) + vv
            else:
                s.stats[k] = s.stats.get(k, 0) + v

    def export(s):
        return {'results': s.results, 'funcs': s.funcs, 'samples': s.samples, 'violations': s.violations,
                'inconclusive': s.inconclusive, 'engine_errors': s.engine_errors, 'notes': s.notes,
                'known_printed': s.known_printed, 'validated': s.validated, 'ninstr': s.ninstr, 'nstates': s.nstates,
                'stats': s.stats}

    def sub(s):
        c = Check(s.pid, s.level, s.tier, s.seed)
        c.known_printed = list(s.known_printed)
        return c

    # ---- evidence + exit ---------------------------------------------------------------------
    def finish(s, explanation=''):
        wall = time.time() - s.t0
        nob = [r for r in s.results if r.status in ('unsat', 'identical', 'violation', 'known', 'inconclusive')]
        disc = [r for r in s.results if r.status in ('unsat', 'identical')]
        solved = [r for r in s.results if r.status in ('unsat', 'violation', 'known')]
        cov = {
            'obligations': len(nob), 'discharged': len(disc),
            'structurally_identical': len([r for r in s.results if r.status == 'identical']),
            'known_findings_reconfirmed': len([r for r in s.results if r.status == 'known']),
            'violations': len(s.violations), 'inconclusive': len(s.inconclusive),
            'vacuity_witnesses_ok': len([r for r in s.results if r.status == 'witness-ok']),
            'programs': max(1, len(nob)), 'disagreements_checked': len(solved),
            'programs_meaning': 'programs = obligations (e.g. decode-table rows compared in both trees); disagreements_checked = obligations where the two sides were not structurally identical and the solver decided them',
            'states': max(1, s.nstates), 'transitions': max(1, s.ninstr),
            'states_transitions_meaning': 'states = symbolic (merged) machine states at which an obligation or exit was evaluated; transitions = LLVM IR instructions of the real code executed symbolically',
            'traces_validated_against_impl': s.validated,
            'traces_meaning': 'concrete runs where the executor (used as an interpreter) or a solver model was compared against the natively compiled real code',
            'evaluations': max(1, s.stats.get('queries', 0)),
            'distinct_nontrivial': max(len(solved), 0),
            'rule': 'one evaluation = one solver query; an obligation is distinct by name and non-trivial when it needed a solver verdict (not closed by structural identity)',
            'samples': s.samples or [{'note': 'no obligation executed'}],
            'functions_encoded': sorted(s.funcs)[:400], 'functions_encoded_count': len(s.funcs),
            'bounds': s.bounds, 'stubs_and_cuts': s.stubs,
            'solver': {'queries': s.stats.get('queries', 0), 'solver_s': round(s.stats.get('solver_s', 0.0), 2), 'answers': s.stats.get('by', {})},
            'obligation_table': [r.to_json() for r in s.results][:1500],
            'notes': s.notes, 'explanation': explanation, 'exhaustive': False,
            'checker_cmd': './check %s --tier %s' % (s.pid, s.tier), 'trusted_base': ['clang++-14 IR generation', 'llsym executor (validated per run against the native build)', 'z3 4.x / cvc5 1.0'],
            'engine_errors': s.engine_errors, 'inconclusive_list': s.inconclusive,
        }
        ev = {'property_id': s.pid, 'tier': s.tier, 'seed': s.seed, 'level': s.level, 'coverage': cov,
              'assumptions': s.assumptions, 'wall_s': round(wall, 2), 'violations': len(s.violations)}
        os.makedirs(os.path.join(SCRATCH, 'evidence'), exist_ok=True)
        path = os.path.join(SCRATCH, 'evidence', s.pid + '.json')
        with open(path + '.tmp', 'w') as f:
            json.dump(ev, f, indent=1, default=str)
        os.replace(path + '.tmp', path)
        print('%s %s: %d obligations, %d discharged, %d known, %d violations, %d inconclusive, %d engine errors, %d validated traces, %.1fs (solver %.1fs, %d queries)'
              % (s.pid, s.tier, len(nob), len(disc), cov['known_findings_reconfirmed'], len(s.violations), len(s.inconclusive), len(s.engine_errors), s.validated, wall, s.stats.get('solver_s', 0.0), s.stats.get('queries', 0)), flush=True)
        for n in s.notes[:20]:
            print('  note:', n)
        if s.violations:
            return 1
        if s.engine_errors or s.inconclusive:
            for x in (s.engine_errors + s.inconclusive)[:40]:
                print('  INCONCLUSIVE/ENGINE:', x, flush=True)
            return 3
        return 0


# ------------------------------------------------------------------------------------------------ parallel map
def _job(arg):
    fn, a = arg
    try:
        return fn(*a)
    except SystemExit:
        raise
    except BaseException as x:
        return {'__error__': '%s%r: %r\n%s' % (getattr(fn, '__name__', fn), a[:2] if isinstance(a, tuple) else a, x, traceback.format_exc()[-1500:])}


def pmap(fn, arglist, nproc=None):
    """run fn(*args) for each args in arglist in forked workers; fn returns a picklable object"""
    nproc = nproc or int(os.environ.get('VERIF_JOBS', '16'))
    arglist = list(arglist)
    if not arglist:
        return []
    if nproc <= 1 or len(arglist) == 1:
        return [_job((fn, a)) for a in arglist]
    ctx = multiprocessing.get_context('fork')
    with ctx.Pool(min(nproc, len(arglist)), maxtasksperchild=None) as p:
        return p.map(_job, [(fn, a) for a in arglist], chunksize=1)
