"""C01 clause B — every test vector the project's hardware test generator can emit executes without aborting, advances the
program counter by the instruction's length and touches data memory only inside the two compared windows.

Three pieces of real code are chained by z3 terms:
  (1) TestGenerator's handler for the row, dispatched through the real Matcher<TestGenerator>::call with a symbolic opcode
      -> the Config (enable, lock_page, lock_r7, r/ar/arp pinning, expand kind) as terms over the opcode;
  (2) Config::GenerateRandomState with Random::bit16/bit32/bit40/uniform replaced by fresh variables (uniform(a, b) constrained
      to [a, b]) -> the State the generator can emit, as terms over the Config fields and the random draws;
  (3) the verifier's loader (src/test_verifier/main.cpp, extracted textually: regs.Reset(); regs.a = ...; regs.Set<stt0>(...))
      -> the RegisterState the instruction starts from;
then the interpreter's handler for the same row runs from that state (real Matcher<Interpreter>::call) and the obligation is:
enable(opcode) ==> no abort / assertion exit (UnimplementedException is the outcome the verifier skips), pc untouched by the handler (Run adds the length: C02
Run.length), every data read and write address inside [0x6400,0x6600) or [0xCC00,0xCE00)."""
import z3
from engine import build, kit, core
from engine.kit import Ptr, bv, is_c
from engine.llsym import DEAD, Abort, UnwindBound
from checks import interp, c02

_S = {}
XLO, YLO, WSZ = 0x6400, 0xCC00, 0x200


def gen_env():
    """generator side: symbolic Config -> State terms (once per process)"""
    if 'g' in _S:
        return _S['g']
    mod, ex, st, rows = c02.other_table('gen')
    L = kit.layout()
    lay = ex.new_region(st, 80, 'cfg_layout')
    ex.call(st, '@gen_cfg_layout', [Ptr(lay, 0)])
    o_en, o_lp, o_l7, o_r, o_ar, o_arp, o_exp, csz, rsz, esz = [ex.load(st, Ptr(lay, 8 * k), 8) for k in range(10)]
    CO = {'enable': (o_en, 1), 'lock_page': (o_lp, 1), 'lock_r7': (o_l7, 1), 'expand': (o_exp, esz)}
    for i in range(8):
        CO['r[%d]' % i] = (o_r + rsz * i, rsz)
    for i in range(4):
        CO['ar[%d]' % i] = (o_ar + rsz * i, rsz)
        CO['arp[%d]' % i] = (o_arp + rsz * i, rsz)
    # Random:: -> fresh variables
    draws = {'n': 0, 'A': []}

    def fresh(bits, tag):
        draws['n'] += 1
        return z3.BitVec('rnd%d_%s' % (draws['n'], tag), bits)

    def r16(e, st_, a):
        return st_, fresh(16, 'bit16')

    def r32(e, st_, a):
        return st_, fresh(32, 'bit32')

    def r40(e, st_, a):
        # bit40 draws a 40-bit value and applies one of five sign/width treatments: the result is one of these five shapes
        v = fresh(40, 'bit40')
        k = fresh(8, 'bit40kind')
        draws['A'].append(z3.ULE(k, 4))
        v64 = z3.ZeroExt(24, v)
        shapes = [z3.SignExt(24, v), v64 & 0xFFFF, v64 & 0xFFFFFFFF, z3.SignExt(32, z3.Extract(31, 0, v)), z3.SignExt(48, z3.Extract(15, 0, v))]
        out = shapes[4]
        for j in range(3, -1, -1):
            out = z3.If(k == j, shapes[j], out)
        return st_, out

    def runi(e, st_, a):
        lo, hi = a[0], a[1]
        v = fresh(64, 'uniform')
        draws['A'] += [z3.ULE(bv(lo, 64), v), z3.ULE(v, bv(hi, 64))]
        return st_, v
    names = {}
    for n in mod.funcs:
        if 'Random' in n and n.endswith('5bit16Ev'):
            names[n] = r16
        elif 'Random' in n and n.endswith('5bit32Ev'):
            names[n] = r32
        elif 'Random' in n and n.endswith('5bit40Ev'):
            names[n] = r40
        elif 'Random' in n and '7uniformEmm' in n:
            names[n] = runi
    if len(names) < 4:
        raise Abort('Random::bit16/bit32/bit40/uniform not all found in the generator IR: %r' % list(names))
    ex.intercepts.update(names)
    install_set_count(mod, ex)
    cfgv = {f: z3.BitVec('cfg.' + f, 8 * sz) for f, (off, sz) in CO.items()}
    s1 = st.fork()
    cfg = ex.new_region(s1, csz, 'Config')
    ex.fill(s1, Ptr(cfg, 0), csz, 0)
    for f, (off, sz) in CO.items():
        ex.store(s1, Ptr(cfg, off), sz, cfgv[f])
    A = [z3.ULE(cfgv[f], 1) for f in CO if f != 'expand'] + [z3.ULE(cfgv['expand'], 2)]
    s1.pc += A
    out = ex.new_region(s1, L['State']['_size'][0], 'State')
    ex.unwind = 1200
    ex.exits = []
    n0 = ex.ninstr
    r = ex.call(s1, '@gen_state', [Ptr(cfg, 0), Ptr(out, 0)])
    if r is None or r is DEAD:
        raise Abort('GenerateRandomState does not return')
    s2 = r[0]
    S = {}
    for f, (off, sz, cnt, stride) in L['State'].items():
        if f in ('_size', 'test_space_x', 'test_space_y'):
            continue
        for i in range(cnt):
            S['%s[%d]' % (f, i) if cnt > 1 else f] = bv(ex.load(s2, Ptr(out, off + i * stride), sz), 8 * sz)
    for n in names:
        ex.intercepts.pop(n, None)
    _S['g'] = {'mod': mod, 'ex': ex, 'st': st, 'rows': rows, 'CO': CO, 'cfgv': cfgv, 'S': S, 'A': A + draws['A'], 'csz': csz, 'ninstr': ex.ninstr - n0,
               'exits': list(ex.exits), 'oblig': list(ex.oblig)}
    ex.exits, ex.oblig = [], []
    return _S['g']


def install_set_count(mod, ex):
    """std::unordered_set<K>::count(key) with a symbolic key: the container was built by the real constructor/insert code in
    the executor; membership is decided by walking its node list (libstdc++ _Hashtable: first node at +16, node = {next, value})
    and comparing the key with every element - hashing a symbolic key is not needed"""
    def mk(name, ksz):
        def count(e, st_, a):
            k = e.load(st_, a[1], ksz)
            if is_c(k):
                return e.call_plain(st_, name, a)
            k = bv(k, 8 * ksz)
            node = e.load(st_, Ptr(a[0].r, a[0].o + 16), 8)
            hit = []
            n = 0
            while isinstance(node, Ptr) and node.r != 0:
                hit.append(k == bv(e.load(st_, Ptr(node.r, node.o + 8), ksz), 8 * ksz))
                node = e.load(st_, Ptr(node.r, node.o), 8)
                n += 1
                if n > 64:
                    raise Abort('unordered_set with more than 64 elements')
            if not (is_c(node) and node == 0) and not (isinstance(node, Ptr) and node.r == 0):
                raise Abort('unordered_set node list does not end in a null pointer')
            return st_, z3.If(z3.Or(*hit) if hit else z3.BoolVal(False), z3.BitVecVal(1, 64), z3.BitVecVal(0, 64))
        return count
    for n in mod.funcs:
        if 'unordered_set' in n and '5countE' in n:
            ksz = 2 if 'unordered_setIt' in n else 4
            ex.intercepts[n] = mk(n, ksz)


def loader_env():
    """verifier side: State variables -> RegisterState terms (once per process)"""
    if 'l' in _S:
        return _S['l']
    ll, h = build.compile_ir('h_tvload.cpp', defs=build.gen_tv_load())
    mod = build.load_module(ll)
    ex, st = kit.new_exec(mod, unwind=600)
    L = kit.layout()
    regs = kit.Obj(ex, st, L['RegisterState'], 'regs', prefix='pre')
    tc = ex.new_region(st, L['TestCase']['_size'][0], 'TestCase')
    SV = {}
    for f, (off, sz, cnt, stride) in L['State'].items():
        if f in ('_size', 'test_space_x', 'test_space_y'):
            continue
        for i in range(cnt):
            nm = '%s[%d]' % (f, i) if cnt > 1 else f
            SV[nm] = z3.BitVec('state.' + nm, 8 * sz)
            ex.store(st, Ptr(tc, off + i * stride), sz, SV[nm])
    ex.exits = []
    r = ex.call(st, '@tv_load', [regs.ptr, Ptr(tc, 0)])
    if r is None or r is DEAD:
        raise Abort('the verifier loader does not return')
    post = regs.snapshot(r[0])
    _S['l'] = {'SV': SV, 'regs': post, 'exits': list(ex.exits), 'ninstr': ex.ninstr}
    return _S['l']


def config_of(g, row, o):
    """the generator's Config for opcode o in `row`, through the real Matcher<TestGenerator>::call"""
    ex, st = g['ex'], g['st']
    s1 = st.fork()
    s1.pc.append(interp.IEnv.match_pred(None, row, o))
    gen = ex.new_region(s1, 8, 'TestGenerator')
    cfg = ex.new_region(s1, g['csz'], 'Config')
    ex.exits = []
    ex.oblig = []
    r = ex.call(s1, '@gen_callm', [row['ptr'], Ptr(gen, 0), o, Ptr(cfg, 0)])
    if r is None or r is DEAD:
        raise Abort('generator handler does not return')
    out = {f: bv(ex.load(r[0], Ptr(cfg, off), sz), 8 * sz) for f, (off, sz) in g['CO'].items()}
    return out, list(ex.exits), list(ex.oblig)


def inwin(a):
    a = bv(a, 16)
    return z3.Or(z3.And(z3.UGE(a, XLO), z3.ULT(a, XLO + WSZ)), z3.And(z3.UGE(a, YLO), z3.ULT(a, YLO + WSZ)))


def job_rows(idx, tier, seed):
    from checks import c01
    ck = core.Check('C01', 'translation_validation', tier, seed)
    E = c01.envs()[0]
    ex, st0, ctx = E.base()
    g = gen_env()
    ld = loader_env()
    regsI = ctx['regs']
    o, e = z3.BitVec('o', 16), z3.BitVec('e', 16)
    # the loaded start state inside the interpreter executor (memory: arbitrary - the test-space words are unconstrained draws)
    stL = st0.fork()
    for f, t in ld['regs'].items():
        nm, i = (f[:f.index('[')], int(f[f.index('[') + 1:-1])) if '[' in f else (f, 0)
        regsI.set(stL, nm, t, i)
    link = [ld['SV'][f] == g['S'][f] for f in ld['SV']]
    for i in idx:
        row, grow = E.rows[i], g['rows'][i]
        if (row['name'], row['mask'], row['expected']) != (grow['name'], grow['mask'], grow['expected']):
            ck.engine_errors.append('row %d differs between the interpreter and generator tables (C02 TableAgreement reports it)' % i)
            continue
        nm = 'Generator[row %d %s]' % (i, row['name'])
        try:
            cfg, gexits, goblig = config_of(g, grow, o)
            if gexits:
                ck.inconclusive.append('%s: generator handler has exits %r' % (nm, [x[1:] for x in gexits][:2]))
                continue
            en = cfg['enable'] != 0
            if z3.is_false(z3.simplify(en)):
                ck.identical(nm, sample=None)
                continue
            A = [E.match_pred(row, o), en] + g['A'] + link + [g['cfgv'][f] == cfg[f] for f in cfg]
            # expand word as GenerateTestCasesToFile chooses it (None: 0, Any: a draw, Memory: X window + uniform(10, size - 10))
            u = z3.BitVec('rnd_expand', 16)
            A.append(z3.If(cfg['expand'] == 0, e == 0, z3.If(cfg['expand'] == 2, z3.And(e == XLO + u, z3.UGE(u, 10), z3.ULE(u, WSZ - 10)), z3.BoolVal(True))))
            r = E.run_row(i, o, e, A, st_in=stL)
            ck.ninstr += r['ninstr']
            ck.nstates += 1
        except (Abort, UnwindBound) as x:
            ck.inconclusive.append('%s: %s' % (nm, str(x)[:120]))
            continue
        X = type('X', (), {'exits': r['exits']})()
        # UnimplementedException is an outcome the verifier handles ("Skipped one unimplemented case"): not an abort. That the
        # current tree does not throw it more often than the reference is clause A (RowEquiv).
        goals = [z3.Not(kit.exit_cond(X, ('assert', 'abort', 'trap', 'ub')))]
        thrown = kit.exit_cond(X, ('throw',))
        if r['st'] is not None:
            post = E.post_regs(r['st'])
            goals.append(z3.Or(thrown, post['pc'] == ld['regs']['pc']))
            for ev in r['st'].log:
                if ev[0] in ('R', 'W'):
                    goals.append(z3.Or(thrown, z3.Implies(kit.path_cond(ev[1]), inwin(ev[2]))))
        else:
            goals.append(thrown)
        vars_ = {'o': o, 'e': e}
        vars_.update({'state.' + f: t for f, t in ld['SV'].items()})
        ck.prove(nm, A, z3.And(*goals), vars=vars_, replay=replayer(E, i), witness=(i % 16 == 0),
                 sample=('row %d (%s): every state Config::GenerateRandomState can emit for an enabled opcode of this row, loaded as the verifier loads it, executes without abort, leaves pc to the fetch loop and reads/writes data memory only inside the X/Y test windows' % (i, row['name'])) if i % 40 == 0 else None)
    return ck.export()


def replayer(E, i):
    def rp(inputs):
        """native: the loaded register state (loader terms evaluated under the model) poked into the interpreter twin, the row
        dispatched through the real Matcher::call; abort, unimplemented, a changed pc and writes outside the windows are
        observable (reads are not: such counterexamples stay unconfirmed)"""
        ld = loader_env()
        sub = [(v, z3.BitVecVal(int(inputs.get('state.' + f, 0)), v.size())) for f, v in ld['SV'].items()]
        regs = {}
        for f, t in ld['regs'].items():
            if not z3.is_expr(t):
                regs[f] = int(t)
                continue
            v = z3.simplify(z3.substitute(t, *sub))
            if not z3.is_bv_value(v):
                return None, {'note': 'loaded field %s is not determined by the State' % f}
            regs[f] = v.as_long()
        if 't' not in _S:
            _S['t'] = interp.Twin(E)
        out = _S['t'].run_row(i, int(inputs['o']), int(inputs['e']), regs)
        if out[0] == 'signal':
            return True, {'native': 'abort (signal %d)' % out[1]}
        if out[0] != 'ok':
            return None, {'native': out}
        res = out[1]
        if res.get('unimpl'):
            return False, {'native': 'UnimplementedException (tolerated outcome) - the model claimed an abort, a pc change or an outside access'}
        if res['regs'].get('pc', regs.get('pc')) != regs.get('pc'):
            return True, {'native': 'pc changed by the handler', 'pc': res['regs'].get('pc')}
        bad = [a for a in res.get('dmem', {}) if not (XLO <= a < XLO + WSZ or YLO <= a < YLO + WSZ)]
        if bad:
            return True, {'native': 'data writes outside the windows', 'addresses': ['%#06x' % a for a in bad[:8]]}
        return None, {'native': 'no abort / pc change / outside write observed; reads are not observable natively', 'regs.r': [res['regs'].get('r[%d]' % k) for k in range(8)]}
    return rp


class _GenSide:
    """adapter so that c01.Hasher / row_roots work on the generator module of a tree"""
    def __init__(s, tree):
        s.root = tree
        ll, h = build.compile_ir('h_gen.cpp', tree=tree)
        s.mod = build.load_module(ll)
        ex, st = kit.new_exec(s.mod, unwind=3000)
        interp._install_hashtable_stubs(ex)
        vec = ex.new_region(st, 24, 'vec')
        st = ex.call(st, '@mk_table_gen', [Ptr(vec, 0)])[0]
        b, e_ = ex.load(st, Ptr(vec, 0), 8), ex.load(st, Ptr(vec, 8), 8)
        s.rows = [{'i': i, 'ptr': Ptr(b.r, b.o + c02.MS * i)} for i in range((e_.o - b.o) // c02.MS)]
        s._b = (ex, st, None)

    def base(s):
        return s._b


def changed_generator_rows():
    """-> (set of row indexes whose generator-handler IR closure differs from the pinned reference tree, bool: the state
    constructor or the verifier's loader differ). Used by the quick tier to aim its sample at what changed."""
    from checks import c01
    cur, ref = _GenSide(build.REPO), _GenSide(build.REF)
    hc, hr = c01.Hasher(cur), c01.Hasher(ref)
    glob = hc.closure(['@gen_state'])[0] != hr.closure(['@gen_state'])[0] or build.gen_tv_load(build.REPO) != build.gen_tv_load(build.REF)
    if len(cur.rows) != len(ref.rows):
        return set(range(len(cur.rows))), True
    rows = set()
    for a, b in zip(cur.rows, ref.rows):
        ra, rb = c01.row_roots(cur, a), c01.row_roots(ref, b)
        ra = [r for r in ra if r != '@callm'] + ['@gen_callm']
        rb = [r for r in rb if r != '@callm'] + ['@gen_callm']
        if hc.closure(ra)[0] != hr.closure(rb)[0]:
            rows.add(a['i'])
    return rows, glob


def run_clause_b(ck, tier, seed, changed_interp=()):
    """called from c01.run: Generator[row] obligations (quick: seeded sample of 64 rows; thorough: all rows)"""
    import random
    from checks import c01
    E = c01.envs()[0]
    E.base()
    try:
        g = gen_env()
        ld = loader_env()
    except (Abort, UnwindBound) as x:
        ck.inconclusive.append('generator clause: %s' % str(x)[:200])
        return
    ck.ninstr += g['ninstr'] + ld['ninstr']
    if g['exits'] or ld['exits']:
        ck.engine_errors.append('generator clause: GenerateRandomState / loader have exits: %r %r' % ([x[1:] for x in g['exits']][:2], [x[1:] for x in ld['exits']][:2]))
        return
    n = len(E.rows)
    rows = list(range(n))
    if tier != 'thorough':
        try:
            chg, glob = changed_generator_rows()
        except (Abort, UnwindBound, KeyError) as x:
            chg, glob = set(), True
            ck.notes.append('generator clause: closure comparison with the reference tree failed (%s): all rows decided' % str(x)[:80])
        if not glob:
            rnd = random.Random(seed + 7)
            rnd.shuffle(rows)
            must = set(chg) | set(changed_interp)
            rows = sorted(set(rows[:64]) | must)
            ck.notes.append('generator clause: quick tier decides %d of the %d rows: a seeded sample of 64 plus the %d rows whose generator or interpreter handler IR differs from the pinned reference tree (thorough: all)' % (len(rows), n, len(must)))
        else:
            ck.notes.append('generator clause: GenerateRandomState or the verifier loader differ from the pinned reference tree: all %d rows decided' % n)
    chunks = [rows[k::16] for k in range(16) if rows[k::16]]
    for r in core.pmap(job_rows, [(c, tier, seed) for c in chunks]):
        if '__error__' in r:
            ck.engine_errors.append(r['__error__'])
        else:
            ck.absorb(r)
    ck.funcs.update(['TestGenerator::<every handler> via Matcher<TestGenerator>::call', 'Config::GenerateRandomState', 'ConfigWith*', 'test_verifier main(): the TestCase -> RegisterState loading statements (extracted)', 'RegisterState::Reset, Set<cfgi/cfgj/stt0-2/mod0-2/ar0-1/arp0-3>'])
    ck.assumptions += ['generator clause: Random::bit16/bit32/bit40/uniform return arbitrary values of their range (bit40: one of its five sign/width shapes); test-space words are unconstrained; the expand word is chosen as GenerateTestCasesToFile does (None: 0, Any: any, Memory: 0x6400 + [10, 0x1F0]) - that 3-way switch is transcribed, the function itself is file I/O',
                       'generator clause: pc advance = handler leaves pc alone + the fetch loop adds the length (C02 Run.length); verifier state has rep == 0, lp == 0 after RegisterState::Reset']
    ck.stubs += ['Random::* -> fresh variables', 'std::unordered_set<K>::count(symbolic key) -> membership over the node list built by the real constructor']
