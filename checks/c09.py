"""C09 — hardware loops execute their body exactly count+1 times.
(L) one-step obligations on the real Interpreter::Run loop controller (rep / block repeat bookkeeping) with the dispatched
instruction a nop; row-level specs of rep / bkrep / break; (bounded) whole programs `rep #N; body` and `bkrep #N; body` with
a two-word last instruction and nesting, run cycle by cycle through the real Run against the unrolled body; bkrepsto;bkreprst
round trip."""
import z3
from engine import build, kit, core
from engine.kit import Ptr, bv, is_c
from engine.llsym import DEAD, Abort, UnwindBound
from checks import interp, c03, c08
from spec import alu, forms

env = c03.env
find, fld = c08.find, c08.fld


def base_state(E, sc, ie=0):
    ex, st0, ctx = sc.ex, sc.st0, sc.ctx
    st = st0.fork()
    regs = ctx['regs']
    return st, regs


def job_step(kind, tier, seed):
    E = env()
    ck = core.Check('C09', 'model_checking', tier, seed)
    R = E.R()
    inv = E.inv()
    with interp.RunScaffold(E) as sc:
        st, regs = base_state(E, sc)
        sc.force_row = find(E, 'nop', ())
        pm = st.mem[sc.ctx['pm']].cells[0][1]
        pc = R['pc']
        A = inv + [R['prpage'] == 0, R['ie'] == 0, z3.ULT(pc, 0x3FFFE), z3.Select(pm, pc) == 0]
        if kind == 'rep':
            A += [R['rep'] == 1, R['lp'] == 0]
        elif kind == 'loop':
            A += [R['rep'] == 0, R['lp'] == 1]
        elif kind == 'both':
            A += [R['rep'] == 1, R['lp'] == 1]
        else:
            A += [R['rep'] == 0, R['lp'] == 0]
        st.pc += A
        s1, n = sc.run(st, 1)
        ck.ninstr += n
        ck.nstates += 1
        post = regs.snapshot(s1)
        g = [z3.Not(kit.exit_cond(sc.ex)), kit.obligations(sc.ex)]
        exp = dict(R)
        if kind == 'rep':
            c = R['repc']
            exp['repc'] = z3.If(c == 0, c, c - 1)
            exp['rep'] = z3.If(c == 0, z3.BitVecVal(0, 8), R['rep'])
            exp['pc'] = z3.If(c == 0, pc + 1, pc)
            sample = 'single-instruction repeat, one cycle: repc > 0 -> repc-1 and the same instruction is fetched again; repc == 0 -> repeat ends and pc advances (so the instruction runs repc+1 times by induction)'
        elif kind in ('loop', 'both'):
            def frame(f):
                out = R['bkrep_stack.%s[3]' % f]
                for k in range(2, -1, -1):
                    out = z3.If(R['bcn'] == k + 1, R['bkrep_stack.%s[%d]' % (f, k)], out)
                return out
            nxt = pc + 1
            if kind == 'both':
                # the repeat is served first: while it is pending the instruction is fetched again and the block end is not
                # looked at; the block-end check applies to the cycle that finishes the repeat
                c = R['repc']
                exp['repc'] = z3.If(c == 0, c, c - 1)
                exp['rep'] = z3.If(c == 0, z3.BitVecVal(0, 8), R['rep'])
                nxt = z3.If(c == 0, pc + 1, pc)
            at_end = frame('end') + 1 == nxt
            last = frame('lc') == 0
            exp['pc'] = z3.If(z3.And(at_end, z3.Not(last)), frame('start'), nxt)
            exp['bcn'] = z3.If(z3.And(at_end, last), R['bcn'] - 1, R['bcn'])
            exp['lp'] = z3.If(z3.And(at_end, last), z3.If(R['bcn'] - 1 != 0, alu.ONE16, alu.ZERO16), R['lp'])
            for k in range(4):
                exp['bkrep_stack.lc[%d]' % k] = z3.If(z3.And(at_end, z3.Not(last), R['bcn'] == k + 1), R['bkrep_stack.lc[%d]' % k] - 1, R['bkrep_stack.lc[%d]' % k])
            sample = ('a repeated instruction that is also the last of a block: the repeat completes first, then the block iterates; ' if kind == 'both' else '') + 'block repeat, one cycle whose instruction is the last of the innermost block: lc > 0 -> lc-1 and jump to start; lc == 0 -> frame popped, in-loop flag = (bcn != 0), fall through; elsewhere pc+1 and nothing changes'
        else:
            exp['pc'] = pc + 1
            sample = 'no loop active: one cycle advances pc by the instruction length and touches no loop state'
        g += c03.diff_goal(post, exp, R)[0]
        ck.prove('RunStep[%s]' % kind, A, z3.And(*g), vars=c03.vars_of(R), sample=sample)
    return ck.export()


def job_rows(tier, seed):
    """row-level specs: rep*, bkrep*, break"""
    E = env()
    ck = core.Check('C09', 'model_checking', tier, seed)
    R = E.R()
    inv = E.inv()
    o, e = z3.BitVec('o', 16), z3.BitVec('e', 16)

    def run(i, extra=()):
        r = E.run_row(i, o, e, inv + [E.match_pred(E.rows[i], o)] + list(extra))
        ck.ninstr += r['ninstr']
        ck.nstates += 1
        return r
    for name, types, cnt in (('rep', ('Imm8',), lambda i: z3.ZeroExt(8, fld(E, i, 0, o, e))), ('rep_r6', (), lambda i: R['r[6]'])):
        i = find(E, name, types)
        r = run(i)
        exp = dict(R)
        exp['repc'] = cnt(i)
        exp['rep'] = z3.BitVecVal(1, 8)
        g = c03.diff_goal(E.post_regs(r['st']), exp, R)[0] + [c08.noexit(r)]
        ck.prove('Row[%s]' % name, inv + [E.match_pred(E.rows[i], o)], z3.And(*g), vars=c03.vars_of(R, {'o': o}), sample='%s: repc := count operand, repeat flag set, nothing else' % name)
    # rep <register>: the count is the plain 16-bit value of the register (operand.h Register order; the read does not
    # saturate and has no side effect); status words, p, pc/sp/lc/ext and whole accumulators are left to the reference comparison
    try:
        i = find(E, 'rep', ('Register',))
    except Exception:
        i = None
    if i is not None:
        REG = {0: R['r[0]'], 1: R['r[1]'], 2: R['r[2]'], 3: R['r[3]'], 4: R['r[4]'], 5: R['r[5]'], 6: R['r[7]'], 7: R['y[0]'],
               16: z3.Extract(31, 16, R['b[0]']), 17: z3.Extract(31, 16, R['b[1]']), 18: z3.Extract(15, 0, R['b[0]']), 19: z3.Extract(15, 0, R['b[1]']),
               26: z3.Extract(15, 0, R['a[0]']), 27: z3.Extract(15, 0, R['a[1]']), 28: z3.Extract(31, 16, R['a[0]']), 29: z3.Extract(31, 16, R['a[1]']), 31: R['sv']}
        idx = fld(E, i, 0, o, e)
        val = None
        for k_, t_ in REG.items():
            val = t_ if val is None else z3.If(idx == k_, t_, val)
        pre = [z3.Or(*[idx == k_ for k_ in REG])]
        r = run(i, pre)
        exp = dict(R)
        exp['repc'] = val
        exp['rep'] = z3.BitVecVal(1, 8)
        g = c03.diff_goal(E.post_regs(r['st']), exp, R)[0] + [c08.noexit(r)]
        ck.prove('Row[rep register]', inv + [E.match_pred(E.rows[i], o)] + pre, z3.And(*g), vars=c03.vars_of(R, {'o': o}),
                 sample='rep <register> for the plain 16-bit sources (r0..r5, r7, y0, accumulator halves, sv): repc := the raw 16-bit value, repeat flag set, nothing else (no saturation, no limit flag)')
    for name, types in (('bkrep', ('Imm8', 'Address16')), ('bkrep_r6', ('Address18_16', 'Address18_2'))):
        i = find(E, name, types)
        r = run(i)
        if name == 'bkrep':
            lc = z3.ZeroExt(8, fld(E, i, 0, o, e))
            end = z3.ZeroExt(16, fld(E, i, 1, o, e)) | (R['pc'] & 0x30000)
        else:
            lc = R['r[6]']
            end = z3.Concat(z3.BitVecVal(0, 14), fld(E, i, 1, o, e), fld(E, i, 0, o, e))
        exp = dict(R)
        for k in range(4):
            here = R['bcn'] == k
            exp['bkrep_stack.start[%d]' % k] = z3.If(here, R['pc'], R['bkrep_stack.start[%d]' % k])
            exp['bkrep_stack.end[%d]' % k] = z3.If(here, end, R['bkrep_stack.end[%d]' % k])
            exp['bkrep_stack.lc[%d]' % k] = z3.If(here, lc, R['bkrep_stack.lc[%d]' % k])
        exp['lp'] = alu.ONE16
        exp['bcn'] = R['bcn'] + 1
        A = inv + [E.match_pred(E.rows[i], o)]
        asserts = kit.exit_cond(type('X', (), {'exits': r['exits']})(), ('assert',))
        others = kit.exit_cond(type('X', (), {'exits': r['exits']})(), ('throw', 'abort', 'trap', 'ub'))
        g = [z3.Or(asserts, x) for x in c03.diff_goal(E.post_regs(r['st']), exp, R)[0]] + [asserts == z3.UGT(R['bcn'], 3), z3.Not(others)]
        ck.prove('Row[%s]' % name, A, z3.And(*g), vars=c03.vars_of(R, {'o': o, 'e': e}),
                 sample='%s: pushes the frame {start = address after the instruction, end, count}, sets the in-loop flag, nests up to four deep; a fifth level is the deliberate assertion' % name)
    i = find(E, 'break_', ())
    r = run(i, [R['lp'] == 1])
    exp = dict(R)
    exp['bcn'] = R['bcn'] - 1
    exp['lp'] = z3.If(R['bcn'] - 1 != 0, alu.ONE16, alu.ZERO16)
    g = c03.diff_goal(E.post_regs(r['st']), exp, R)[0] + [c08.noexit(r)]
    ck.prove('Row[break]', inv + [E.match_pred(E.rows[i], o), R['lp'] == 1], z3.And(*g), vars=c03.vars_of(R, {'o': o}), sample='break pops the innermost frame without jumping; in-loop flag = (bcn != 0)')
    return ck.export()


# ------------------------------------------------------------------------------------------------ whole programs
INC_A0 = 0x6700 | (13 << 4)          # moda4 inc a0, condition true
ADD_IMM_A0 = 0x80C0 | (3 << 9)       # alu add #imm16, a0 (two words)
BASE = 0x0100


def rep_prog(n):
    return [0x0C00 | n, INC_A0] + [0] * 8, [INC_A0] * (n + 1), 2 + n + 1


def bkrep_prog(n, imm):
    # bkrep #n, end ; body: inc a0 ; add #imm, a0 (two-word last instruction) ; then nops
    end = BASE + 2 + 2          # address of the last word of the body's last instruction
    return [0x5C00 | n, end, INC_A0, ADD_IMM_A0, imm] + [0] * 8, [(INC_A0,), (ADD_IMM_A0, imm)] * (n + 1), 1 + 2 * (n + 1) + 1


def nested_prog(depth, imm):
    """depth nested `bkrep #1` blocks; the innermost body is one two-word instruction, every outer block ends on its own
    nop after the inner block (blocks that end on the same instruction are outside the architecture's contract)"""
    def block(d, at):
        # returns (words, executed instruction count) of a block of nesting level d placed at address `at`
        if d == 0:
            return [ADD_IMM_A0, imm], 1
        inner, cnt = block(d - 1, at + 2)
        body = inner + ([0] if d > 1 else [])
        end = at + 2 + len(body) - 1
        return [0x5C00 | 1, end] + body, 1 + 2 * (cnt + (1 if d > 1 else 0))
    words, executed = block(depth, BASE)
    return words + [0] * 8, [(ADD_IMM_A0, imm)] * (2 ** depth), executed + 2


def job_program(kind, n, tier, seed):
    E = env()
    ck = core.Check('C09', 'model_checking', tier, seed)
    R = E.R()
    imm = z3.BitVec('imm', 16)
    if kind == 'rep':
        words, unrolled, cycles = rep_prog(n)
        unrolled = [(w,) for w in unrolled]
    elif kind == 'bkrep':
        words, unrolled, cycles = bkrep_prog(n, imm)
    else:
        words, unrolled, cycles = nested_prog(n, imm)
    interp.concrete_pread(E)
    with interp.RunScaffold(E) as sc:
        st, regs = base_state(E, sc)
        for f, v in (('pc', BASE), ('prpage', 0), ('rep', 0), ('lp', 0), ('bcn', 0), ('ie', 0)):
            regs.set(st, f, v)
        A = [c for c in E.inv()]
        fixed = {'pc': BASE, 'prpage': 0, 'rep': 0, 'lp': 0, 'bcn': 0, 'ie': 0}
        A += [R[f] == v for f, v in fixed.items()]
        st.pc += A
        sc.program(st, BASE, words)
        cur = st
        total = 0
        try:
            for c in range(cycles):
                cur, n_ = sc.run(cur, 1)
                total += n_
                if cur is None:
                    break
        except (Abort, UnwindBound) as x:
            ck.inconclusive.append('program %s %d: %r' % (kind, n, x))
            return ck.export()
        ck.ninstr += total
        ck.nstates += cycles
        if cur is None:
            ck.prove('Program[%s N=%d]' % (kind, n), A, z3.BoolVal(False), vars={'imm': imm})
            return ck.export()
        got = regs.snapshot(cur)
        exits_loop = list(sc.ex.exits)
    # unrolled reference: the body instructions applied N+1 times through the same real handlers, no loop hardware
    ref = E.base()[1].fork()
    regsr = E.base()[2]['regs']
    for f, v in fixed.items():
        regsr.set(ref, f, v)
    ref.pc += A
    for ins in unrolled:
        oc = ins[0]
        row = [r for r in E.rows if (oc & r['mask']) == r['expected'] and all((oc & mm) != uu for mm, uu in r['rejectors'])][0]
        rr = E.run_row(row['i'], oc, ins[1] if len(ins) > 1 else 0, [], st_in=ref, keep=True)
        ck.ninstr += rr['ninstr']
        ref = rr['st']
    want = regsr.snapshot(ref)
    skip = ('pc',) + tuple(f for f in want if f.startswith('bkrep_stack') or f in ('repc',))
    g = [got[f] == want[f] for f in want if f not in skip and not got[f].eq(want[f])]
    g += [got['rep'] == 0, got['lp'] == 0, got['bcn'] == 0, z3.UGE(got['pc'], BASE + len(words) - 8), z3.ULE(got['pc'], BASE + len(words)),
          E.post_dmem(cur) == E.pre_dmem()]
    ck.prove('Program[%s N=%d]' % (kind, n), A, z3.And(*g), vars=c03.vars_of(R, {'imm': imm}),
             sample={'rep': 'rep #%d ; inc a0 run cycle by cycle through Interpreter::Run == inc a0 executed %d times (all registers and flags, symbolic a0/flags/modes); repeat state clear afterwards' % (n, n + 1),
                     'bkrep': 'bkrep #%d over {inc a0 ; add #imm16,a0 (two-word last instruction)} == the body unrolled %d times; loop state clear on exit' % (n, n + 1),
                     'nested': '%d nested bkrep #1 blocks around one two-word instruction == the instruction executed %d times; four levels nest' % (n, 2 ** n)}[kind])
    return ck.export()


def job_storestore(kind, tier, seed):
    E = env()
    ck = core.Check('C09', 'model_checking', tier, seed)
    R = E.R()
    inv = E.inv()
    oa, ea, ob, eb = [z3.BitVec(n, 16) for n in ('o1', 'e1', 'o2', 'e2')]
    if kind == 'memsp':
        ia, ib = find(E, 'bkrepsto_memsp', ()), find(E, 'bkreprst_memsp', ())
        extraB = []
    else:
        ia, ib = find(E, 'bkrepsto', ('ArRn2',)), find(E, 'bkreprst', ('ArRn2',))
        extraB = [fld(E, ib, 0, ob, eb) == fld(E, ia, 0, oa, ea)]
    try:
        ra, rb = c08.two(E, ck, ia, ib, oa, ea, ob, eb, inv, [], extraB)
    except (Abort, UnwindBound) as x:
        ck.inconclusive.append('bkrepsto;bkreprst %s: %r' % (kind, x))
        return ck.export()
    cons = list(c08.CONS)
    post = E.post_regs(rb['st'])
    g = c08.same_all(E, post, R) + [c08.noexit(rb), kit.obligations(type('X', (), {'oblig': ra['oblig'] + rb['oblig']})())]
    ck.prove('StoreRestore[%s]' % kind, inv + cons, z3.And(*g), vars=c03.vars_of(R, {'o1': oa, 'o2': ob}),
             sample='bkrepsto ; bkreprst (%s form): every loop frame, lp, bcn and the address register are as before, for every nesting depth 0..4' % ('[sp]' if kind == 'memsp' else '[ArRn2]'))
    return ck.export()


def job_frame_rows(kind, tier, seed):
    """(S) stand-alone specifications of bkrepsto / bkreprst: the frame array is a stack whose element 0 is the frame that
    goes to / comes from memory; the other live frames shift by one. A round trip alone cannot see a wrong shift (the slot
    a store vacates still holds the value a restore should move there), a task switch that restores *other* frames can."""
    E = env()
    ck = core.Check('C09', 'model_checking', tier, seed)
    R = E.R()
    inv = E.inv()
    o, e = z3.BitVec('o', 16), z3.BitVec('e', 16)
    dm0 = E.pre_dmem()
    for op in ('sto', 'rst'):
        if kind == 'memsp':
            i = find(E, 'bkrep%s_memsp' % op, ())
            areg = {'sp': z3.BoolVal(True)}
        else:
            i = find(E, 'bkrep%s' % op, ('ArRn2',))
            k = fld(E, i, 0, o, e)
            unit = R['arrn[3]']
            for j in range(2, -1, -1):
                unit = z3.If(k == j, R['arrn[%d]' % j], unit)
            areg = {'r[%d]' % u: unit == u for u in range(8)}
        addr = None
        for f, c in areg.items():
            addr = R[f] if addr is None else z3.If(c, R[f], addr)
        A = inv + [E.match_pred(E.rows[i], o)]
        try:
            r = E.run_row(i, o, e, A)
        except (Abort, UnwindBound) as x:
            ck.inconclusive.append('bkrep%s %s: %r' % (op, kind, x))
            continue
        ck.ninstr += r['ninstr']
        ck.nstates += 1
        X = type('X', (), {'exits': r['exits']})()
        asserts = kit.exit_cond(X, ('assert',))
        others = kit.exit_cond(X, ('throw', 'abort', 'trap', 'ub', 'uaf'))
        exp = dict(R)
        lp, bcn = R['lp'] != 0, R['bcn']
        F = lambda f, j: R['bkrep_stack.%s[%d]' % (f, j)]
        if op == 'sto':
            flag = (R['lp'] << 15) | z3.Extract(15, 0, z3.LShR(F('start', 0), 16)) | (z3.Extract(15, 0, z3.LShR(F('end', 0), 16)) << 8)
            want_mem = dm0
            for off, val in ((1, F('lc', 0)), (2, z3.Extract(15, 0, F('start', 0))), (3, z3.Extract(15, 0, F('end', 0))), (4, flag)):
                want_mem = z3.Store(want_mem, addr - off, val)
            for f in ('start', 'end', 'lc'):
                for j in range(3):
                    exp['bkrep_stack.%s[%d]' % (f, j)] = z3.If(z3.And(lp, z3.ULT(j + 1, bcn)), F(f, j + 1), F(f, j))
            exp['bcn'] = z3.If(lp, bcn - 1, bcn)
            exp['lp'] = z3.If(z3.And(lp, bcn - 1 == 0), alu.ZERO16, R['lp'])
            delta = -4
            must_assert = z3.BoolVal(False)
            sample = 'bkrepsto: frame 0 (count, start, end, flag word with the in-loop bit and the address high bits) goes to the four words below the address register; the remaining live frames move down one slot, depth-1, in-loop flag = (depth != 0)'
        else:
            w = [z3.Select(dm0, addr + j) for j in range(4)]
            valid = z3.Extract(15, 15, w[0]) == 1
            want_mem = dm0
            new0 = {'end': z3.Concat(z3.BitVecVal(0, 14), z3.Extract(9, 8, w[0]), w[1]), 'start': z3.Concat(z3.BitVecVal(0, 14), z3.Extract(1, 0, w[0]), w[2]), 'lc': w[3]}
            for f in ('start', 'end', 'lc'):
                exp['bkrep_stack.%s[0]' % f] = new0[f]
                for j in range(1, 4):
                    exp['bkrep_stack.%s[%d]' % (f, j)] = z3.If(z3.And(lp, z3.ULE(j, bcn)), F(f, j - 1), F(f, j))
            exp['bcn'] = z3.If(lp, bcn + 1, z3.If(valid, z3.BitVecVal(1, 16), bcn))
            exp['lp'] = z3.If(lp, R['lp'], z3.If(valid, alu.ONE16, R['lp']))
            delta = 4
            must_assert = z3.And(lp, z3.Or(z3.UGT(bcn, 3), z3.Not(valid)))
            sample = 'bkreprst: the four words at the address register become frame 0; when a loop is active the live frames first move up one slot (a fifth level or an invalid saved flag is the deliberate assertion), otherwise a valid saved flag re-enters the loop at depth 1'
        for f in areg:
            exp[f] = z3.If(areg[f], R[f] + delta, R[f]) if len(areg) > 1 else R[f] + delta
        g = [z3.Or(asserts, x) for x in c03.diff_goal(E.post_regs(r['st']), exp, R)[0]] if r['st'] is not None else [asserts]
        if r['st'] is not None:
            g.append(z3.Or(asserts, E.post_dmem(r['st']) == want_mem))
        g += [asserts == must_assert, z3.Not(others), kit.obligations(type('X', (), {'oblig': r['oblig']})())]
        ck.prove('Row[bkrep%s%s]' % (op, '_memsp' if kind == 'memsp' else ''), A, z3.And(*g), vars=c03.vars_of(R, {'o': o, 'e': e}), sample=sample)
    return ck.export()


def job_restorestore(kind, tier, seed):
    """bkreprst ; bkrepsto from an arbitrary state: pushing a saved frame and saving it again is the identity on the
    live frames, depth, flag, address register and memory (the order a task switch *into* a saved context exercises)"""
    E = env()
    ck = core.Check('C09', 'model_checking', tier, seed)
    R = E.R()
    inv = E.inv()
    oa, ea, ob, eb = [z3.BitVec(n, 16) for n in ('o1', 'e1', 'o2', 'e2')]
    if kind == 'memsp':
        ia, ib = find(E, 'bkreprst_memsp', ()), find(E, 'bkrepsto_memsp', ())
        extraB = []
    else:
        ia, ib = find(E, 'bkreprst', ('ArRn2',)), find(E, 'bkrepsto', ('ArRn2',))
        extraB = [fld(E, ib, 0, ob, eb) == fld(E, ia, 0, oa, ea)]
    # a loop is active with room for one more level; the saved frame is valid and canonical (high flag bits as bkrepsto writes them)
    dm0 = E.pre_dmem()
    pre = [R['lp'] == 1, z3.ULE(R['bcn'], 3)]
    try:
        ra, rb = c08.two(E, ck, ia, ib, oa, ea, ob, eb, inv + pre, [], extraB)
    except (Abort, UnwindBound) as x:
        ck.inconclusive.append('bkreprst;bkrepsto %s: %r' % (kind, x))
        return ck.export()
    cons = list(c08.CONS)
    flagw = None
    for ev in (ra['st'].log if ra['st'] is not None else []):
        if ev[0] == 'R':
            flagw = z3.Select(dm0, ev[2])
            break
    if flagw is None or rb is None or rb['st'] is None:
        ck.inconclusive.append('bkreprst;bkrepsto %s: no returning path / no data read logged' % kind)
        return ck.export()
    canon = (flagw & 0x7CFC) == 0
    asserted = kit.exit_cond(type('X', (), {'exits': ra['exits'] + rb['exits']})(), ('assert',))
    post = E.post_regs(rb['st'])
    live = []
    for f in ('start', 'end', 'lc'):
        for j in range(4):
            live.append(z3.Implies(z3.ULT(j, R['bcn']), post['bkrep_stack.%s[%d]' % (f, j)] == R['bkrep_stack.%s[%d]' % (f, j)]))
    skip = tuple(f for f in post if f.startswith('bkrep_stack'))
    g = c08.same_all(E, post, R, skip) + live + [E.post_dmem(rb['st']) == dm0, c08.noexit(rb), kit.obligations(type('X', (), {'oblig': ra['oblig'] + rb['oblig']})())]
    ck.prove('RestoreStore[%s]' % kind, inv + pre + cons + [canon, z3.Extract(15, 15, flagw) == 1], z3.And(*g), vars=c03.vars_of(R, {'o1': oa, 'o2': ob, 'flagword': flagw}),
             sample='bkreprst ; bkrepsto (%s form) inside an active loop with a valid saved frame: the live frames, depth, in-loop flag, address register and data memory are as before' % ('[sp]' if kind == 'memsp' else '[ArRn2]'))
    return ck.export()


def job_lc_view(tier, seed):
    """the loop counter visible to the program (register lc) is the counter of the innermost active block repeat (frame bcn-1
    while a loop is active, frame 0 otherwise): read and write through the real RegToBus16 / RegFromBus16 helpers"""
    E = env()
    ck = core.Check('C09', 'model_checking', tier, seed)
    R = E.R()
    inv = E.inv()
    ex, st0, ctx = E.base()
    LC = c08.REGNAMES.index('lc')

    def inner(f):
        out = R['bkrep_stack.%s[0]' % f]
        for k in (1, 2, 3):
            out = z3.If(z3.And(R['lp'] != 0, R['bcn'] == k + 1), R['bkrep_stack.%s[%d]' % (f, k)], out)
        return out
    A = inv + [z3.Implies(R['lp'] != 0, z3.And(z3.UGE(R['bcn'], 1), z3.ULE(R['bcn'], 4)))]
    ex.exits, ex.oblig = [], []
    r = ex.call(st0.fork(), '@k_reg2bus', [ctx['interp'], LC, 0])
    ck.prove('LoopCounterView.read', A, z3.And(bv(r[1], 16) == inner('lc'), kit.obligations(ex)), vars=c03.vars_of(R),
             sample='reading lc returns the counter of the innermost active block repeat (frame bcn-1), or frame 0 when no loop is active')
    v = z3.BitVec('v', 16)
    s2 = st0.fork()
    ex.exits, ex.oblig = [], []
    r = ex.call(s2, '@k_bus2reg', [ctx['interp'], LC, v])
    post = E.post_regs(r[0])
    exp = dict(R)
    for k in range(4):
        here = z3.If(R['lp'] != 0, R['bcn'] == k + 1, z3.BoolVal(k == 0))
        exp['bkrep_stack.lc[%d]' % k] = z3.If(here, v, R['bkrep_stack.lc[%d]' % k])
    g = c03.diff_goal(post, exp, R)[0] + [kit.obligations(ex)]
    ck.prove('LoopCounterView.write', A, z3.And(*g), vars=c03.vars_of(R, {'v': v}), sample='writing lc changes the counter of the innermost active block repeat and nothing else')
    ck.ninstr += ex.ninstr
    ck.nstates += 2
    return ck.export()


def _dispatch(fn, args):
    return fn(*args)


def run(tier, seed):
    ck = core.Check('C09', 'model_checking', tier, seed)
    E = env()
    ck.funcs.update(['Interpreter::Run (rep / block-repeat bookkeeping, fetch, dispatch)', 'rep (2)', 'rep_r6', 'Repeat', 'bkrep (2)', 'bkrep_r6', 'BlockRepeat', 'break_', 'bkrepsto', 'bkrepsto_memsp', 'bkreprst', 'bkreprst_memsp', 'RegisterState::Lc (through RegToBus16 / RegFromBus16 of lc)',
                     'StoreBlockRepeat', 'RestoreBlockRepeat', 'std::copy / std::copy_backward on the frame array', 'moda4 (inc)', 'alu (add #imm16)', 'nop'])
    ck.assumptions += ['one-step obligations: Inv, prpage == 0, ie == 0, pc < 0x3FFFE, the dispatched instruction is a one-word nop (it must not touch loop state - instructions that do are the row-level obligations)',
                       'decoders[opcode] inside Run is answered from the real decode table (unique matching row; C02 proves Decode<Interpreter> returns it)',
                       'whole programs: fixed small bodies (inc a0; add #imm16,a0) with symbolic register/flag/mode state and symbolic immediate; "exactly N+1 executions" for arbitrary N follows from the one-step obligations by induction on the counter (paper)']
    n_max = 3 if tier == 'quick' else 6
    ck.bounds += ['whole programs: counts N = 0..%d enumerated, nesting depth 1..4 with count 1 per level, %s cycles stepped one Run(1) at a time' % (n_max, 'up to 20'), 'one-step and row obligations: no bound on values']
    ck.stubs += E.tabulated
    jobs = [(job_step, (k, tier, seed)) for k in ('rep', 'loop', 'both', 'plain')] + [(job_rows, (tier, seed)), (job_lc_view, (tier, seed))]
    jobs += [(job_program, ('rep', n, tier, seed)) for n in range(n_max + 1)] + [(job_program, ('bkrep', n, tier, seed)) for n in range(n_max + 1)]
    jobs += [(job_program, ('nested', d, tier, seed)) for d in (1, 2, 3, 4)]
    jobs += [(job_storestore, (k, tier, seed)) for k in ('memsp', 'arrn')]
    jobs += [(job_frame_rows, (k, tier, seed)) for k in ('memsp', 'arrn')] + [(job_restorestore, (k, tier, seed)) for k in ('memsp', 'arrn')]
    for r in core.pmap(_dispatch, jobs):
        if '__error__' in r:
            ck.engine_errors.append(r['__error__'])
        else:
            ck.absorb(r)
    for r in core.pmap(job_val, [(find(E, n, t), seed) for n, t in (('rep', ('Imm8',)), ('bkrep', ('Imm8', 'Address16')), ('bkrepsto_memsp', ()), ('bkreprst_memsp', ()))]):
        if '__error__' in r:
            ck.engine_errors.append(r['__error__'])
        else:
            ck.absorb(r)
    return ck.finish('loop controller one-step obligations, loop instruction rows, bounded whole programs vs unrolled bodies, frame store/restore round trip')


def job_val(i, seed):
    return interp.validate_row(env(), i, seed, 'C09', 'model_checking')
