"""C01 — instruction effects match the hardware-validated reference semantics.
Clause A: every row of the current decode table, dispatched through the real Matcher::call from an arbitrary
well-formed state, against the same row of the frozen reference interpreter (/verif/ref = pinned upstream sources).
Clause B (generator vectors): see gen part below."""
import hashlib, random, re, os, time, ctypes
import z3
from engine import build, kit, core, native
from engine.kit import Ptr, bv, is_c
from engine.llsym import DEAD, Abort, UnwindBound
from checks import interp

_E = {}
NEVER_RETURN = ('trap', 'retd', 'retid', 'retidc', 'mov_dvm', 'mov_dvm_to', 'undefined')


def envs():
    if not _E:
        _E['cur'] = interp.IEnv('cur')
        _E['ref'] = interp.IEnv('ref')
        _E['cur'].base()
        _E['ref'].base()
    return _E['cur'], _E['ref']


# ------------------------------------------------------------------------------------------------ closure hashing
def _callees(fn):
    out = set()

    def scan(op):
        if isinstance(op, tuple):
            if len(op) == 2 and op[0] == 'g' and isinstance(op[1], str):
                out.add(op[1])
            for x in op:
                if isinstance(x, (tuple, list)):
                    scan(x)
        elif isinstance(op, list):
            for x in op:
                scan(x)
    for ins in fn.blocks.values():
        for x in ins:
            scan(x)
    return out


class Hasher:
    def __init__(s, env):
        s.env, s.mod = env, env.mod
        s.fh, s.cl = {}, {}
        s.root = env.root.encode()

    def body(s, name):
        if name in s.fh:
            return s.fh[name]
        m = s.mod
        name = m.aliases.get(name, name)
        if name in m.funcs:
            fn = m.funcs[name]
            h = hashlib.sha1(repr((fn.params, [(lb, fn.blocks[lb]) for lb in fn.order])).encode()).hexdigest()
            deps = _callees(fn)
        elif name in m.globals:
            t, init, const = m.globals[name]
            txt = repr((t, init, const)).encode().replace(s.root, b'<tree>')
            h = hashlib.sha1(txt).hexdigest()
            deps = set()

            def scan(op):
                if isinstance(op, tuple):
                    if len(op) == 2 and op[0] == 'g' and isinstance(op[1], str):
                        deps.add(op[1])
                    for x in op:
                        if isinstance(x, (tuple, list)):
                            scan(x)
                elif isinstance(op, list):
                    for x in op:
                        scan(x)
            scan(init)
        else:
            h, deps = 'decl:' + name, set()
        s.fh[name] = (h, deps)
        return s.fh[name]

    def closure(s, roots):
        seen, todo = {}, list(roots)
        while todo:
            n = todo.pop()
            n = s.mod.aliases.get(n, n)
            if n in seen:
                continue
            h, deps = s.body(n)
            seen[n] = h
            todo.extend(deps)
        return hashlib.sha1(repr(sorted(seen.items())).encode()).hexdigest(), seen


def row_roots(env, row):
    """functions a row's dispatch can reach: Matcher::call, the std::function invoker stored in the row, the handler
    member function stored in the Proxy functor"""
    ex, st, ctx = env.base()
    mp = row['ptr']
    roots = ['@callm']
    inv = ex.load(st, Ptr(mp.r, mp.o + 16 + 24), 8)
    if isinstance(inv, Ptr) and inv.r == 'F':
        roots.append(ex.fbyid[inv.o])
    h = ex.load(st, Ptr(mp.r, mp.o + 16), 8)
    if isinstance(h, Ptr) and h.r == 'F':
        roots.append(ex.fbyid[h.o])
    elif is_c(h) and (h >> 4) in ex.fbyid and h < (1 << 32):
        roots.append(ex.fbyid[h >> 4])
    return roots


# ------------------------------------------------------------------------------------------------ one row, two trees
def exit_class(r, cls):
    cs = [kit.path_cond(p) for p, k, _ in r['exits'] if k == cls]
    if not cs:
        return z3.BoolVal(False)
    return z3.Or(*cs) if len(cs) > 1 else cs[0]


def run_both(i, j, o, e, A):
    C, Rf = envs()
    rc = C.run_row(i, o, e, A)
    rr = Rf.run_row(j, o, e, A)
    return rc, rr


def compare(ck, name, i, j, o, e, A, rc, rr, sample=None):
    C, Rf = envs()
    ck.ninstr += rc['ninstr'] + rr['ninstr']
    ck.nstates += 2
    row = C.rows[i]
    anyexit_c = z3.Or(*[exit_class(rc, k) for k in ('assert', 'throw', 'abort', 'trap', 'ub')])
    anyexit_r = z3.Or(*[exit_class(rr, k) for k in ('assert', 'throw', 'abort', 'trap', 'ub')])
    goals, diffs = [], []
    if rr['st'] is not None:
        if rc['st'] is None:
            goals.append(anyexit_r)           # the reference completes on some input, current never does
            diffs.append('current never returns normally')
        else:
            pc_, pr_ = C.post_regs(rc['st']), Rf.post_regs(rr['st'])
            for f in pr_:
                if f not in pc_:
                    diffs.append(f)
                    goals.append(z3.BoolVal(False))
                    continue
                a, b = pc_[f], pr_[f]
                if a.eq(b):
                    continue
                diffs.append(f)
                goals.append(z3.Or(anyexit_r, a == b))
            ma, mb = C.post_dmem(rc['st']), Rf.post_dmem(rr['st'])
            if not ma.eq(mb):
                diffs.append('dmem')
                goals.append(z3.Or(anyexit_r, ma == mb))
            pa, pb = rc['st'].mem[C.base()[2]['pm']].cells[0][1], rr['st'].mem[Rf.base()[2]['pm']].cells[0][1]
            if not pa.eq(pb):
                diffs.append('pmem')
                goals.append(z3.Or(anyexit_r, pa == pb))
    z3s = z3.simplify
    if not z3s(anyexit_c).eq(z3s(anyexit_r)):
        diffs.append('exit condition')
        goals.append(z3.Implies(z3.Not(anyexit_r), z3.Not(anyexit_c)))
    # executor side conditions (array index in range etc.) belong to C18; here both trees have the same ones
    if not goals:
        ck.identical(name, sample=sample)
        return True
    vars_ = {'o': o, 'e': e}
    Rv = C.R()
    vars_.update({'r.' + f: t for f, t in Rv.items()})
    dm0 = C.pre_dmem()
    reads = []
    for st_ in (rc['st'], rr['st']):
        if st_ is not None:
            for ev in st_.log:
                if ev[0] == 'R':
                    reads.append(ev[2])
    for k_, ad in enumerate(reads[:24]):
        vars_['rd%d.addr' % k_] = ad
        vars_['rd%d.val' % k_] = z3.Select(dm0, ad)

    def rp(inputs):
        return replay_row(i, j, inputs)
    return ck.prove(name, A, z3.And(*goals), vars=vars_, replay=rp, sample=(sample or '') + ' [differing cells: %s]' % ','.join(diffs[:8]))


_twins = {}


def replay_row(i, j, inputs):
    C, Rf = envs()
    if 'cur' not in _twins:
        _twins['cur'] = interp.Twin(C)
        _twins['ref'] = interp.Twin(Rf)
    regs = {k[2:]: v for k, v in inputs.items() if k.startswith('r.')}
    mem = {}
    k_ = 0
    while 'rd%d.addr' % k_ in inputs:
        mem.setdefault(inputs['rd%d.addr' % k_], inputs['rd%d.val' % k_])
        k_ += 1
    a = _twins['cur'].run_row(i, inputs['o'], inputs['e'], regs, list(mem.items()))
    b = _twins['ref'].run_row(j, inputs['o'], inputs['e'], regs, list(mem.items()))
    if b[0] != 'ok' or b[1]['unimpl']:
        return False, {'note': 'reference does not complete on this input', 'ref': b[0]}
    if a[0] != 'ok':
        return True, {'current': 'aborts (%r)' % (a,), 'reference': 'completes'}
    if a[1]['unimpl']:
        return True, {'current': 'reports unimplemented', 'reference': 'completes'}
    d = {f: (a[1]['regs'][f], b[1]['regs'].get(f)) for f in a[1]['regs'] if a[1]['regs'][f] != b[1]['regs'].get(f)}
    dm = {ad: (a[1]['dmem'].get(ad), b[1]['dmem'].get(ad)) for ad in set(a[1]['dmem']) | set(b[1]['dmem']) if a[1]['dmem'].get(ad) != b[1]['dmem'].get(ad)}
    pa, pb = a[1].get('pmem', {}), b[1].get('pmem', {})
    pm = {ad: (pa.get(ad), pb.get(ad)) for ad in set(pa) | set(pb) if pa.get(ad) != pb.get(ad)}
    wr = (a[1].get('writes'), b[1].get('writes')) if a[1].get('writes') != b[1].get('writes') else None
    return bool(d or dm or pm or wr), {'regs (current, reference)': d, 'dmem (current, reference)': dm, 'program memory (current, reference)': pm, 'memory writes (space, address, value) (current, reference)': wr}


def match_rows(C, Rf):
    """cur row index -> ref row index (same name/mask/expected/expanded/rejectors), None if the table changed there"""
    key = lambda r: (r['name'], r['mask'], r['expected'], r['expanded'], tuple(r['rejectors']))
    byk = {}
    for r in Rf.rows:
        byk.setdefault(key(r), []).append(r['i'])
    used = set()
    out = {}
    for r in C.rows:
        c = [x for x in byk.get(key(r), []) if x not in used]
        # prefer the same ordinal among duplicates (overloaded handlers share names but not patterns)
        if c:
            out[r['i']] = c[0]
            used.add(c[0])
        else:
            out[r['i']] = None
    return out


def job_row(i, j, tier, seed):
    C, Rf = envs()
    ck = core.Check('C01', 'translation_validation', tier, seed)
    o = z3.BitVec('o', 16)
    e = z3.BitVec('e', 16)
    row = C.rows[i]
    A = C.inv() + [C.match_pred(row, o)]
    t0 = time.time()
    try:
        rc, rr = run_both(i, j, o, e, A)
    except (Abort, UnwindBound) as x:
        ck.inconclusive.append('row %d %s: executor stopped: %r' % (i, row['name'], x))
        return ck.export()
    compare(ck, 'RowEquiv[%d %s]' % (i, row['name']), i, j, o, e, A, rc, rr,
            sample='row %d (%s, mask %#06x expected %#06x): o in row, e, RegisterState under Inv and data memory symbolic; current vs reference post-registers, memory and exit class' % (i, row['name'], row['mask'], row['expected']))
    return ck.export()


def changed_rows():
    """row indexes of the current tree whose handler IR closure differs from (or that have no counterpart in) the pinned reference"""
    C, Rf = envs()
    mr = match_rows(C, Rf)
    hc, hr = Hasher(C), Hasher(Rf)
    out = []
    for r in C.rows:
        j = mr[r['i']]
        if j is None or hc.closure(row_roots(C, r))[0] != hr.closure(row_roots(Rf, Rf.rows[j]))[0]:
            out.append(r['i'])
    return out


def run(tier, seed):
    ck = core.Check('C01', 'translation_validation', tier, seed)
    C, Rf = envs()
    n = len(C.rows)
    ck.funcs.update(['Matcher<Interpreter>::call', 'std::function invoker', 'MatcherCreator::Proxy::operator()', 'At<>::Extract', 'every Interpreter handler reachable from the %d table rows and their helpers (both trees)' % n])
    ck.assumptions += ['reference = frozen pinned upstream interpreter (/verif/ref), which upstream validated against hardware with test_verifier',
                       'pre-state satisfies Inv (register.h widths); second word and data memory unconstrained',
                       'MemoryInterface::DataRead/DataWrite/ProgramRead/ProgramWrite are SMT-array stubs here (the real ones are C11)']
    ck.stubs += C.tabulated + ['Assert/abort/__cxa_throw/llvm.trap -> exit classes', 'operator new/delete']
    ck.bounds += ['no bound on values (16-bit opcode in row, 16-bit second word, ~700 bytes of register state, 64 Ki-word data memory array)', 'loop unwinding 300 with unwinding check (Exp 39, BitReverse 16, modulo mask 9)']
    o = z3.BitVec('o', 16)
    # --- table level: every opcode selects a row of the same pattern in both tables
    mr = match_rows(C, Rf)
    unmatched = [i for i, j in mr.items() if j is None]
    pc_ = [C.match_pred(r, o) for r in C.rows]
    pr_ = [Rf.match_pred(r, o) for r in Rf.rows]
    if not unmatched and len(C.rows) == len(Rf.rows):
        ck.identical('TableSameAsReference', sample='%d rows: same name/mask/expected/expanded/rejectors as the reference table' % n)
    else:
        goals = []
        for r, p in zip(C.rows, pc_):
            cands = [q for s_, q in zip(Rf.rows, pr_) if s_['name'] == r['name'] and s_['expanded'] == r['expanded']]
            goals.append(z3.Implies(p, z3.Or(*cands) if cands else z3.BoolVal(False)))
        goals.append(z3.Or(*pr_) == z3.Or(*pc_))
        ck.prove('TableSameAsReference', [], z3.And(*goals), vars={'o': o}, witness=False, sample='every opcode decodes to a handler of the same name and length as in the reference; defined/undefined sets equal')
    # --- closure hashes
    hc, hr = Hasher(C), Hasher(Rf)
    changed, same = [], []
    for r in C.rows:
        j = mr[r['i']]
        if j is None:
            continue
        a = hc.closure(row_roots(C, r))
        b = hr.closure(row_roots(Rf, Rf.rows[j]))
        (same if a[0] == b[0] else changed).append(r['i'])
    ck.notes.append('%d rows with IR closure identical to the reference, %d rows whose closure differs' % (len(same), len(changed)))
    rnd = random.Random(seed)
    if tier == 'thorough':
        todo = [i for i in range(n) if mr[i] is not None]
    else:
        sample = [i for i in same if C.rows[i]['name'] not in NEVER_RETURN]
        rnd.shuffle(sample)
        todo = sorted(set(changed) | set(sample[:48]))
        for i in same:
            if i not in todo:
                ck.identical('RowEquiv[%d %s]' % (i, C.rows[i]['name']))
        ck.notes.append('quick tier: rows with identical closure are equal to the reference by construction (same IR, same deterministic executor); %d of them were nevertheless executed in both trees this run (seeded sample)' % len([i for i in todo if i in same]))
    res = core.pmap(job_row, [(i, mr[i], tier, seed) for i in todo])
    for r in res:
        if '__error__' in r:
            ck.engine_errors.append(r['__error__'])
        else:
            ck.absorb(r)
    # --- clause B: every vector the project's test generator can emit
    from checks import c01b
    c01b.run_clause_b(ck, tier, seed, changed)
    # translator validation: executor (all inputs concrete) vs native twin on random rows
    tv_rows = [i for i in todo if C.rows[i]['name'] not in NEVER_RETURN][:(10 if tier == 'quick' else 60)]
    res = core.pmap(job_validate, [(i, seed) for i in tv_rows])
    for r in res:
        if '__error__' in r:
            ck.engine_errors.append(r['__error__'])
        else:
            ck.absorb(r)
    return ck.finish('current interpreter vs frozen reference, row by row over the real decode table')


def job_validate(i, seed):
    C, Rf = envs()
    return interp.validate_row(C, i, seed, 'C01', 'translation_validation')
