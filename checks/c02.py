"""C02 — every opcode decodes one way; all consumers agree on its form and length; unused bits are inert.
Real code: GetDecodeTable<V>() for the three visitors (built by executing the real builder inside the executor), the
real Matcher::Matches, the real Decode<V>, the real Interpreter::Run fetch/dispatch scaffold."""
import re, random, os
import json
import z3
from engine import build, kit, core
from engine.kit import Ptr, bv, is_c
from engine.llsym import DEAD, Abort
from checks import interp

_envs = {}
MS = interp.MATCHER_SIZE


def env():
    if 'i' not in _envs:
        _envs['i'] = interp.IEnv('cur')
        _envs['i'].base()
    return _envs['i']


def other_table(which):
    """decode table of the Disassembler / TestGenerator visitor, built by the real GetDecodeTable<V>() in the executor"""
    key = 't' + which
    if key in _envs:
        return _envs[key]
    ll, h = build.compile_ir('h_%s.cpp' % which)
    mod = build.load_module(ll)
    ex, st = kit.new_exec(mod, unwind=3000)
    interp._install_hashtable_stubs(ex)
    for n in list(mod.decls):
        if n not in ex.intercepts and ('basic_string' in n or 'ios_base' in n):
            pass
    vec = ex.new_region(st, 24, 'vec')
    r = ex.call(st, '@mk_table_' + which, [Ptr(vec, 0)])
    st = r[0]
    b = ex.load(st, Ptr(vec, 0), 8)
    e_ = ex.load(st, Ptr(vec, 8), 8)
    rows = []
    for i in range((e_.o - b.o) // MS):
        mp = Ptr(b.r, b.o + MS * i)
        rb = ex.load(st, Ptr(mp.r, mp.o + 48), 8)
        re_ = ex.load(st, Ptr(mp.r, mp.o + 56), 8)
        rej = []
        if rb.r != 0:
            for k in range((re_.o - rb.o) // 4):
                rej.append((ex.load(st, Ptr(rb.r, rb.o + 4 * k), 2), ex.load(st, Ptr(rb.r, rb.o + 4 * k + 2), 2)))
        rows.append({'i': i, 'ptr': mp, 'name': kit.cstring(ex, st, ex.load(st, mp, 8)), 'mask': ex.load(st, Ptr(mp.r, mp.o + 8), 2),
                     'expected': ex.load(st, Ptr(mp.r, mp.o + 10), 2), 'expanded': ex.load(st, Ptr(mp.r, mp.o + 12), 1), 'rejectors': rej})
    _envs[key] = (mod, ex, st, rows)
    return _envs[key]


def unused_bits():
    """row index -> [bit] from the Unused<k> template arguments of decoder.h (they exist only as template arguments,
    so this one fact is read from the source text; everything else comes from the executed table)"""
    src = open(os.path.join(build.REPO, 'src', 'decoder.h')).read()
    body = src[src.index('std::vector<Matcher<V>> GetDecodeTable()'):]
    out = {}
    idx = -1
    for m in re.finditer(r'^\s*(//)?\s*INST\((\w+),([^\n]*)', body, re.M):
        if m.group(1):
            continue
        idx += 1
        bits = [int(x) for x in re.findall(r'Unused<(\d+)>', m.group(3))]
        if bits:
            out[idx] = (m.group(2), bits)
    return out, idx + 1


def job_matches(lo, hi, tier, seed):
    """A: the data predicate (mask/expected/rejectors read from the Matcher object) equals the real Matcher::Matches IR"""
    E = env()
    ck = core.Check('C02', 'model_checking', tier, seed)
    ex, st0, ctx = E.base()
    o = z3.BitVec('o', 16)
    for i in range(lo, hi):
        row = E.rows[i]
        n0 = ex.ninstr
        r = ex.call(st0.fork(), '@matches', [row['ptr'], o])
        real = r[1]
        real = real if z3.is_bool(real) else (bv(real, 8) != 0)
        ck.prove('Matches[row %d %s]' % (i, row['name']), [], real == E.match_pred(row, o), vars={'o': o}, witness=False,
                 sample='real Matcher::Matches(o) of row %d == ((o & %#06x) == %#06x and no rejector)' % (i, row['mask'], row['expected']) if i < 3 else None)
        ck.ninstr += ex.ninstr - n0
        ck.nstates += 1
    return ck.export()


def job_decode(i, tier, seed):
    """C: real Decode<Interpreter>(o) for o ranging over row i returns row i's matcher; its ASSERT is unreachable"""
    E = env()
    ck = core.Check('C02', 'model_checking', tier, seed)
    ex, st0, ctx = E.base()
    o = z3.BitVec('o', 16)
    row = E.rows[i]
    st = st0.fork()
    st.pc.append(E.match_pred(row, o))
    out = ex.new_region(st, MS, 'decoded')
    ex.exits = []
    n0 = ex.ninstr
    old_unw = ex.unwind
    ex.unwind = 2000
    # inside Decode the 2 x 443 calls of Matcher::Matches are answered by the data predicate of the object they are
    # called on, which obligation Matches[row] proved equal to the real IR for exactly these field values (objects whose
    # fields are not among the proven 443 valuations fall through to the real function)
    proven = {(r_['mask'], r_['expected'], tuple(r_['rejectors'])) for r_ in E.rows}
    mname_ = [n for n in E.mod.funcs if n.startswith('@_ZNK7MatcherIN6Teakra11InterpreterEE7MatchesEt')]

    def fast_matches(e, st_, a):
        mp = a[0]
        if isinstance(mp, Ptr) and not mp.sym:
            mask, exp_ = e.load(st_, Ptr(mp.r, mp.o + 8), 2), e.load(st_, Ptr(mp.r, mp.o + 10), 2)
            rb, re_ = e.load(st_, Ptr(mp.r, mp.o + 48), 8), e.load(st_, Ptr(mp.r, mp.o + 56), 8)
            rej = []
            if isinstance(rb, Ptr) and rb.r != 0:
                rej = [(e.load(st_, Ptr(rb.r, rb.o + 4 * k), 2), e.load(st_, Ptr(rb.r, rb.o + 4 * k + 2), 2)) for k in range((re_.o - rb.o) // 4)]
            if is_c(mask) and is_c(exp_) and (mask, exp_, tuple(rej)) in proven:
                return st_, E.match_pred({'mask': mask, 'expected': exp_, 'rejectors': rej}, bv(a[1], 16))
        return e.call_plain(st_, mname_[0], a)
    for n_ in mname_:
        ex.intercepts[n_] = fast_matches
    try:
        r = ex.call(st, '@decode1', [Ptr(out, 0), o])
    finally:
        ex.unwind = old_unw
        for n_ in mname_:
            ex.intercepts.pop(n_, None)
    goals = [z3.Not(kit.exit_cond(ex))]
    if r is None or r is DEAD:
        goals = [z3.BoolVal(False)]
    else:
        s1 = r[0]
        nm = ex.load(s1, Ptr(out, 0), 8)
        same_name = isinstance(nm, Ptr) and not nm.sym and kit.cstring(ex, s1, nm) == row['name']
        goals += [z3.BoolVal(bool(same_name)), bv(ex.load(s1, Ptr(out, 8), 2), 16) == row['mask'], bv(ex.load(s1, Ptr(out, 10), 2), 16) == row['expected'],
                  bv(ex.load(s1, Ptr(out, 12), 1), 8) == row['expanded']]
    ck.prove('Decode[row %d %s]' % (i, row['name']), [E.match_pred(row, o)], z3.And(*goals), vars={'o': o},
             sample='real Decode<Interpreter>(o), o anywhere in row %d (%s): returns that row (name/mask/expected/expanded), the uniqueness ASSERT is unreachable' % (i, row['name']))
    ck.ninstr += ex.ninstr - n0
    ck.nstates += 1
    return ck.export()


def job_run(lo, hi, tier, seed):
    """E: Run(1) fetch/dispatch scaffold per row: #program reads == 1 + expanded, operand word is what the handler gets,
    and the next fetch never lands on an operand word (rep and block-repeat state symbolic)."""
    E = env()
    ck = core.Check('C02', 'model_checking', tier, seed)
    ex, st0, ctx = E.base()
    R = E.R()
    regs = ctx['regs']
    vecname = [n for n in E.mod.funcs if n.startswith('@_ZNKSt6vectorI7MatcherIN6Teakra11InterpreterEE') and n.endswith('ixEm')]
    sel = {}

    def vecidx(e, st_, a):
        st_.log.append(('DEC', list(st_.pc), a[1]))
        return st_, sel['ptr']
    for n in vecname:
        ex.intercepts[n] = vecidx
    callm_log = []
    inv = E.inv()
    pm = st0.mem[ctx['pm']].cells[0][1]
    pc = R['pc']
    # the program page register is symbolic: both words of an instruction are fetched from page prpage (address bits 18..21)
    pgbits = z3.ZeroExt(32 - R['prpage'].size(), R['prpage']) << 18
    o = z3.Select(pm, pc | pgbits)
    pre = inv + [z3.ULT(pc, 0x3FFFE)]
    for i in range(lo, hi):
        row = E.rows[i]
        if row['name'] in ('trap', 'retd', 'retid', 'retidc', 'mov_dvm', 'mov_dvm_to'):
            continue
        sel['ptr'] = row['ptr']
        # the handler itself is abstracted: we only observe what it is called with
        seen = {}

        def handler(e, st_, a, seen=seen):
            st_.log.append(('CALL', list(st_.pc), a[2], a[3]))
            return st_, None
        callm_name = [n for n in E.mod.funcs if '4callERS1_tt' in n and 'MatcherIN6Teakra11InterpreterEE' in n]
        for n in callm_name:
            ex.intercepts[n] = handler
        st = st0.fork()
        # a single-instruction repeat of a two-word instruction is outside the architecture's contract (C09)
        A = pre + [E.match_pred(row, o)] + ([R['rep'] == 0] if row['expanded'] else [])
        st.pc += A
        ex.exits = []
        n0 = ex.ninstr
        try:
            r = ex.call(st, '@runn', [ctx['interp'], 1])
        finally:
            for n in callm_name:
                ex.intercepts.pop(n, None)
        if r is None or r is DEAD:
            ck.engine_errors.append('Run(1) scaffold row %d: no normal return' % i)
            continue
        s1 = r[0]
        reads = kit.events(s1, 'P')
        calls = kit.events(s1, 'CALL')
        decs = kit.events(s1, 'DEC')
        nreads = kit.count_events(s1, 'P')
        exp = 1 + row['expanded']
        goals = [nreads == exp, z3.Not(kit.exit_cond(ex, ('assert', 'abort', 'trap')))]
        if len(reads) >= 1:
            goals.append(bv(reads[0][1], 32) == (pc | pgbits))
        if row['expanded'] and len(reads) >= 2:
            goals.append(bv(reads[1][1], 32) == ((pc + 1) | pgbits))
        if len(calls) == 1:
            goals.append(calls[0][0])
            goals.append(bv(calls[0][1], 16) == o)
            if row['expanded'] and len(reads) >= 2:
                goals.append(bv(calls[0][2], 16) == z3.Select(pm, (pc + 1) | pgbits))
        else:
            goals.append(z3.BoolVal(False))
        if len(decs) == 1:
            goals.append(z3.ZeroExt(48, o) == bv(decs[0][1], 64))
        # with the handler abstracted (no branch), no loop end and no interrupt taken: pc' = pc + 1 + expanded
        post_pc = bv(ex.load(s1, Ptr(regs.rid, E.rl['pc'][0]), 4), 32)
        straight = z3.And(R['lp'] == 0, R['ie'] == 0, R['rep'] == 0)
        goals.append(z3.Implies(straight, post_pc == pc + exp))
        # in general the next fetch address is an instruction boundary: the same instruction again (repeat pending), the
        # word after this instruction, or the start of the innermost block when this instruction closes it with iterations
        # left - never the operand word of this instruction or of the bkrep that opened the block (start - 1)
        def frame(f):
            out = R['bkrep_stack.%s[3]' % f]
            for k in range(2, -1, -1):
                out = z3.If(R['bcn'] == k + 1, R['bkrep_stack.%s[%d]' % (f, k)], out)
            return out
        nxt = z3.If(z3.And(R['rep'] != 0, R['repc'] != 0), pc, pc + exp)
        closes = z3.And(R['lp'] != 0, frame('end') + 1 == nxt)
        goals.append(z3.Implies(R['ie'] == 0, post_pc == z3.If(z3.And(closes, frame('lc') != 0), frame('start'), nxt)))
        ck.prove('Run.length[row %d %s]' % (i, row['name']), A, z3.And(*goals), vars=dict({'pc': pc, 'opcode': o, 'second': z3.Select(pm, (pc + 1) | pgbits), 'prpage': R['prpage']}, **{'r.' + f: R[f] for f in R if f in ('rep', 'repc', 'lp', 'bcn', 'ie') or f.startswith('bkrep_stack')}),
                 sample=('Run(1) with pmem[pc] in row %d (%s): %d program read(s) at pc%s, decoders[opcode] indexed by the fetched word, handler called with (opcode%s); straight-line pc advances by %d so the operand word is never fetched as an instruction'
                         % (i, row['name'], exp, ', pc+1' if row['expanded'] else '', ', pmem[pc+1]' if row['expanded'] else '', exp)) if i % 40 == 0 else None)
        ck.ninstr += ex.ninstr - n0
        ck.nstates += 1
    for n in vecname:
        ex.intercepts.pop(n, None)
    return ck.export()


def job_unused(i, name, bits, tier, seed):
    """F: flipping an Unused<k> bit changes neither matching nor the instruction's effect"""
    E = env()
    ck = core.Check('C02', 'model_checking', tier, seed)
    ex, st0, ctx = E.base()
    o = z3.BitVec('o', 16)
    e = z3.BitVec('e', 16)
    row = E.rows[i]
    if row['name'] != name:
        ck.engine_errors.append('decoder.h INST order does not match the executed table at row %d: %s vs %s' % (i, name, row['name']))
        return ck.export()
    A = E.inv() + [E.match_pred(row, o)]
    try:
        r = E.run_row(i, o, e, A)
    except Abort as x:
        ck.inconclusive.append('unused-bit row %d %s: executor stopped: %s' % (i, name, x))
        return ck.export()
    ck.ninstr += r['ninstr']
    ck.nstates += 1
    for k in bits:
        flip = o ^ (1 << k)
        goals = [E.match_pred(row, flip)]
        sub = lambda t: z3.substitute(t, (o, flip)) if z3.is_expr(t) else t
        ndiff = 0
        if r['st'] is not None:
            post = E.post_regs(r['st'])
            for f, t in post.items():
                t2 = sub(t)
                if not t2.eq(t):
                    goals.append(t == t2)
                    ndiff += 1
            dm = E.post_dmem(r['st'])
            dm2 = sub(dm)
            if not dm2.eq(dm):
                goals.append(dm == dm2)
        ec = kit.path_cond([])
        for cls in ('assert', 'throw', 'abort'):
            c = z3.Or(*[kit.path_cond(p) for p, kk, _ in r['exits'] if kk == cls]) if [1 for p, kk, _ in r['exits'] if kk == cls] else z3.BoolVal(False)
            c2 = sub(c)
            if not c2.eq(c):
                goals.append(c == c2)
        ck.prove('Unused[row %d %s bit %d]' % (i, name, k), A, z3.And(*goals), vars={'o': o, 'e': e},
                 sample='row %d (%s): o and o^%#x match alike and give identical registers, memory and exit class' % (i, name, 1 << k))
    return ck.export()


def run(tier, seed):
    import time
    T0 = time.time()
    def lap(what):
        if os.environ.get('VERIF_DEBUG'):
            print('  [%.1fs] %s' % (time.time() - T0, what), flush=True)
    ck = core.Check('C02', 'model_checking', tier, seed)
    E = env()
    rows = E.rows
    n = len(rows)
    ck.funcs.update(['GetDecodeTable<Interpreter>/<Disassembler>/<TestGenerator> (executed concretely inside the executor: MatcherCreator::Create, Except, std::function, std::vector)',
                     'Matcher<Interpreter>::Matches', 'Decode<Interpreter>', 'Interpreter::Run (fetch/dispatch scaffold)', 'Matcher<Interpreter>::call -> Proxy::operator() -> handlers (unused-bit rows)'])
    ck.bounds += ['16-bit opcode, 16-bit second word, full RegisterState under Inv: no value bound', 'Decode per row: quick tier = rows with EXCEPT clauses + a seeded sample; thorough = every row',
                  'NOT DECIDED: that the assembler (parser.cpp) sees the same form (string/hash-map code, see C05/DESIGN section 3)']
    ck.assumptions += ['Run scaffold: pc < 0x3FFFE, Inv (program page register symbolic; program memory is an unbounded array here - that page != 0 leaves the 0x40000-word memory is the listed C18 finding); handler abstracted to a call event', 'Unused<k> positions are read from decoder.h text (template arguments leave no trace in the IR data)']
    ck.stubs += ['MemoryInterface::ProgramRead -> SMT array select + event', 'std::vector<Matcher>::operator[] on Interpreter::decoders -> the table row under test (decoders[o] is Decode<Interpreter>(o), which is the obligation Decode[row])'] + E.tabulated
    o = z3.BitVec('o', 16)
    jobs = []
    step = (n + 15) // 16
    res = core.pmap(job_matches, [(lo, min(lo + step, n), tier, seed) for lo in range(0, n, step)])
    lap('matches')
    # B: uniqueness and the undefined witness (data predicates, proved equal to the real Matches above)
    preds = [E.match_pred(r, o) for r in rows]
    ck.prove('AtMostOneRowMatches', [], z3.AtMost(*preds, 1), vars={'o': o}, witness=False, sample='for every 16-bit word at most one of the %d table rows matches' % n)
    ck.witness('SomeOpcodeIsUndefined', [z3.Not(z3.Or(*preds))])
    lap('unique')
    # length flag vs declaration: a row needs a second word exactly when its INST line declares an operand at bit position 16
    # (At<..., 16>); the flag every consumer reads (Matcher::NeedExpansion) is computed by MatcherCreator / Matcher::Except
    from spec import forms as _forms
    fl = _forms.rows(build.REPO)
    if len(fl) != n or any(f['name'] != r['name'] for f, r in zip(fl, rows)):
        ck.engine_errors.append('decoder.h INST lines (%d) do not line up with the executed table (%d rows)' % (len(fl), n))
    else:
        wrong = [(r['i'], r['name'], r['expanded']) for f, r in zip(fl, rows) if int(any(op[0] == 'at' and op[2] == 16 for op in f['ops'])) != r['expanded']]
        if not wrong:
            ck.identical('TwoWord.flag', sample='for each of the %d rows the expansion flag of the Matcher object equals "the INST line declares an operand at position 16" (%d two-word rows)' % (n, len([r for r in rows if r['expanded']])))
            ck.results[-1].status = 'unsat'
        else:
            ck.prove('TwoWord.flag', [], z3.BoolVal(False), vars={'first word': z3.BitVecVal(rows[wrong[0][0]]['expected'], 16)}, witness=False,
                     sample='rows whose expansion flag contradicts their declared operands: %s' % ', '.join('%d %s (flag %d)' % w for w in wrong[:6]))
    # D: the three visitors' tables agree row by row (name, mask, expected, expanded, rejectors)
    for which, label in (('dsm', 'Disassembler'), ('gen', 'TestGenerator')):
        mod, ex2, st2, rows2 = other_table(which)
        ck.ninstr += ex2.ninstr
        same = len(rows2) == n and all(all(a[k] == b[k] for k in ('name', 'mask', 'expected', 'expanded', 'rejectors')) for a, b in zip(rows, rows2))
        if same:
            ck.identical('TableAgreement[%s]' % label, sample='%s table: %d rows, each with the same name/mask/expected/expanded/rejectors as the interpreter row of the same index' % (label, n))
        else:
            # express as a solver obligation over the match predicates so that the counterexample is a concrete opcode
            goals = []
            p2 = [E.match_pred(r, o) for r in rows2]
            for a, pa in zip(rows, preds):
                cands = [pb for b, pb in zip(rows2, p2) if b['name'] == a['name'] and b['expanded'] == a['expanded']]
                goals.append(z3.Implies(pa, z3.Or(*cands) if cands else z3.BoolVal(False)))
            for b, pb in zip(rows2, p2):
                cands = [pa for a, pa in zip(rows, preds) if b['name'] == a['name'] and b['expanded'] == a['expanded']]
                goals.append(z3.Implies(pb, z3.Or(*cands) if cands else z3.BoolVal(False)))

            def rp(inputs):
                return None, {'note': 'table comparison is on executed table data; no separate native replay'}
            ck.prove('TableAgreement[%s]' % label, [], z3.And(*goals), vars={'o': o}, witness=False, sample='every opcode selects a row of the same name and length in both tables')
    lap('tables')
    # C: Decode
    rnd = random.Random(seed)
    want = [r['i'] for r in rows if r['rejectors']]
    rest = [r['i'] for r in rows if not r['rejectors']]
    rnd.shuffle(rest)
    want += rest if tier == 'thorough' else rest[:39]
    res += core.pmap(job_decode, [(i, tier, seed) for i in sorted(want)])
    # undefined opcodes decode to the AllMatcher(undefined) entry
    lap('decode')
    # E: Run scaffold
    res += core.pmap(job_run, [(lo, min(lo + step, n), tier, seed) for lo in range(0, n, step)])
    lap('run')
    # F: unused bits
    ub, ninst = unused_bits()
    if ninst != n:
        ck.engine_errors.append('decoder.h has %d INST lines but the executed table has %d rows' % (ninst, n))
    res += core.pmap(job_unused, [(i, nm, bits, tier, seed) for i, (nm, bits) in sorted(ub.items())])
    lap('unused')
    for r in res:
        if '__error__' in r:
            ck.engine_errors.append(r['__error__'])
        else:
            ck.absorb(r)
    # translator validation: the table extracted from executor memory vs the natively compiled table, on all 65536 opcodes
    import ctypes
    from engine import native
    tw = native.Twin(build.compile_so('h_interp.cpp'))
    dec = tw.fn('nm_decode_row', ctypes.c_int, [ctypes.c_uint16])
    nx = tw.fn('nm_row_needexp', ctypes.c_int, [ctypes.c_uint])
    bad = 0
    for oc in range(0x10000):
        m = [r['i'] for r in rows if (oc & r['mask']) == r['expected'] and all((oc & mm) != uu for mm, uu in r['rejectors'])]
        got = dec(oc)
        if (m[0] if len(m) == 1 else (-1 if not m else -2)) != got or (got >= 0 and nx(got) != rows[got]['expanded']):
            bad += 1
    # the 65536-entry table the interpreter really indexes (GetDecoderTable, built by the real code natively): entry o must be
    # the row Decode selects for o. The solver obligations above reason about Decode and stub `decoders[o]` with it; this closes
    # the stub by complete enumeration of the finite domain (the loop that fills the table cannot be unrolled symbolically).
    drow = tw.fn('nm_decoders_row', ctypes.c_int, [ctypes.c_uint16])
    wrong = []
    if tw.fn('nm_decoders_size', ctypes.c_int, [])() != 0x10000:
        wrong.append(('size', tw.fn('nm_decoders_size', ctypes.c_int, [])()))
    else:
        for oc in range(0x10000):
            m = [r['i'] for r in rows if (oc & r['mask']) == r['expected'] and all((oc & mm) != uu for mm, uu in r['rejectors'])]
            want = m[0] if len(m) == 1 else -1
            got = drow(oc)
            if got != want:
                wrong.append((oc, want, got))
    if wrong:
        oc, want, got = wrong[0] if wrong[0][0] != 'size' else (0, 0, wrong[0][1])
        path = os.path.join(core.OUT, 'replay', 'C02-DecoderTable.json')
        os.makedirs(os.path.dirname(path), exist_ok=True)
        with open(path, 'w') as f:
            json.dump({'property': 'C02', 'obligation': 'DecoderTable[o] == Decode(o)', 'inputs': {'opcode': oc}, 'native_replay': {'reproduced': True, 'detail': {'mismatching opcodes': len(wrong), 'first': ['%#06x: Decode selects row %s (%s), Interpreter::decoders holds row %s (%s)' % (o_, w_, rows[w_]['name'] if w_ >= 0 else 'undefined', g_, rows[g_]['name'] if g_ >= 0 else ('undefined' if g_ == -1 else 'no table row')) for o_, w_, g_ in wrong[:8] if o_ != 'size']}}}, f, indent=1)
        ck.violations.append(('DecoderTable[o] == Decode(o)', path))
        ck.results.append(core.Result('DecoderTable[o] == Decode(o)', 'violation', inputs={'opcode': oc}, replay=path, replayed=True))
        print('VIOLATION property=C02 replay=%s' % path, flush=True)
        print('  Interpreter::decoders[%#06x] is not the form Decode selects (%d opcodes differ): the interpreter executes a different form than the disassembler/assembler/generator see' % (oc, len(wrong)), flush=True)
    else:
        ck.results.append(core.Result('DecoderTable[o] == Decode(o)', 'unsat', t=0.0))
        ck.validated += 0x10000
        ck.notes.append('Interpreter::decoders (GetDecoderTable, 65536 entries built by the real code) holds for every first word the row Decode selects: complete native enumeration, not a solver verdict')
    if bad:
        ck.engine_errors.append('table extracted in the executor disagrees with the native table on %d opcodes' % bad)
    else:
        ck.validated += 0x10000
    ck.notes.append('%d rows, %d with EXCEPT clauses, %d two-word rows, %d rows with Unused<> bits' % (n, len([r for r in rows if r['rejectors']]), len([r for r in rows if r['expanded']]), len(ub)))
    return ck.finish('decode uniqueness, Decode<> per row, cross-visitor table agreement, fetch length and unused-bit inertness decided on the real table')
