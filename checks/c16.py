"""C16 — audio FIFO: every queued word is output once, in order, one frame per period; skip == ticks.
Real code: Btdmp::Send/SetTransmitFlush/Tick/Skip/GetMaxSkip/Reset (src/btdmp.h, src/btdmp.cpp) with the real
std::queue<u16> (libstdc++ deque) executed symbolically; queue fill 0..16 by case split."""
import z3, random
from engine import build, kit, core, native
from engine.kit import Ptr, bv

F16 = ['transmit_clock_config', 'transmit_period', 'transmit_timer', 'transmit_enable']
FB = ['transmit_empty', 'transmit_full']
_env = None


class Env:
    def __init__(s):
        ll, s.hash = build.compile_ir('h_btdmp.cpp')
        s.mod = build.load_module(ll)
        s.lay = kit.layout()['Btdmp']
        s.twin = None

    def mk(s, n, unwind=80):
        """Btdmp built by the real constructor + n real Sends of symbolic words; period/timer/enable/clock symbolic"""
        ex, st = kit.new_exec(s.mod, unwind=unwind)
        ct = ex.new_region(st, 24, 'core_timing')
        ex.fill(st, Ptr(ct, 0), 24, 0)
        b = ex.new_region(st, s.lay['_size'][0], 'btdmp')
        bp = Ptr(b, 0)
        ex.call(st, '@bt_ctor', [bp, Ptr(ct, 0)])
        q = [z3.BitVec('q%d' % i, 16) for i in range(n)]
        for v in q:
            ex.call(st, '@bt_send', [bp, v])
        v = {}
        for f in F16:
            v[f] = z3.BitVec(f, 16)
            ex.store(st, Ptr(b, s.lay[f][0]), 2, v[f])
        # callbacks present
        ex.store(st, Ptr(b, s.lay['audio_callback'][0] + 16), 8, Ptr('F', 1))
        ex.store(st, Ptr(b, s.lay['interrupt_handler'][0] + 16), 8, Ptr('F', 1))
        for nme in s.mod.funcs:
            if 'functionIFvSt5arrayIsLm2EEEEclES1_' in nme:
                ex.intercepts[nme] = kit.logger('AUDIO', 1)
            elif nme.endswith('functionIFvvEEclEv'):
                ex.intercepts[nme] = kit.logger('IRQ')
        ex.exits = []
        return ex, st, bp, v, q

    def obs(s, ex, st, bp):
        o = {}
        for f in F16:
            o[f] = bv(ex.load(st, Ptr(bp.r, s.lay[f][0]), 2), 16)
        for f in FB:
            o[f] = bv(ex.load(st, Ptr(bp.r, s.lay[f][0]), 1), 8)
        o['qsize'] = bv(ex.call(st.fork(), '@bt_qsize', [bp])[1], 64)
        return o

    def qat(s, ex, st, bp, i):
        return bv(ex.call(st.fork(), '@bt_qat', [bp, i])[1], 16)

    def run_native(s, n, words, period, timer, enable, clock, ops):
        import ctypes
        if s.twin is None:
            s.twin = native.Twin(build.compile_so('h_btdmp.cpp'))
        tw = s.twin

        def body():
            b = tw.fn('bw_new', ctypes.c_void_p, [])()
            send = tw.fn('bt_send', None, [ctypes.c_void_p, ctypes.c_uint16])
            for w in words[:n]:
                send(b, w)
            tw.fn('bw_set', None, [ctypes.c_void_p, ctypes.c_uint16, ctypes.c_uint16, ctypes.c_uint16])(b, period, timer, enable)
            tw.fn('bt_setclock', None, [ctypes.c_void_p, ctypes.c_uint16])(b, clock)
            tw.fn('bw_clear', None, [])()
            rets = []
            for op in ops:
                if op[0] == 'maxskip':
                    rets.append(tw.fn('bt_maxskip', ctypes.c_uint64, [ctypes.c_void_p])(b))
                elif op[0] == 'skip':
                    tw.fn('bt_skip', None, [ctypes.c_void_p, ctypes.c_uint64])(b, op[1])
                elif op[0] in ('send', 'flush', 'setenable'):
                    tw.fn('bt_' + op[0], None, [ctypes.c_void_p, ctypes.c_uint16])(b, op[1])
                else:
                    tw.fn('bt_' + op[0], None, [ctypes.c_void_p])(b)
            qs = tw.fn('bt_qsize', ctypes.c_uint64, [ctypes.c_void_p])(b)
            qa = tw.fn('bt_qat', ctypes.c_uint16, [ctypes.c_void_p, ctypes.c_uint64])
            nf = tw.fn('bw_nframes', ctypes.c_int, [])()
            fr = tw.fn('bw_frame', ctypes.c_int, [ctypes.c_int, ctypes.c_int])
            return {'timer': tw.fn('bw_timer', ctypes.c_uint16, [ctypes.c_void_p])(b), 'empty': tw.fn('bt_getempty', ctypes.c_uint16, [ctypes.c_void_p])(b),
                    'full': tw.fn('bt_getfull', ctypes.c_uint16, [ctypes.c_void_p])(b), 'queue': [qa(b, i) for i in range(qs)],
                    'frames': [[fr(i, 0), fr(i, 1)] for i in range(min(nf, 64))], 'nframes': nf, 'irq': tw.fn('bw_irq', ctypes.c_int, [])(), 'ret': rets}
        return native.in_child(body)


def frames_of(st, maxn):
    """-> (count bv8, [payload_j i32 for j<maxn]) from the guarded AUDIO log (sequence semantics)"""
    cnt = z3.BitVecVal(0, 8)
    pay = [z3.BitVecVal(0, 32) for _ in range(maxn)]
    for g, p in kit.events(st, 'AUDIO'):
        p = bv(p, 32)
        for j in range(maxn):
            pay[j] = z3.If(z3.And(g, cnt == j), p, pay[j])
        cnt = cnt + z3.If(g, z3.BitVecVal(1, 8), z3.BitVecVal(0, 8))
    return cnt, pay


def INV(v):
    return [z3.UGT(v['transmit_period'], 0), z3.ULT(v['transmit_timer'], v['transmit_period'])]


def job(n, tier, seed):
    global _env
    env = _env or Env()
    ck = core.Check('C16', 'model_checking', tier, seed)
    k = z3.BitVec('k', 64)
    Z8 = lambda x: z3.BitVecVal(x, 8)

    def basevars(v, q):
        d = {'fill': n}
        d.update(v)
        d.update({'q%d' % i: q[i] for i in range(n)})
        return d

    def replay_ops(ops_fn, judge):
        def rp(inputs):
            words = [inputs.get('q%d' % i, 0) for i in range(n)]
            outs = [env.run_native(n, words, inputs['transmit_period'], inputs['transmit_timer'], inputs['transmit_enable'], inputs['transmit_clock_config'], ops) for ops in ops_fn(inputs)]
            bad, why = judge(inputs, outs)
            return bad, {'native': [o[1] if o[0] == 'ok' else o for o in outs], 'why': why}
        return rp

    # ---------------- Send ----------------
    ex, st, bp, v, q = env.mk(n)
    w = z3.BitVec('w', 16)
    r = ex.call(st, '@bt_send', [bp, w])
    o = env.obs(ex, r[0], bp)
    goals = [o[f] == v[f] for f in F16] + [z3.Not(kit.any_event(r[0], 'IRQ')), z3.Not(kit.any_event(r[0], 'AUDIO')), z3.Not(kit.exit_cond(ex))]
    n2 = n + 1 if n < 16 else 16
    goals += [o['qsize'] == n2, o['transmit_empty'] == 0, o['transmit_full'] == Z8(1 if n2 == 16 else 0)]
    for i in range(n):
        goals.append(env.qat(ex, r[0], bp, i) == q[i])
    if n < 16:
        goals.append(env.qat(ex, r[0], bp, n) == w)
    vars_ = basevars(v, q); vars_['w'] = w

    def judge_send(inputs, outs):
        o_ = outs[0]
        if o_[0] != 'ok':
            return True, repr(o_)
        words = [inputs['q%d' % i] for i in range(n)]
        exp = words + ([inputs['w']] if n < 16 else [])
        bad = o_[1]['queue'] != exp or o_[1]['empty'] != 0 or o_[1]['full'] != int(len(exp) == 16) or o_[1]['irq'] or o_[1]['nframes']
        return bool(bad), 'queue/flags after Send differ from spec'
    ck.prove('Send[fill=%d]' % n, [], z3.And(*goals), vars=vars_, replay=replay_ops(lambda i: [[('send', i['w'])]], judge_send),
             sample='Send(w) on a queue holding %d words: %s; flags exact; no event' % (n, 'appended at the tail' if n < 16 else 'dropped, queue unchanged'))
    ck.ninstr += ex.ninstr; ck.nstates += 1

    # ---------------- Flush ----------------
    ex, st, bp, v, q = env.mk(n)
    r = ex.call(st, '@bt_flush', [bp, w])
    o = env.obs(ex, r[0], bp)
    ck.prove('Flush[fill=%d]' % n, [], z3.And(*([o[f] == v[f] for f in F16] + [o['qsize'] == 0, o['transmit_empty'] == 1, o['transmit_full'] == 0,
             z3.Not(kit.any_event(r[0], 'IRQ')), z3.Not(kit.any_event(r[0], 'AUDIO')), z3.Not(kit.exit_cond(ex))])), vars=basevars(v, q),
             sample='flush empties the queue silently (no interrupt, no frame)')
    ck.ninstr += ex.ninstr; ck.nstates += 1

    # ---------------- register writes: enable / clock configuration ----------------
    # a write to the enable register only switches transmission on or off: the frame timer keeps its phase (a period that
    # was half over when transmission was switched off is half over when it is switched on again), the queue and the flags
    # are untouched, nothing is emitted. The clock configuration register is plain storage.
    for entry, field in (('@bt_setenable', 'transmit_enable'), ('@bt_setclock', 'transmit_clock_config')):
        ex, st, bp, v, q = env.mk(n)
        r = ex.call(st, entry, [bp, w])
        o = env.obs(ex, r[0], bp)
        goals = [o[f] == (w if f == field else v[f]) for f in F16] + [o['qsize'] == n, o['transmit_empty'] == Z8(1 if n == 0 else 0), o['transmit_full'] == Z8(1 if n == 16 else 0),
                                                                    z3.Not(kit.any_event(r[0], 'IRQ')), z3.Not(kit.any_event(r[0], 'AUDIO')), z3.Not(kit.exit_cond(ex))]
        goals += [env.qat(ex, r[0], bp, i) == q[i] for i in range(n)]
        vars_ = basevars(v, q); vars_['w'] = w
        ck.prove('RegisterWrite[%s fill=%d]' % (field, n), [], z3.And(*goals), vars=vars_,
                 sample='writing %s changes that register only: frame timer, period, queue and flags keep their values, no frame and no interrupt' % field if n == 3 else None)
        ck.ninstr += ex.ninstr; ck.nstates += 1

    # ---------------- Tick (three cases; the case conditions partition the state space) ----------------
    def spec_frame(q_, n_):
        s0 = q_[0] if n_ >= 1 else z3.BitVecVal(0, 16)
        s1 = q_[1] if n_ >= 2 else z3.BitVecVal(0, 16)
        return z3.Concat(s1, s0), max(n_ - 2, 0), (1 <= n_ <= 2)

    def judge_tick(inputs, outs):
        o_ = outs[0]
        if o_[0] != 'ok':
            return True, repr(o_)
        o_ = o_[1]
        words = [inputs['q%d' % i] for i in range(n)]
        per, tim, en = inputs['transmit_period'], inputs['transmit_timer'], inputs['transmit_enable']
        if en == 0:
            exp = dict(timer=tim, queue=words, frames=[], irq=0)
        elif tim + 1 < per:
            exp = dict(timer=tim + 1, queue=words, frames=[], irq=0)
        else:
            exp = dict(timer=0, queue=words[2:], frames=[[(words + [0, 0])[0], (words + [0, 0])[1]]], irq=int(1 <= n <= 2))
        bad = [kk for kk in ('timer', 'queue', 'frames', 'irq') if o_[kk] != exp[kk]]
        if o_['empty'] != int(len(exp['queue']) == 0) or o_['full'] != int(len(exp['queue']) == 16):
            bad.append('flags')
        return bool(bad), 'Tick differs from spec in %s (expected %r)' % (bad, exp)

    for case in ('disabled', 'count', 'frame'):
        ex, st, bp, v, q = env.mk(n)
        per, tim, en = v['transmit_period'], v['transmit_timer'], v['transmit_enable']
        C = {'disabled': [en == 0], 'count': [en != 0, z3.ULT(tim + 1, per)], 'frame': [en != 0, z3.UGE(tim + 1, per)]}[case]
        A = INV(v) + C
        st.pc += A
        r = ex.call(st, '@bt_tick', [bp])
        o = env.obs(ex, r[0], bp)
        cnt, pay = frames_of(r[0], 2)
        irqs = kit.count_events(r[0], 'IRQ')
        goals = [o[f] == v[f] for f in F16 if f != 'transmit_timer'] + [z3.Not(kit.exit_cond(ex))]
        if case == 'disabled':
            goals += [o['transmit_timer'] == tim, cnt == 0, irqs == 0, o['qsize'] == n]
            nn = n
        elif case == 'count':
            goals += [o['transmit_timer'] == tim + 1, cnt == 0, irqs == 0, o['qsize'] == n]
            nn = n
        else:
            fr, nn, irq = spec_frame(q, n)
            goals += [o['transmit_timer'] == 0, cnt == 1, pay[0] == fr, irqs == (1 if irq else 0), o['qsize'] == nn]
        goals += [o['transmit_empty'] == Z8(1 if nn == 0 else 0), o['transmit_full'] == Z8(1 if nn == 16 else 0)]
        for i in range(nn):
            goals.append(env.qat(ex, r[0], bp, i) == q[i + (n - nn)])
        goals += INV({**v, 'transmit_timer': o['transmit_timer']})
        ck.prove('Tick.%s[fill=%d]' % (case, n), A, z3.And(*goals), vars=basevars(v, q), replay=replay_ops(lambda i: [[('tick',)]], judge_tick),
                 sample={'disabled': 'transmit disabled: Tick is the identity', 'count': 'timer+1 < period: only the timer advances',
                         'frame': 'timer+1 == period: exactly one frame made of the two oldest words (zeros for missing), they are popped in order, flags exact, empty interrupt iff a pop empties the queue; invariant timer<period re-established'}[case])
        ck.ninstr += ex.ninstr; ck.nstates += 1

    # ---------------- Skip: closed form for k=0; step lemma for 1<=k<=horizon ----------------
    def judge_lemma(inputs, outs):
        a, b = outs
        if a[0] != 'ok' or b[0] != 'ok':
            return True, 'abort %r %r' % (a, b)
        a, b = a[1], b[1]
        bad = [kk for kk in ('timer', 'queue', 'frames', 'nframes', 'full', 'empty') if a[kk] != b[kk]]
        if b['irq']:
            bad.append('interrupt inside the horizon')
        if b['ret'] and b['ret'][0] < inputs['k'] - 1:
            bad.append('horizon after one tick %d < k-1' % b['ret'][0])
        return bool(bad), 'Skip(k) vs Tick;Skip(k-1): %s' % bad

    # case split: c = number of frames inside the skip (concrete), tick case (the first tick makes a frame or not).
    # Inside a case every udiv/urem of Skip has a constant quotient; the executor asks the division oracle, which
    # proves the premise of the Euclidean division theorem (q*B <= A < (q+1)*B, B > 0) under pc with z3 before rewriting
    # udiv(A,B) -> q and urem(A,B) -> A - q*B (sound rewrite; the theorem itself is the trusted arithmetic fact).
    cmax = (n + 1) // 2 - 1 if n > 0 else 3
    oracle_stats = {'proved': 0, 'failed': 0}

    def make_oracle(cands):
        cache = {}

        def oracle(ex_, st_, op, bits, A_, B_):
            A_, B_ = bv(A_, bits), bv(B_, bits)
            key = (A_.get_id(), B_.get_id(), len(st_.pc))
            if key not in cache:
                cache[key] = None
                for qc in cands:
                    if qc < 0:
                        continue
                    Q = z3.BitVecVal(qc, bits)
                    # Euclidean division theorem: B > 0 and q*B <= A < (q+1)*B (no overflow: computed 8 bits wider)
                    # imply A udiv B == q and A urem B == A - q*B.  The premise is linear and decided by z3 under pc.
                    Aw, Bw = z3.ZeroExt(8, A_), z3.ZeroExt(8, B_)
                    prem = z3.And(B_ != 0, z3.ULE(qc * Bw, Aw), z3.ULT(Aw, (qc + 1) * Bw))
                    sv = z3.Solver()
                    sv.set('timeout', 20000)
                    sv.add(*st_.pc)
                    sv.add(z3.Not(prem))
                    res = 'unsat' if sv.check() == z3.unsat else 'unknown'
                    if res == 'unsat':
                        cache[key] = Q
                        oracle_stats['proved'] += 1
                        break
                if cache[key] is None:
                    oracle_stats['failed'] += 1
            Q = cache[key]
            if Q is None:
                return None
            return Q if op == 'udiv' else A_ - Q * B_
        return oracle

    if n > 0:
        # the case split is complete: inside the reported horizon a skip spans at most cmax frames
        ex, st, bp, v, q = env.mk(n, unwind=40)
        per, tim, en = v['transmit_period'], v['transmit_timer'], v['transmit_enable']
        A = INV(v) + [en != 0]
        st.pc += A
        ms = bv(ex.call(st.fork(), '@bt_maxskip', [bp])[1], 64)
        vars_ = basevars(v, q); vars_['k'] = k
        ck.prove('Skip.horizon_cases_cover[fill=%d]' % n, A + [z3.UGE(k, 1), z3.ULE(k, ms)],
                 z3.And(z3.ULT(k, 1 << 40), z3.ULT(z3.ZeroExt(48, tim) + k, (cmax + 1) * z3.ZeroExt(48, per))), vars=vars_,
                 replay=replay_ops(lambda i: [[('skip', i['k'])], [('tick',), ('maxskip',), ('skip', i['k'] - 1)]], judge_lemma),
                 sample='fill %d: every k <= GetMaxSkip() keeps the skip within %d frame(s), i.e. the horizon stops before the frame that empties the queue (so the frame-count case split below is exhaustive)' % (n, cmax))
        ck.ninstr += ex.ninstr; ck.nstates += 1
    for c in range(0, cmax + 1):
        for tcase in ('noframe', 'frame'):
            if tcase == 'frame' and c == 0:
                continue
            ex, st, bp, v, q = env.mk(n, unwind=40)
            ex.div_oracle = make_oracle([c, c - 1])
            per, tim, en = v['transmit_period'], v['transmit_timer'], v['transmit_enable']
            P, T = z3.ZeroExt(48, per), z3.ZeroExt(48, tim)
            A = INV(v) + [en != 0]
            st.pc += A
            ms = bv(ex.call(st.fork(), '@bt_maxskip', [bp])[1], 64)
            pre = [z3.UGE(k, 1), z3.ULE(k, ms), z3.ULT(k, 1 << 40), z3.UGE(T + k, c * P), z3.ULT(T + k, (c + 1) * P),
                   (z3.ULT(tim + 1, per) if tcase == 'noframe' else tim + 1 == per)]
            sa = st.fork(); sa.pc += pre
            ra = ex.call(sa, '@bt_skip', [bp, k])
            oa = env.obs(ex, ra[0], bp)
            ca, pa = frames_of(ra[0], 9)
            sb = st.fork(); sb.pc += pre
            rb = ex.call(sb, '@bt_tick', [bp])
            irq_tick = kit.any_event(rb[0], 'IRQ')
            ms2 = bv(ex.call(rb[0].fork(), '@bt_maxskip', [bp])[1], 64)
            rb2 = ex.call(rb[0], '@bt_skip', [bp, k - 1])
            ob = env.obs(ex, rb2[0], bp)
            cb, pb = frames_of(rb2[0], 9)
            goals = [oa[f] == ob[f] for f in F16 + FB + ['qsize']] + [ca == cb, ca == c, z3.Not(irq_tick), z3.Not(kit.any_event(ra[0], 'IRQ')), z3.Not(kit.any_event(rb2[0], 'IRQ')),
                                                                       z3.UGE(ms2, k - 1), z3.Not(kit.exit_cond(ex))]
            goals += [pa[j] == pb[j] for j in range(c)]
            # frames are the queued words in order, two per frame (zeros when the queue has run dry - only possible for fill 0)
            for j in range(c):
                w0 = q[2 * j] if 2 * j < n else z3.BitVecVal(0, 16)
                w1 = q[2 * j + 1] if 2 * j + 1 < n else z3.BitVecVal(0, 16)
                goals.append(pa[j] == z3.Concat(w1, w0))
            rest = max(n - 2 * c, 0)
            goals.append(oa['qsize'] == rest)
            for i in range(rest):
                goals.append(env.qat(ex, ra[0], bp, i) == q[i + 2 * c])
                goals.append(env.qat(ex, rb2[0], bp, i) == q[i + 2 * c])
            vars_ = basevars(v, q); vars_['k'] = k
            ck.prove('Skip.step_lemma[fill=%d,frames=%d,%s]' % (n, c, tcase), A + pre, z3.And(*goals), vars=vars_,
                     replay=replay_ops(lambda i: [[('skip', i['k'])], [('tick',), ('maxskip',), ('skip', i['k'] - 1)]], judge_lemma),
                     sample='fill %d, skip spanning exactly %d frame(s), first tick %s: Skip(k) and Tick;Skip(k-1) agree on timer, flags, remaining queue and the ordered frames (= queued words 2j,2j+1); no empty-interrupt inside the horizon; horizon shrinks by at most 1' % (n, c, 'makes a frame' if tcase == 'frame' else 'only counts'))
            ck.ninstr += ex.ninstr; ck.nstates += 3
    # thorough: the same lemma without the case split and without the division rewrite (symbolic udiv/urem decided by
    # cvc5 --solve-bv-as-int=sum): an independent cross-check of the Euclid rewrite for small fills
    if tier == 'thorough' and n <= 4:
        maxfr = 3
        ex, st, bp, v, q = env.mk(n, unwind=40)
        per, tim, en = v['transmit_period'], v['transmit_timer'], v['transmit_enable']
        A = INV(v)
        st.pc += A
        ms = bv(ex.call(st.fork(), '@bt_maxskip', [bp])[1], 64)
        pre = [z3.UGE(k, 1), z3.ULE(k, ms), z3.ULT(k, 1 << 40)]
        if n == 0:
            pre.append(z3.ULE(z3.ZeroExt(48, tim) + k, 4 * z3.ZeroExt(48, per) - 1))
        sa = st.fork(); sa.pc += pre
        ra = ex.call(sa, '@bt_skip', [bp, k])
        oa = env.obs(ex, ra[0], bp)
        ca, pa = frames_of(ra[0], maxfr)
        sb = st.fork(); sb.pc += pre
        rb = ex.call(sb, '@bt_tick', [bp])
        irq_tick = kit.any_event(rb[0], 'IRQ')
        ms2 = bv(ex.call(rb[0].fork(), '@bt_maxskip', [bp])[1], 64)
        rb2 = ex.call(rb[0], '@bt_skip', [bp, k - 1])
        ob = env.obs(ex, rb2[0], bp)
        cb, pb = frames_of(rb2[0], maxfr)
        goals = [oa[f] == ob[f] for f in F16 + FB + ['qsize']] + [ca == cb, z3.ULE(ca, maxfr), z3.Not(irq_tick), z3.Not(kit.any_event(ra[0], 'IRQ')),
                                                                   z3.Not(kit.any_event(rb2[0], 'IRQ')), z3.UGE(ms2, k - 1), z3.Not(kit.exit_cond(ex))]
        goals += [z3.Implies(z3.UGT(ca, j), pa[j] == pb[j]) for j in range(maxfr)]
        for i in range(n):
            goals.append(z3.Implies(z3.UGT(oa['qsize'], i), env.qat(ex, ra[0], bp, i) == env.qat(ex, rb2[0], bp, i)))
        vars_ = basevars(v, q); vars_['k'] = k
        ck.prove('Skip.step_lemma.unsplit[fill=%d]' % n, A + pre, z3.And(*goals), vars=vars_, timeout=240,
                 replay=replay_ops(lambda i: [[('skip', i['k'])], [('tick',), ('maxskip',), ('skip', i['k'] - 1)]], judge_lemma),
                 sample='fill %d: unsplit skip lemma with symbolic division (no rewrite), all k <= horizon' % n)
        ck.ninstr += ex.ninstr; ck.nstates += 3
    # disabled transmitter: Skip(k) is the identity for every k (and so is Tick)
    ex, st, bp, v, q = env.mk(n, unwind=40)
    st.pc += [v['transmit_enable'] == 0]
    r = ex.call(st, '@bt_skip', [bp, k])
    o = env.obs(ex, r[0], bp)
    ck.prove('Skip.disabled[fill=%d]' % n, [v['transmit_enable'] == 0], z3.And(*([o[f] == v[f] for f in F16] + [o['qsize'] == n, z3.Not(kit.any_event(r[0], 'AUDIO')), z3.Not(kit.any_event(r[0], 'IRQ'))])),
             vars=basevars(v, q), sample='disabled transmitter: Skip(k) changes nothing for any 64-bit k')
    ck.ninstr += ex.ninstr; ck.nstates += 1
    if oracle_stats['failed']:
        ck.notes.append('fill %d: division oracle could not concretise %d quotient(s) (executor fell back to symbolic division)' % (n, oracle_stats['failed']))
    ck.stats['div_oracle_proved'] = oracle_stats['proved']

    ex, st, bp, v, q = env.mk(n, unwind=40)
    A = INV(v)
    st.pc += A
    r = ex.call(st, '@bt_skip', [bp, 0])
    o = env.obs(ex, r[0], bp)
    goals = [o[f] == v[f] for f in F16] + [o['qsize'] == n, o['transmit_empty'] == Z8(1 if n == 0 else 0), o['transmit_full'] == Z8(1 if n == 16 else 0),
                                           z3.Not(kit.any_event(r[0], 'IRQ')), z3.Not(kit.any_event(r[0], 'AUDIO')), z3.Not(kit.exit_cond(ex))]
    for i in range(n):
        goals.append(env.qat(ex, r[0], bp, i) == q[i])

    def judge_skip0(inputs, outs):
        o_ = outs[0]
        if o_[0] != 'ok':
            return True, repr(o_)
        o_ = o_[1]
        bad = o_['timer'] != inputs['transmit_timer'] or o_['queue'] != [inputs['q%d' % i] for i in range(n)] or o_['nframes'] or o_['irq']
        return bool(bad), 'Skip(0) changed the state'
    ck.prove('Skip.zero[fill=%d]' % n, A, z3.And(*goals), vars=basevars(v, q), replay=replay_ops(lambda i: [[('skip', 0)]], judge_skip0), sample='Skip(0) is the identity')
    ck.ninstr += ex.ninstr; ck.nstates += 1

    # ---------------- Reset ----------------
    if n in (0, 5, 16):
        ex, st, bp, v, q = env.mk(n)
        r = ex.call(st, '@bt_reset', [bp])
        o = env.obs(ex, r[0], bp)
        ck.prove('Reset[fill=%d]' % n, [], z3.And(o['transmit_clock_config'] == 0, o['transmit_period'] == 4096, o['transmit_timer'] == 0, o['transmit_enable'] == 0,
                                                 o['transmit_empty'] == 1, o['transmit_full'] == 0, o['qsize'] == 0), vars=basevars(v, q), sample='Reset gives the constructor state whatever the pre-state')
        ck.ninstr += ex.ninstr; ck.nstates += 1

    # ---------------- translator validation on concrete runs ----------------
    rnd = random.Random(seed * 100 + n)
    for it in range(2 if tier == 'quick' else 8):
        words = [rnd.randrange(65536) for _ in range(n)]
        per = rnd.choice([1, 2, 3, 7, 4096]); tim = rnd.randrange(per); en = rnd.choice([0, 1, 1, 0x8000])
        ex, st, bp, v, q = env.mk(n)
        ex2, st2 = ex, st
        sub = [(x, z3.BitVecVal(y, 16)) for x, y in zip(q, words)] + [(v['transmit_period'], z3.BitVecVal(per, 16)), (v['transmit_timer'], z3.BitVecVal(tim, 16)),
                                                                        (v['transmit_enable'], z3.BitVecVal(en, 16)), (v['transmit_clock_config'], z3.BitVecVal(0, 16))]
        op = rnd.choice(['tick', 'skip'])
        nat_ops = [('tick',)]
        if op == 'tick':
            r = ex.call(st, '@bt_tick', [bp])
        else:
            nat = env.run_native(n, words, per, tim, en, 0, [('maxskip',)])
            kk = rnd.randrange(0, min(nat[1]['ret'][0], 3 * per) + 1)
            nat_ops = [('skip', kk)]
            st.pc += [v['transmit_period'] == per, v['transmit_timer'] == tim, v['transmit_enable'] == en] + [x == y for x, y in zip(q, words)]
            r = ex.call(st, '@bt_skip', [bp, kk])
        if op == 'tick':
            pass
        nat = env.run_native(n, words, per, tim, en, 0, nat_ops)
        o = env.obs(ex, r[0], bp)
        cnt, pay = frames_of(r[0], 4)
        ev = lambda t: z3.simplify(z3.substitute(t, *sub)).as_long()
        got = {'timer': ev(o['transmit_timer']), 'qsize': ev(o['qsize']), 'nframes': ev(cnt), 'empty': ev(o['transmit_empty']), 'full': ev(o['transmit_full'])}
        frames = [[ev(pay[j]) & 0xFFFF, ev(pay[j]) >> 16] for j in range(min(got['nframes'], 4))]
        if nat[0] != 'ok' or nat[1]['timer'] != got['timer'] or len(nat[1]['queue']) != got['qsize'] or nat[1]['nframes'] != got['nframes'] or nat[1]['frames'][:4] != frames \
                or nat[1]['empty'] != got['empty'] or nat[1]['full'] != got['full']:
            ck.engine_errors.append('translator validation mismatch fill=%d %s: exec=%r %r native=%r' % (n, nat_ops, got, frames, nat))
        else:
            ck.validated += 1
    return ck.export()


def run(tier, seed):
    global _env
    ck = core.Check('C16', 'model_checking', tier, seed)
    _env = Env()
    ck.funcs.update(['Teakra::Btdmp::Btdmp', 'Teakra::Btdmp::Send', 'Teakra::Btdmp::SetTransmitFlush', 'Teakra::Btdmp::Tick', 'Teakra::Btdmp::Skip', 'Teakra::Btdmp::GetMaxSkip',
                     'Teakra::Btdmp::Reset', 'std::queue<u16>/std::deque<u16> push/pop/front/empty/size/operator[] (real libstdc++ template bodies)'])
    ck.assumptions += ['state invariant 0 < period and timer < period: holds after construction/Reset (period 4096, timer 0), is re-proved after Tick, and no MMIO-bound or host-reachable operation writes the period (Btdmp::SetTransmitPeriod has no caller in the library), so states violating it are unreachable',
                       'queue built by k real Sends from a freshly constructed queue: the deque read cursor starts at offset 0 of its node (libstdc++ node-boundary paths are trusted, not explored)',
                       'audio callback and interrupt handler installed; their std::function calls are modelled as ordered events']
    ck.stubs += ['std::function<void(std::array<s16,2>)>::operator() -> AUDIO event (payload: the two samples)', 'std::function<void()>::operator() -> IRQ event', 'operator new/delete -> fresh region / no-op', 'printf/puts -> 0']
    ck.bounds += ['queue fill: every value 0..16 (case split, exhaustive for the 16-word queue)', 'words, period, timer, enable word: full 16-bit; k: symbolic 64-bit value with 1 <= k <= GetMaxSkip() (and k < 2^40)',
                  'non-empty queue: at most 8 frames inside a horizon (complete: the horizon stops before the emptying frame); empty queue (horizon infinite): skips spanning at most 3 frames; longer empty-queue skips by the additivity of the lemma (paper)',
                  'loop unwinding 40/80 with the unwinding check (a feasible path reaching the bound aborts the check as inconclusive)']
    fills = list(range(17))
    for res in core.pmap(job, [(n, tier, seed) for n in fills]):
        if '__error__' in res:
            ck.engine_errors.append(res['__error__'])
        else:
            ck.absorb(res)
    return ck.finish('Send/Flush/Tick specifications and the skip lemmas decided for every queue fill 0..16 with all other values symbolic')
