"""C15 — timers count, fire and reload exactly per mode, and fast-forward is exact.
Real code: Timer::Tick/TickEvent/Restart/Skip/GetMaxSkip/Reset (src/timer.cpp) executed symbolically from an arbitrary
timer state; oracle: specification written from the property statement and timer.md (S) + skip lemmas (L)."""
import z3
from engine import build, kit, core, native
from engine.kit import Ptr, bv

FIELDS = ['update_mmio', 'pause', 'count_mode', 'scale', 'start_high', 'start_low', 'counter', 'counter_high', 'counter_low']
FUNCS = ['Teakra::Timer::Tick', 'Teakra::Timer::TickEvent', 'Teakra::Timer::Restart', 'Teakra::Timer::Skip',
         'Teakra::Timer::GetMaxSkip', 'Teakra::Timer::UpdateMMIO', 'Teakra::Timer::Reset']


class Env:
    def __init__(s):
        ll, s.hash = build.compile_ir('h_timer.cpp')
        s.mod = build.load_module(ll)
        s.lay = kit.layout()['Timer']
        s.twin = None

    def mk(s):
        ex, st = kit.new_exec(s.mod)
        t = kit.Obj(ex, st, s.lay, 'timer', prefix='t')
        kit.set_vptr(ex, st, t.ptr, 'N6Teakra5TimerE')
        for n in s.mod.funcs:
            if n.endswith('functionIFvvEEclEv'):
                ex.intercepts[n] = kit.logger('IRQ')
        return ex, st, t

    def native(s):
        if s.twin is None:
            import ctypes
            s.twin = native.Twin(build.compile_so('h_timer.cpp'))
            s.tw_new = s.twin.fn('tw_new', ctypes.c_void_p, [])
            s.ops = {n: s.twin.fn('tm_' + n, None, [ctypes.c_void_p]) for n in ('tick', 'tickevent', 'restart', 'reset')}
            s.ops['skip'] = s.twin.fn('tm_skip', None, [ctypes.c_void_p, ctypes.c_uint64])
            s.maxskip = s.twin.fn('tm_maxskip', ctypes.c_uint64, [ctypes.c_void_p])
            s.irq = s.twin.fn('tw_irq', ctypes.c_int, [])
            s.irq_clear = s.twin.fn('tw_irq_clear', None, [])
        return s

    def run_native(s, fields, ops):
        """fields: {name:int}; ops: [('tick',), ('skip',k), ('maxskip',)] -> ('ok', {fields..., 'irq': n, 'ret': [...]}) | ('signal', n)"""
        s.native()

        def body():
            t = s.tw_new()
            for f in FIELDS:
                native.poke(t, s.lay, f, fields[f])
            s.irq_clear()
            rets = []
            for op in ops:
                if op[0] == 'maxskip':
                    rets.append(s.maxskip(t))
                elif op[0] == 'skip':
                    s.ops['skip'](t, op[1])
                else:
                    s.ops[op[0]](t)
            out = {f: native.peek(t, s.lay, f) for f in FIELDS}
            out['irq'] = s.irq()
            out['ret'] = rets
            return out
        return native.in_child(body)


def start_of(v):
    return z3.Concat(v['start_high'], v['start_low'])


def with_mirror(v, newc):
    """state after `counter = newc; UpdateMMIO()`"""
    o = dict(v)
    o['counter'] = newc
    upd = v['update_mmio'] != 0
    o['counter_high'] = z3.If(upd, z3.Extract(31, 16, newc), v['counter_high'])
    o['counter_low'] = z3.If(upd, z3.Extract(15, 0, newc), v['counter_low'])
    return o


def ite_state(c, a, b):
    return {k: (a[k] if a[k] is b[k] else z3.If(c, a[k], b[k])) for k in a}


def spec_tick(v):
    """-> (post-state, irq Bool) per the property statement"""
    halted = z3.Or(v['pause'] != 0, v['count_mode'] == 3)
    c = v['counter']
    dec = with_mirror(v, c - 1)
    zero = ite_state(v['count_mode'] == 1, with_mirror(v, start_of(v)),
                     ite_state(v['count_mode'] == 2, with_mirror(v, z3.BitVecVal(0xFFFFFFFF, 32)), v))
    post = ite_state(halted, v, ite_state(c == 0, zero, dec))
    irq = z3.And(z3.Not(halted), c == 1)
    return post, irq


def spec_tickevent(v):
    act = z3.And(v['pause'] == 0, v['count_mode'] == 3, v['counter'] != 0)
    return ite_state(act, with_mirror(v, v['counter'] - 1), v), z3.And(act, v['counter'] == 1)


def spec_restart(v):
    return ite_state(v['count_mode'] != 2, with_mirror(v, start_of(v)), v)


def spec_skip(v, k):
    """closed form of k single ticks for 0 <= k <= horizon (no interrupt inside)"""
    halted = z3.Or(v['pause'] != 0, v['count_mode'] == 3)
    k32 = z3.Extract(31, 0, k)
    c = v['counter']
    zero = ite_state(v['count_mode'] == 1, with_mirror(v, start_of(v) - (k32 - 1)),
                     ite_state(v['count_mode'] == 2, with_mirror(v, z3.BitVecVal(0xFFFFFFFF, 32) - (k32 - 1)), v))
    return ite_state(z3.Or(halted, k == 0), v, ite_state(c == 0, zero, with_mirror(v, c - k32)))


def run(tier, seed):
    ck = core.Check('C15', 'model_checking', tier, seed)
    env = Env()
    ck.funcs.update(FUNCS)
    ck.assumptions += ['count_mode < 4 and scale == 0 (Timer::Tick ASSERTs both; MMIO can only store a 3-bit mode - modes 4..7 (watchdog) are outside the property)',
                       'interrupt handler std::function is modelled as an event (its target is not part of Timer)']
    ck.stubs += ['std::function<void()>::operator() -> IRQ event', 'Assert() -> exit class "assert"']
    ck.bounds += ['no bound on values: all 2^32 counters/start values, 4 modes, pause/update bits as full 16-bit words, k is a full 64-bit value constrained only by k <= GetMaxSkip()',
                  'sequences of operations: covered by one-step induction from an arbitrary state (no invariant needed beyond count_mode<4, scale==0, which no Timer method writes)']
    k = z3.BitVec('k', 64)

    def common(ex, st, t):
        v = dict(t.vars)
        A = [z3.ULT(v['count_mode'], 4), v['scale'] == 0]
        return v, A

    def replayer(ops_fn, expect_fn):
        """ops_fn(inputs)-> list of op lists to run from the same start state; expect_fn(inputs, outs)->(bad: bool, detail)"""
        def rp(inputs):
            fields = {f: inputs['t.' + f] for f in FIELDS}
            outs = [env.run_native(fields, ops) for ops in ops_fn(inputs)]
            bad, detail = expect_fn(inputs, outs)
            return bad, {'native': [o if o[0] != 'ok' else o[1] for o in outs], 'why': detail}
        return rp

    def vs_spec(opname):
        def ex_(inputs, outs):
            o = outs[0]
            if o[0] != 'ok':
                return True, 'native run ended with %r' % (o,)
            bad = [f for f in FIELDS if o[1][f] != inputs['exp.' + f]]
            if (o[1]['irq'] != 0) != bool(inputs.get('exp.irq', False)) or o[1]['irq'] > 1:
                bad.append('irq')
            return bool(bad), 'fields differing from spec: %s' % bad
        return ex_

    # ---- single operations vs specification -----------------------------------------------
    for opname, fn, spec in (('Tick', '@tm_tick', spec_tick), ('TickEvent', '@tm_tickevent', spec_tickevent)):
        ex, st, t = env.mk()
        v, A = common(ex, st, t)
        r = ex.call(st, fn, [t.ptr])
        ck.ninstr += ex.ninstr
        ck.nstates += 1
        post = t.snapshot(r[0], FIELDS)
        exp, irq = spec(v)
        d, _ = kit.differs(post, exp)
        got_irq = kit.any_event(r[0], 'IRQ')
        nirq = kit.count_events(r[0], 'IRQ')
        vars_ = {'t.' + f: v[f] for f in FIELDS}
        vars_.update({'exp.' + f: exp[f] for f in FIELDS})
        vars_['exp.irq'] = irq
        ck.prove('%s.spec' % opname, A, z3.And(z3.Not(d), got_irq == irq, z3.ULE(nirq, 1), z3.Not(kit.exit_cond(ex))), vars=vars_,
                 replay=replayer(lambda i, o=opname.lower(): [[(o,)]], vs_spec(opname)),
                 sample='%s from an arbitrary timer state: post-state == spec (decrement / reload / wrap / hold), interrupt event iff running and counter==1, no ASSERT reachable' % opname)

    ex, st, t = env.mk()
    v, A = common(ex, st, t)
    r = ex.call(st, '@tm_restart', [t.ptr])
    ck.ninstr += ex.ninstr
    ck.nstates += 1
    post = t.snapshot(r[0], FIELDS)
    exp = spec_restart(v)
    d, _ = kit.differs(post, exp)
    vars_ = {'t.' + f: v[f] for f in FIELDS}
    vars_.update({'exp.' + f: exp[f] for f in FIELDS})
    ck.prove('Restart.spec', A, z3.And(z3.Not(d), z3.Not(kit.any_event(r[0], 'IRQ')), z3.Not(kit.exit_cond(ex))), vars=vars_,
             replay=replayer(lambda i: [[('restart',)]], vs_spec('restart')),
             sample='Restart: counter := start (mirror follows iff update bit) unless free-running; no interrupt')

    # ---- Reset: result independent of the pre-state ------------------------------------------
    ex, st, t = env.mk()
    r = ex.call(st, '@tm_reset', [t.ptr])
    ck.ninstr += ex.ninstr
    post = t.snapshot(r[0], FIELDS)
    ck.prove('Reset.zero', [], z3.And(*[bv(post[f], post[f].size() if z3.is_expr(post[f]) else 16) == 0 for f in FIELDS]),
             vars={'t.' + f: t.vars[f] for f in FIELDS}, sample='Reset from arbitrary state leaves every modelled field 0')

    # ---- Skip(k) vs closed form of k ticks, k <= horizon -------------------------------------
    ex, st, t = env.mk()
    v, A = common(ex, st, t)
    ms = ex.call(st.fork(), '@tm_maxskip', [t.ptr])[1]
    ms = bv(ms, 64)
    st2 = st.fork()
    st2.pc += A + [z3.ULE(k, ms)]
    r = ex.call(st2, '@tm_skip', [t.ptr, k])
    ck.ninstr += ex.ninstr
    ck.nstates += 2
    post = t.snapshot(r[0], FIELDS)
    exp = spec_skip(v, k)
    d, _ = kit.differs(post, exp)
    vars_ = {'t.' + f: v[f] for f in FIELDS}
    vars_.update({'exp.' + f: exp[f] for f in FIELDS})
    vars_['k'] = k
    vars_['maxskip'] = ms
    ck.prove('Skip.closed_form', A + [z3.ULE(k, ms)], z3.And(z3.Not(d), z3.Not(kit.any_event(r[0], 'IRQ')), z3.Not(kit.exit_cond(ex))), vars=vars_,
             replay=replayer(lambda i: [[('skip', i['k'])]], vs_spec('skip')),
             sample='Skip(k) for every 0 <= k <= GetMaxSkip(): equals the closed form of k single ticks (k = 0: identity), raises no interrupt, its ASSERTs are unreachable')

    # ---- step lemma: Skip(s,k) == Skip(Tick(s),k-1), Tick(s) silent, horizon shrinks by at most 1 ----
    ex, st, t = env.mk()
    v, A = common(ex, st, t)
    ms = bv(ex.call(st.fork(), '@tm_maxskip', [t.ptr])[1], 64)
    pre = A + [z3.UGE(k, 1), z3.ULE(k, ms)]
    sa = st.fork()
    sa.pc += pre
    ra = ex.call(sa, '@tm_skip', [t.ptr, k])
    pa = t.snapshot(ra[0], FIELDS)
    sb = st.fork()
    sb.pc += pre
    rb = ex.call(sb, '@tm_tick', [t.ptr])
    sb = rb[0]
    irq = kit.any_event(sb, 'IRQ')
    ms2 = bv(ex.call(sb.fork(), '@tm_maxskip', [t.ptr])[1], 64)
    rb2 = ex.call(sb, '@tm_skip', [t.ptr, k - 1])
    pb = t.snapshot(rb2[0], FIELDS)
    ck.ninstr += ex.ninstr
    ck.nstates += 4
    d, _ = kit.differs(pa, pb)
    vars_ = {'t.' + f: v[f] for f in FIELDS}
    vars_['k'] = k

    def lemma_expect(inputs, outs):
        a, b = outs
        if a[0] != 'ok' or b[0] != 'ok':
            return True, 'abort: %r %r' % (a, b)
        bad = [f for f in FIELDS if a[1][f] != b[1][f]]
        if b[1]['irq']:
            bad.append('irq in Tick')
        return bool(bad), 'Skip(k) vs Tick;Skip(k-1) differ in %s' % bad
    ck.prove('Skip.step_lemma', pre, z3.And(z3.Not(d), z3.Not(irq), z3.UGE(ms2, k - 1), z3.Not(kit.exit_cond(ex))), vars=vars_,
             replay=replayer(lambda i: [[('skip', i['k'])], [('tick',), ('skip', i['k'] - 1)]], lemma_expect),
             sample='for 1 <= k <= GetMaxSkip(s): Skip(s,k) == Skip(Tick(s),k-1), Tick(s) raises no interrupt, GetMaxSkip(Tick(s)) >= k-1 (induction on k gives: Skip(k) == k ticks and the horizon never skips over an interrupt)')

    # ---- horizon is tight where the statement needs it: the tick after the horizon is the one that may fire ----
    ex, st, t = env.mk()
    v, A = common(ex, st, t)
    ms = bv(ex.call(st.fork(), '@tm_maxskip', [t.ptr])[1], 64)
    running = z3.And(v['pause'] == 0, v['count_mode'] != 3, v['counter'] != 0)
    ck.prove('GetMaxSkip.horizon', A, z3.And(z3.Implies(running, ms == z3.ZeroExt(32, v['counter'] - 1)),
                                            z3.Implies(z3.Or(v['pause'] != 0, v['count_mode'] == 3), ms == z3.BitVecVal(2**64 - 1, 64))),
             vars={'t.' + f: v[f] for f in FIELDS},
             sample='running timer with counter c>0 reports horizon c-1 (so the firing tick is never inside a skip); paused/event-count timers report infinity')

    # ---- translator validation: executor as interpreter vs native twin on concrete states ----
    import random
    rnd = random.Random(seed)
    nval = 40 if tier == 'quick' else 200
    bad = 0
    for i in range(nval):
        fields = {'update_mmio': rnd.choice([0, 1]), 'pause': rnd.choice([0, 0, 1]), 'count_mode': rnd.randrange(4), 'scale': 0,
                  'start_high': rnd.choice([0, 0, rnd.randrange(65536)]), 'start_low': rnd.randrange(65536),
                  'counter': rnd.choice([0, 1, 2, rnd.randrange(2**32)]), 'counter_high': rnd.randrange(65536), 'counter_low': rnd.randrange(65536)}
        op = rnd.choice(['tick', 'tickevent', 'restart', 'skip'])
        ex, st, t = env.mk()
        for f in FIELDS:
            t.set(st, f, fields[f])
        kk = 0
        if op == 'skip':
            mx = ex.call(st.fork(), '@tm_maxskip', [t.ptr])[1]
            kk = rnd.randrange(0, min(mx, 1000) + 1)
            r = ex.call(st, '@tm_skip', [t.ptr, kk])
        else:
            r = ex.call(st, '@tm_' + op, [t.ptr])
        got = {f: t.get(r[0], f) for f in FIELDS}
        got = {f: (z3.simplify(x).as_long() if z3.is_expr(x) else x) for f, x in got.items()}
        nat = env.run_native(fields, [(op, kk) if op == 'skip' else (op,)])
        if nat[0] != 'ok' or any(nat[1][f] != got[f] for f in FIELDS) or nat[1]['irq'] != len([e for e in r[0].log if e[0] == 'IRQ']):
            bad += 1
            ck.engine_errors.append('translator validation mismatch: %r %r exec=%r native=%r' % (op, fields, got, nat))
        else:
            ck.validated += 1
    return ck.finish('Timer one-step specifications and skip lemmas decided for all field values; see obligation_table')
