"""The whole object graph inside the executor: the real Teakra::Impl constructor (CoreTiming, SharedMemory, MIU, ICU, two
Apbp, two Timers, Ahbm, Dma, two Btdmp, the 0x800-cell MMIORegion closure table, MemoryInterface, Processor with
RegisterState and Interpreter) run on memory whose never-written bytes are symbolic ("heap garbage")."""
import time
import z3
from engine import build, kit
from engine.kit import Ptr, bv, is_c
from engine.llsym import DEAD, Abort, UnwindBound, Region

MEMSIZE = 0x80000
STR = '@_ZNSt7__cxx1112basic_stringIcSt11char_traitsIcESaIcEE'
STRK = '@_ZNKSt7__cxx1112basic_stringIcSt11char_traitsIcESaIcEE'
_cache = {}


def install_string_stubs(ex):
    """std::string is only used for the MMIO debug names; model of the {pointer, length, capacity/sso} representation"""
    def str_copy(e, s, a):
        dst, src = a[0], a[1]
        n = e.load(s, Ptr(src.r, src.o + 8), 8)
        p = e.load(s, Ptr(src.r, src.o), 8)
        if not is_c(n):
            raise Abort('symbolic string length')
        r = e.new_region(s, n + 1, 'strbuf')
        for i in range(n + 1):
            e.store(s, Ptr(r, i), 1, e.load(s, Ptr(p.r, p.o + i), 1))
        e.store(s, Ptr(dst.r, dst.o), 8, Ptr(r, 0))
        e.store(s, Ptr(dst.r, dst.o + 8), 8, n)
        return s, None
    I = ex.intercepts
    I[STR + 'C2ERKS4_'] = str_copy
    I[STR + 'D2Ev'] = lambda e, s, a: (s, None)
    I['@_ZNSaIcEC2Ev'] = lambda e, s, a: (s, None)
    I['@_ZNSaIcED2Ev'] = lambda e, s, a: (s, None)
    I[STR + '13_M_local_dataEv'] = lambda e, s, a: (s, Ptr(a[0].r, a[0].o + 16))
    I[STR + '12_Alloc_hiderC2EPcRKS3_'] = lambda e, s, a: (e.store(s, a[0], 8, a[1]), (s, None))[1]
    I[STR + '7_M_dataEPc'] = lambda e, s, a: (e.store(s, a[0], 8, a[1]), (s, None))[1]
    I[STRK + '7_M_dataEv'] = lambda e, s, a: (s, e.load(s, a[0], 8))
    I[STRK + '4dataEv'] = lambda e, s, a: (s, e.load(s, a[0], 8))
    I[STR + '11_M_capacityEm'] = lambda e, s, a: (e.store(s, Ptr(a[0].r, a[0].o + 16), 8, a[1]), (s, None))[1]

    def m_create(e, s, a):
        n = e.load(s, a[1], 8)
        return s, Ptr(e.new_region(s, n + 1, 'strbuf'), 0)
    I[STR + '9_M_createERmm'] = m_create

    def copy_chars(e, s, a):
        d, b, en = a
        for i in range(en.o - b.o):
            e.store(s, Ptr(d.r, d.o + i), 1, e.load(s, Ptr(b.r, b.o + i), 1))
        return s, None
    I[STR + '13_S_copy_charsEPcPKcS7_'] = copy_chars

    def set_len(e, s, a):
        e.store(s, Ptr(a[0].r, a[0].o + 8), 8, a[1])
        p = e.load(s, a[0], 8)
        e.store(s, Ptr(p.r, p.o + a[1]), 1, 0)
        return s, None
    I[STR + '13_M_set_lengthEm'] = set_len
    I[STR + '10_M_disposeEv'] = lambda e, s, a: (s, None)


class Graph:
    def __init__(s, tree='cur'):
        s.root = build.REPO
        ll, s.hash = build.compile_ir('h_teakra.cpp')
        s.mod = build.load_module(ll)
        s.L = kit.layout()
        s.IT = kit.find_type(s.mod, 'Teakra::Teakra::Impl"')
        s.ioff = s.mod.offsets(s.IT)
        s.names = ['core_timing', 'shared_memory', 'miu', 'icu', 'apbp_from_cpu', 'apbp_from_dsp', 'timer', 'ahbm', 'dma', 'btdmp', 'mmio', 'memory_interface', 'processor']
        if len(s.ioff) != len(s.names):
            raise SystemExit('Teakra::Impl has %d members, expected %d: update checks/graph.py' % (len(s.ioff), len(s.names)))
        s.off = dict(zip(s.names, s.ioff))
        s.built = None

    def new(s, unwind=6000):
        ex, st = kit.new_exec(s.mod, unwind=unwind)
        install_string_stubs(ex)
        from checks import interp
        interp._install_hashtable_stubs(ex)
        dec = [n for n in s.mod.funcs if n.startswith('@_Z15GetDecoderTableIN6Teakra11InterpreterEE')]
        for n in dec:
            ex.intercepts[n] = lambda e, st_, a: (e.fill(st_, a[0], 24, 0), (st_, None))[1]
        if '@__libc_single_threaded' in s.mod.globals:
            g = ex.global_ptr(st, '@__libc_single_threaded')
            ex.store(st, g, 1, 1)
        return ex, st

    def build_impl(s, garbage='symbolic'):
        """-> (ex, st, ctx). Cached per process (fork the state before use)."""
        if s.built is not None:
            return s.built
        t0 = time.time()
        ex, st = s.new()
        ex.track_dead = True
        impl = ex.new_region(st, s.mod.size(s.IT), 'Impl')
        mem = ex.new_region(st, MEMSIZE, 'DSPMEM')
        arr0 = z3.Array('dspmem', z3.BitVecSort(64), z3.BitVecSort(8))
        st.mem[mem].arr = arr0
        n0 = ex.ninstr
        r = ex.call(st, '@ti_ctor', [Ptr(impl, 0), Ptr(mem, 0)])
        if r is None or r is DEAD:
            raise Abort('Teakra::Impl constructor does not return')
        st = r[0]
        ctx = {'impl': Ptr(impl, 0), 'mem': mem, 'arr0': arr0, 'ctor_instr': ex.ninstr - n0, 'ctor_s': time.time() - t0, 'exits': list(ex.exits), 'regions': ex.nreg}
        # locate the Processor::Impl heap object (regs + interpreter)
        pp = ex.load(st, Ptr(impl, s.off['processor']), 8)
        ctx['proc'] = pp
        ex.exits, ex.oblig = [], []
        s.built = (ex, st, ctx)
        return s.built

    def comp(s, name, idx=0):
        """Ptr to a component sub-object of Impl"""
        ex, st, ctx = s.build_impl()
        base = s.off[name]
        if name == 'timer':
            base += idx * s.L['Timer']['_size'][0]
        elif name == 'btdmp':
            base += idx * s.L['Btdmp']['_size'][0]
        return Ptr(ctx['impl'].r, base)


def get():
    if 'g' not in _cache:
        _cache['g'] = Graph()
    return _cache['g']
