"""C10 — address registers step linearly, modulo or bit-reversed exactly as configured.
Kernels: the real RnAndModify / StepAddress / RnAddress / OffsetAddress with symbolic unit, register value, step kind
and every mode field, against the stepping model below (S, from the statement).  Wiring: every row with an
(Rn|R45|R0123, step) operand pair calls the stepper with the register and step its operands name and uses the returned
(pre-modified) value as the access address."""
import z3
from engine import build, kit, core
from engine.kit import Ptr, bv, is_c
from engine.llsym import DEAD, Abort, UnwindBound
from checks import interp, c03
from spec import alu, forms

env = c03.env
STEPS = ['Zero', 'Increase', 'Decrease', 'PlusStep', 'Increase2Mode1', 'Decrease2Mode1', 'Increase2Mode2', 'Decrease2Mode2']


def sel8(R, name, unit):
    out = R['%s[7]' % name]
    for k in range(6, -1, -1):
        out = z3.If(unit == k, R['%s[%d]' % (name, k)], out)
    return out


def bitrev16(v):
    return z3.Concat(*[z3.Extract(i, i, v) for i in range(16)])


def linear_step(R, unit, step):
    """the configured step as a 16-bit two's complement amount, modulo arithmetic off (m[unit] == 0)"""
    isi = z3.ULT(unit, 4)
    br = sel8(R, 'br', unit) != 0
    s7 = z3.If(isi, z3.SignExt(9, z3.Extract(6, 0, R['stepi'])), z3.SignExt(9, z3.Extract(6, 0, R['stepj'])))
    s16 = z3.If(isi, R['stepi0'], R['stepj0'])
    # the 16-bit step register replaces the 7-bit field when bit reversal applies (modulo off) or stp16 is set in Teak
    # mode; in the latter case a unit whose modulo flag is set takes only 9 bits of it (sign-extended) - visible when the
    # modulo arithmetic itself is disabled by the instruction (the dmod forms)
    m_on = sel8(R, 'm', unit) != 0
    plus = z3.If(z3.And(R['stp16'] == 1, R['cmd'] == 0), z3.If(m_on, z3.SignExt(7, z3.Extract(8, 0, s16)), s16), z3.If(z3.And(br, z3.Not(m_on)), s16, s7))
    tbl = [0, 1, 0xFFFF, None, 2, 0xFFFE, 2, 0xFFFE]
    out = z3.BitVecVal(0xFFFE, 16)
    for k in range(6, -1, -1):
        out = z3.If(step == k, plus if tbl[k] is None else z3.BitVecVal(tbl[k], 16), out)
    return out


def modmask(mod):
    """2^k - 1 for the smallest k with 2^k > mod (the buffer's power-of-two alignment), mod >= 1, 9-bit mod"""
    out = z3.BitVecVal(1, 16)
    for k in range(1, 10):
        out = z3.If(z3.UGE(mod, 1 << (k - 1)), z3.BitVecVal((1 << k) - 1, 16), out)
    return out


def job_kernels(tier, seed):
    E = env()
    ck = core.Check('C10', 'model_checking', tier, seed)
    ex, st0, ctx = E.base()
    regs, ip = ctx['regs'], ctx['interp']
    R = E.R()
    inv = E.inv()
    unit = z3.BitVec('unit', 32)
    step = z3.BitVec('step', 16)
    U = z3.Extract(15, 0, unit)
    A = inv + [z3.ULT(unit, 8), z3.ULT(step, 8)]
    V = lambda extra=None: c03.vars_of(R, dict({'unit': unit, 'step': step}, **(extra or {})))

    def run(fn, args):
        st = st0.fork()
        ex.exits, ex.oblig = [], []
        n0 = ex.ninstr
        r = ex.call(st, fn, args)
        ck.ninstr += ex.ninstr - n0
        ck.nstates += 1
        return r, regs.snapshot(r[0])
    r_old = sel8(R, 'r', U)
    m_on = sel8(R, 'm', U) != 0
    br_on = sel8(R, 'br', U) != 0
    # ---- modulo off: linear step / end-pointer zeroing, returned value is the old register
    r, post = run('@k_rnmod', [ip, unit, step, 0])
    ep = z3.And(z3.Or(z3.And(U == 3, R['epi'] != 0), z3.And(U == 7, R['epj'] != 0)), z3.ULT(step, 4))
    newr = z3.If(ep, z3.BitVecVal(0, 16), r_old + linear_step(R, U, step))
    goals = [bv(r[1], 16) == r_old, z3.Not(kit.exit_cond(ex)), kit.obligations(ex)]
    for k in range(8):
        goals.append(post['r[%d]' % k] == z3.If(U == k, newr, R['r[%d]' % k]))
    for f in post:
        if not f.startswith('r[') and not post[f].eq(R[f]):
            goals.append(post[f] == R[f])
    ck.prove('RnAndModify.linear', A + [z3.Not(m_on)], z3.And(*goals), vars=V(),
             sample='modulo off: r[unit] += configured step (+-1, +-2, sign-extended 7-bit stepi/j, or 16-bit stepi0/j0 when bit-reversed or stp16 in Teak mode) mod 2^16, r3/r7 := 0 in end-pointer mode; the returned (access) value is the pre-modified register; nothing else changes')
    ck.prove('RnAndModify.zero_step', A + [step == 0, z3.Not(ep)], z3.And(*[post['r[%d]' % k] == R['r[%d]' % k] for k in range(8)]), vars=V(), sample='a zero step never changes the register (any modulo / bit-reverse configuration)')
    # ---- modulo disabled by the instruction (the dmod forms: modr ...,dmod / edmod / demod / ddmod, mma with DMod sides):
    # the register steps linearly whatever the unit's modulo configuration says
    rd, postd = run('@k_rnmod', [ip, unit, step, 1])
    goals = [bv(rd[1], 16) == r_old, z3.Not(kit.exit_cond(ex)), kit.obligations(ex)]
    for k in range(8):
        goals.append(postd['r[%d]' % k] == z3.If(U == k, newr, R['r[%d]' % k]))
    for f in postd:
        if not f.startswith('r[') and not postd[f].eq(R[f]):
            goals.append(postd[f] == R[f])
    ck.prove('RnAndModify.dmod', A, z3.And(*goals), vars=V(),
             sample='disable-modulo forms: r[unit] += configured step mod 2^16 for every modulo / bit-reverse configuration of the unit (modi/modj and m[unit] are ignored), the access uses the pre-modified value')
    # ---- modulo on, step +-1, in-range start: cyclic walk through [base, base+mod], high bits untouched, both cmd values
    mod = z3.If(z3.ULT(U, 4), R['modi'], R['modj'])
    mask = modmask(mod)
    low = r_old & mask
    for sname, sval in (('+1', 1), ('-1', 2)):
        nxt = z3.If(low == mod, z3.BitVecVal(0, 16), low + 1) if sval == 1 else z3.If(low == 0, mod, low - 1)
        want = z3.If(mod == 0, r_old, (r_old & ~mask) | nxt)
        cond = A + [m_on, z3.Not(br_on), step == sval, z3.ULE(low, mod), z3.Not(ep)]
        g = [post['r[%d]' % k] == z3.If(U == k, want, R['r[%d]' % k]) for k in range(8)]
        g.append(bv(r[1], 16) == r_old)
        for cmd in (0, 1):
            ck.prove('RnAndModify.modulo[%s cmd=%d]' % (sname, cmd), cond + [R['cmd'] == cmd], z3.And(*g), vars=V(),
                     sample='modulo on, step %s, %s mode, (r & mask) <= mod: r walks cyclically through [base, base+mod] and bits above the power-of-two alignment never change' % (sname, 'TeakLite' if cmd else 'Teak'))
    # ---- address formation: bit reversal
    val = z3.BitVec('value', 32)
    r2, post2 = run('@k_rnaddr', [ip, unit, val])
    v16 = z3.Extract(15, 0, val)
    g, _ = c03.diff_goal(post2, R, R)
    ck.prove('RnAddress', A, z3.And(bv(r2[1], 16) == z3.If(z3.And(br_on, z3.Not(m_on)), bitrev16(v16), v16), *g), vars=V({'value': val}),
             sample='bit reversal on and modulo off: the memory address is the 16-bit bit reversal of the register value; otherwise the value itself')
    r3, post3 = run('@k_rnaddrmod', [ip, unit, step, 0])
    ck.prove('RnAddressAndModify.bitreverse', A + [br_on, z3.Not(m_on), z3.Not(ep)], z3.And(bv(r3[1], 16) == bitrev16(r_old),
             *[post3['r[%d]' % k] == z3.If(U == k, r_old + linear_step(R, U, step), R['r[%d]' % k]) for k in range(8)]), vars=V(),
             sample='bit-reversed addressing: address = bitrev(r) while r itself steps linearly (by stepi0/j0 for +s)')
    # ---- offsets (the forms the statement does not exclude): +0, -1*, +-1 without modulo; +1 with modulo wraps at base+mod
    addr, off = z3.BitVec('address', 16), z3.BitVec('offset', 16)
    r4, post4 = run('@k_offset', [ip, unit, addr, off, 0])
    emod = z3.And(m_on, z3.Not(br_on))
    omask = z3.BitVecVal(1, 16)
    for k in range(9):
        omask = omask | z3.LShR(mod, k)
    want = z3.If(off == 0, addr, z3.If(off == 3, addr - 1, z3.If(off == 1, z3.If(z3.And(emod, (addr & omask) == mod), addr & ~omask, addr + 1), addr - 1)))
    g, _ = c03.diff_goal(post4, R, R)
    throws = z3.Or(*[kit.path_cond(p) for p, k_, _ in ex.exits if k_ == 'throw']) if [1 for p, k_, _ in ex.exits if k_ == 'throw'] else z3.BoolVal(False)
    ck.prove('OffsetAddress', A + [z3.ULT(off, 4), z3.Not(z3.And(off == 2, emod))], z3.And(bv(r4[1], 16) == want, z3.Not(throws), *g), vars=V({'address': addr, 'offset': off}),
             sample='offset +0 / +1 / -1 / -1*: address +-1, with +1 wrapping to the buffer base at base+mod when modulo is on (offset -1 under modulo is the documented unimplemented case)')
    r5, post5 = run('@k_offset', [ip, unit, addr, off, 1])
    g5, _ = c03.diff_goal(post5, R, R)
    want5 = z3.If(off == 0, addr, z3.If(off == 1, addr + 1, addr - 1))
    ck.prove('OffsetAddress.dmod', A + [z3.ULT(off, 4)], z3.And(bv(r5[1], 16) == want5, z3.Not(kit.exit_cond(ex)), *g5), vars=V({'address': addr, 'offset': off}),
             sample='disable-modulo forms: the offset address is address +-1 (or +0) whatever the modulo configuration, and is always defined')
    return ck.export()


def job_row(i, tier, seed):
    """wiring: the row steps exactly the registers its operands name with the steps they name, and accesses memory at
    the (bit-reversal-adjusted) pre-modified value"""
    E = env()
    ck = core.Check('C10', 'model_checking', tier, seed)
    row, form = E.rows[i], E.forms[i]
    if row['name'] != form['name']:
        ck.engine_errors.append('decoder.h row %d is %s but executed table has %s' % (i, form['name'], row['name']))
        return ck.export()
    ops = [p for p in form['ops'] if p[0] in ('at', 'const')]
    o, e = z3.BitVec('o', 16), z3.BitVec('e', 16)
    F = lambda k: forms.field(o, e, ops[k])
    R = E.R()
    want = []

    def sel4(name, idx):
        if is_c(idx):
            return R['%s[%d]' % (name, idx)]
        out = R['%s[3]' % name]
        for q in range(2, -1, -1):
            out = z3.If(z3.ZeroExt(16 - idx.size(), idx) == q, R['%s[%d]' % (name, q)], out)
        return out
    z32 = lambda t: z3.ZeroExt(32 - t.size(), t) if not is_c(t) else z3.BitVecVal(t, 32)
    z16 = lambda t: z3.ZeroExt(16 - t.size(), t) if not is_c(t) else z3.BitVecVal(t, 16)
    cond = z3.BoolVal(True)
    if row['name'] == 'norm':
        cond = R['fn'] == 0           # norm only steps while the accumulator is not yet normalised
    k = 0
    while k < len(ops):
        p = ops[k]
        nxt = ops[k + 1][1] if k + 1 < len(ops) else None
        if p[1] in ('Rn', 'R45', 'R0123') and nxt == 'StepZIDS':
            u = z32(F(k))
            if p[1] == 'R45':
                u = u + 4
            want.append((u, z16(F(k + 1))))
            k += 2
        elif p[1] in ('ArRn1', 'ArRn2') and nxt in ('ArStep1', 'ArStep1Alt', 'ArStep2'):
            si = F(k + 1)
            if nxt == 'ArStep1Alt':
                si = (si + 2) if is_c(si) else z3.ZeroExt(1, si) + 2
            want.append((z32(sel4('arrn', F(k))), z16(sel4('arstep', si))))
            k += 2
        elif p[1] in ('ArpRn1', 'ArpRn2') and nxt in ('ArpStep1', 'ArpStep2') and k + 2 < len(ops) and ops[k + 2][1] == nxt:
            # forms that name the modulo behaviour of each side (EMod / DMod constants right after the step pair)
            allops = form['ops']
            pos = allops.index(p)
            flags = [q[1] for q in allops[pos + 3:pos + 5] if q[0] == 'cn' and q[1] in ('EMod', 'DMod')]
            di, dj = (flags[0] == 'DMod', flags[1] == 'DMod') if len(flags) == 2 else (None, None)
            want.append((z32(sel4('arprni', F(k))), z16(sel4('arpstepi', F(k + 1))), di))
            want.append((z32(sel4('arprnj', F(k))) + 4, z16(sel4('arpstepj', F(k + 2))), dj))
            k += 3
        else:
            k += 1
    if not want:
        return ck.export()
    ex, st0, ctx = E.base()
    name = [n for n in E.mod.funcs if 'Interpreter11RnAndModifyE' in n]
    if len(name) != 1:
        ck.engine_errors.append('RnAndModify symbol not found')
        return ck.export()

    def stepper(e_, st, a):
        k = len([1 for ev in st.log if ev[0] == 'STEP'])
        ret = z3.BitVec('RNOLD_%d' % k, 16)
        st.log.append(('STEP', list(st.pc), a[1], a[2], ret, a[3] if len(a) > 3 else None))
        return st, ret
    ex.intercepts[name[0]] = stepper
    A = E.inv() + [E.match_pred(row, o)]
    try:
        r = E.run_row(i, o, e, A)
    except (Abort, UnwindBound) as x:
        ck.notes.append('wiring row %d %s skipped (executor: %s)' % (i, row['name'], str(x)[:60]))
        return ck.export()
    finally:
        ex.intercepts.pop(name[0], None)
    ck.ninstr += r['ninstr']
    ck.nstates += 1
    if r['st'] is None:
        return ck.export()
    calls = [ev for ev in r['st'].log if ev[0] == 'STEP']
    goals = []
    anyexit = kit.exit_cond(type('X', (), {'exits': r['exits']})(), ('throw', 'assert', 'abort'))
    def dmod_is(ev, d):
        if d is None or ev[5] is None:
            return z3.BoolVal(True)
        got = ev[5]
        got = (got != 0) if (z3.is_expr(got) and not z3.is_bool(got)) else (z3.BoolVal(bool(got)) if is_c(got) else got)
        return got == z3.BoolVal(d)
    want = [(w + (None,))[:3] for w in want]
    for u, s_, d in want:
        hits = [z3.And(kit.path_cond(ev[1]), bv(ev[2], 32) == u, bv(ev[3], 32) == z3.ZeroExt(16, s_), dmod_is(ev, d)) for ev in calls]
        goals.append(z3.Implies(cond, z3.Or(anyexit, *hits) if hits else anyexit))
    # no stepping of a register the operands do not name
    for ev in calls:
        goals.append(z3.Implies(kit.path_cond(ev[1]), z3.Or(*[z3.And(bv(ev[2], 32) == u, bv(ev[3], 32) == z3.ZeroExt(16, s_), dmod_is(ev, d)) for u, s_, d in want])))
    # each returned pre-modified value is what reaches the memory interface (through the real RnAddress)
    accesses = [ev for ev in r['st'].log if ev[0] in ('R', 'W', 'P', 'PW')]
    for ev in calls:
        uses = [a for a in accesses if ev[4].decl().name() in str(a[2])]
        if accesses and not uses and row['name'] not in ('modr', 'modr_dmod', 'norm'):
            goals.append(z3.BoolVal(False))
    ck.prove('AddressWiring[%d %s]' % (i, row['name']), A, z3.And(*goals) if goals else z3.BoolVal(True), vars={'o': o, 'e': e},
             sample='row %d %s: the stepper is called once per (register, step) operand pair with exactly the register and step the opcode names; its returned pre-modified value feeds the memory address' % (i, row['name']) if i % 20 == 0 else None)
    return ck.export()


def run(tier, seed):
    ck = core.Check('C10', 'model_checking', tier, seed)
    E = env()
    ck.funcs.update(['Interpreter::RnAndModify', 'StepAddress', 'RnAddress', 'RnAddressAndModify', 'OffsetAddress', 'BitReverse', 'std20::log2p1', 'all rows with (Rn|R45|R0123, StepZIDS), (ArRn, ArStep) or (ArpRn, ArpStep, ArpStep) operand groups'])
    ck.assumptions += ['Inv; unit < 8; step kind < 8', 'modulo walk: start inside the buffer ((r & mask) <= mod) and step +-1, as the statement says; other steps under modulo (+-2 modes, +s) are covered by the reference comparison C01',
                       'wiring: RnAndModify is abstracted to a call event returning a fresh pre-modified value (for the dual-operand mma forms the disable-modulo flag passed for each side is checked against the EMod/DMod constants of the form); for ar/arp-addressed rows the register/step are the arrn/arstep (arprn/arpstep) fields the operand indexes (their meaning in the ar/arp words is C20)']
    ck.bounds += ['no bound on values: 16-bit registers, 9-bit modulo, all mode bits, all 8 units symbolic in one query']
    ck.stubs += E.tabulated
    rows = [r['i'] for r in E.rows]
    res = core.pmap(job_kernels, [(tier, seed)]) + core.pmap(job_row, [(i, tier, seed) for i in rows])
    for r in res:
        if '__error__' in r:
            ck.engine_errors.append(r['__error__'])
        else:
            ck.absorb(r)
    fam = [r['i'] for r in E.rows if r['name'].startswith('modr')]
    for r in core.pmap(job_val, [(i, seed) for i in fam]):
        if '__error__' in r:
            ck.engine_errors.append(r['__error__'])
        else:
            ck.absorb(r)
    return ck.finish('address stepping kernels against the model; operand-to-stepper wiring for every (register, step) row')


def job_val(i, seed):
    return interp.validate_row(env(), i, seed, 'C10', 'model_checking')
