"""The public API of src/teakra.cpp (Teakra::SendData, RecvData, ..., DataRead, MMIOWrite, DMAChan0GetSrcHigh, ...): every wrapper,
executed on the real object graph, has exactly the effect and return value of the component operation it is documented to
forward to (harness functions ti_*/ts_* written against the components). Shared by C19 (mailbox/semaphore API), C11 (memory
API) and C13 (DMA/AHBM getters): the component-level results of C14/C11/C12/C13 then hold for what a host program calls."""
import z3
from engine import kit, core
from engine.kit import Ptr, bv, is_c
from engine.llsym import DEAD, Abort, UnwindBound
from checks import graph


def pairs(impl, subset):
    i8 = None
    v, v2 = z3.BitVec('value', 16), z3.BitVec('value2', 16)
    a16, a32 = z3.BitVec('addr16', 16), z3.BitVec('addr32', 32)
    byp = z3.Bool('bypass')
    out = []
    if subset == 'apbp':
        for i in range(3):
            out += [('SendDataIsEmpty(%d)' % i, '@tf_senddataisempty', '@ti_senddataisempty', [impl, i], []), ('SendData(%d)' % i, '@tf_senddata', '@ti_senddata', [impl, i, v], []),
                    ('RecvDataIsReady(%d)' % i, '@tf_recvdataisready', '@ti_recvdataisready', [impl, i], []), ('RecvData(%d)' % i, '@tf_recvdata', '@ti_recvdata', [impl, i], []),
                    ('PeekRecvData(%d)' % i, '@tf_peekrecvdata', '@ti_peekrecvdata', [impl, i], [])]
        out += [('SetSemaphore', '@tf_setsemaphore', '@ti_setsemaphore', [impl, v], []), ('GetSemaphore', '@tf_getsemaphore', '@ti_getsemaphore', [impl], []),
                ('ClearSemaphore', '@tf_clearsemaphore', '@ti_clearsemaphore', [impl, v], []), ('MaskSemaphore', '@tf_masksemaphore', '@ti_masksemaphore', [impl, v], [])]
    elif subset == 'mem':
        out += [('ProgramRead', '@tf_pread', '@ts_pread', [impl, a32], [z3.ULT(a32, 0x40000)]), ('ProgramWrite', '@tf_pwrite', '@ti_pwrite', [impl, a32, v], [z3.ULT(a32, 0x40000)]),
                ('DataRead', '@tf_dread', '@ti_dread', [impl, a16, byp], [z3.ULT(a16, 0x8000)]), ('DataWrite', '@tf_dwrite', '@ti_dwrite', [impl, a16, v, byp], [z3.ULT(a16, 0x8000)]),
                ('DataReadA32', '@tf_dreada32', '@ts_dreada32', [impl, a32], []), ('DataWriteA32', '@tf_dwritea32', '@ts_dwritea32', [impl, a32, v], []),
                ('DataReadA32 (second bank)', '@tf_dreada32', '@ts_dreada32', [impl, a32], [z3.UGE(a32, 0x10000), z3.ULT(a32, 0x18000)]), ('DataWriteA32 (second bank)', '@tf_dwritea32', '@ts_dwritea32', [impl, a32, v], [z3.UGE(a32, 0x10000), z3.ULT(a32, 0x18000)]),
                ('GetDspMemory', '@tf_getdspmemory', '@ts_getdspmemory', [impl], []), ('GetRegisterState', '@tf_getregs', '@ti_regs', [impl], [])]
        for a in (0x80C0, 0x80CC, 0x8020, 0x8200, 0x811E):
            out += [('DataRead(%#06x, MMIO)' % a, '@tf_dread', '@ti_dread', [impl, a, False], []), ('DataWrite(%#06x, MMIO)' % a, '@tf_dwrite', '@ti_dwrite', [impl, a, v, False], [])]
            out += [('DataRead(%#06x, bypassing the MMIO window)' % a, '@tf_dread', '@ti_dread', [impl, a, True], []), ('DataWrite(%#06x, bypassing the MMIO window)' % a, '@tf_dwrite', '@ti_dwrite', [impl, a, v, True], [])]
        for a in (0x0C0, 0x8C4, 0x10CC, 0x020, 0x200):
            out += [('MMIORead(%#06x)' % a, '@tf_mmioread', '@ti_host_mmio_read', [impl, a], []), ('MMIOWrite(%#06x)' % a, '@tf_mmiowrite', '@ti_host_mmio_write', [impl, a, v], [])]
    elif subset == 'callbacks':
        F = lambda k: Ptr('F', k)
        for i in range(3):
            out.append(('SetRecvDataHandler(%d)' % i, '@tf_setrecvhandler', '@ts_setrecvhandler', [impl, i, F(11)], []))
        out += [('SetSemaphoreHandler', '@tf_setsemhandler', '@ts_setsemhandler', [impl, F(12)], []), ('SetAudioCallback', '@tf_setaudiocb', '@ts_setaudiocb', [impl, F(13)], []),
                ('SetAHBMCallback', '@tf_setahbmcb', '@ts_setahbmcb', [impl] + [F(20 + k) for k in range(6)], [])]
    elif subset == 'dma':
        out += [('DMAChan0GetSrcHigh', '@tf_dmachan0srchigh', '@ts_dmachan0srchigh', [impl], []), ('DMAChan0GetDstHigh', '@tf_dmachan0dsthigh', '@ts_dmachan0dsthigh', [impl], [])]
        for i in range(3):
            out += [('AHBMGetUnitSize(%d)' % i, '@tf_ahbmunitsize', '@ts_ahbmunitsize', [impl, i], []), ('AHBMGetDirection(%d)' % i, '@tf_ahbmdirection', '@ts_ahbmdirection', [impl, i], []),
                    ('AHBMGetDmaChannel(%d)' % i, '@tf_ahbmdmachannel', '@ts_ahbmdmachannel', [impl, i], [])]
    return out


def obligations(ck, subset):
    from checks import c19
    G = graph.get()
    if subset == 'callbacks':
        # the setters destroy the previously installed std::function: start from the constructed graph (empty handlers), not
        # from C19's state whose host handlers are opaque markers
        from checks import c12
        ex, st, ctx, A, names, nstor = c12.overlay(G)
        hostcb = []
    else:
        ex, st, ctx, A, names, hostcb = c19.setup(G)
    if subset == 'mem':
        # memory API: the MIU as Reset leaves it (MMIO window at 0x8000, default paging); everything else as in the overlay
        st = st.fork()
        L = G.L['MemoryInterfaceUnit']
        for f, val in (('x_page', 0), ('y_page', 0), ('z_page', 0), ('page_mode', 0), ('mmio_base', 0x8000)):
            ex.store(st, Ptr(ctx['impl'].r, G.off['miu'] + L[f][0]), 2, val)
        A = list(A) + [names['miu.' + f] == val for f, val in (('x_page', 0), ('y_page', 0), ('z_page', 0), ('page_mode', 0), ('mmio_base', 0x8000)) if 'miu.' + f in names]
    pinned = set()
    for nm, f_api, f_spec, args, pre in pairs(ctx['impl'], subset):
        name = 'Facade[Teakra::%s]' % nm
        try:
            for attempt in range(3):
                sa, sb = st.fork(), st.fork()
                sa.pc += pre
                sb.pc += pre
                ra = c19.lin_run(G, ex, sa, ctx, hostcb, [('op', f_api, args)])
                rb = c19.lin_run(G, ex, sb, ctx, hostcb, [('op', f_spec, args)])
                locs = ra['writes'] | rb['writes']
                fresh = locs - pinned
                if not fresh:
                    break
                for rid, off, n_ in fresh:
                    ex.load(st, Ptr(rid, off), n_)
                pinned.update(fresh)
        except (Abort, UnwindBound) as x:
            ck.inconclusive.append('%s: %s' % (name, str(x)[:120]))
            continue
        ck.nstates += 2
        goal = c19.same_outcome(ex, ra, rb, locs, ('op',))
        ma, mb = ra['st'].mem[ctx['mem']].arr, rb['st'].mem[ctx['mem']].arr
        if not ma.eq(mb):
            goal = z3.And(goal, ma == mb)
        xa = kit.exit_cond(type('X', (), {'exits': ra['exits']})(), ('assert', 'abort', 'throw', 'trap', 'ub', 'uaf'))
        xb = kit.exit_cond(type('X', (), {'exits': rb['exits']})(), ('assert', 'abort', 'throw', 'trap', 'ub', 'uaf'))
        goal = z3.And(goal, xa == xb) if not z3.simplify(xa).eq(z3.simplify(xb)) else goal
        if z3.is_true(z3.simplify(goal)):
            ck.identical(name, sample=('Teakra::%s on the real object graph: return value, every written location, host-callback counts and the DSP memory are identical terms to the component operation it forwards to' % nm) if nm in ('RecvData(1)', 'DataWriteA32', 'DMAChan0GetSrcHigh') else None)
        else:
            vars_ = {'value': z3.BitVec('value', 16), 'addr16': z3.BitVec('addr16', 16), 'addr32': z3.BitVec('addr32', 32), 'bypass': z3.Bool('bypass')}
            vars_.update({n: t for n, t in names.items() if n.startswith(('apbp', 'dma.', 'ahbm.', 'miu.'))})
            ck.prove(name, list(A) + pre, goal, vars=vars_, witness=False,
                     sample='Teakra::%s == the component operation it forwards to (return value, every written location, callbacks, memory)' % nm)
    ck.funcs.update(['src/teakra.cpp public API wrappers (%s subset)' % subset])
