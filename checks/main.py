import argparse, importlib, os, sys, json, time, resource


def main():
    ap = argparse.ArgumentParser()
    ap.add_argument('prop')
    ap.add_argument('--tier', default=os.environ.get('VERIF_TIER', 'quick'))
    ap.add_argument('--replay')
    a = ap.parse_args()
    seed = int(os.environ.get('VERIF_SEED', '0') or 0)
    sys.setrecursionlimit(100000)
    try:
        resource.setrlimit(resource.RLIMIT_STACK, (resource.RLIM_INFINITY, resource.RLIM_INFINITY))
    except Exception:
        pass
    import threading
    threading.stack_size(512 * 1024 * 1024)
    mod = importlib.import_module('checks.' + a.prop.lower())
    rc = [3]

    def body():
        try:
            if a.replay:
                rc[0] = mod.replay(a.replay)
            else:
                rc[0] = mod.run(a.tier if a.tier in ('quick', 'thorough') else 'quick', seed)
        except SystemExit as e:
            rc[0] = e.code if isinstance(e.code, int) else 3
        except BaseException:
            import traceback
            traceback.print_exc()
            print('ENGINE ERROR: check %s crashed (exit 3, not a verdict)' % a.prop)
            rc[0] = 3
    t = threading.Thread(target=body)
    t.start()
    t.join()
    sys.stdout.flush()
    os._exit(rc[0])


main()
