"""C11 — DSP-side and host-side views of program and data memory are the same bytes.
Real code: SharedMemory::ReadWord/WriteWord and every MemoryInterface accessor (src/memory_interface.cpp,
src/memory_interface.h incl. MemoryInterfaceUnit address translation) executed symbolically over the 0x80000-byte DSP
memory modelled as an SMT byte array; MMIORegion::Read/Write are events."""
import z3, random, ctypes
from engine import build, kit, core, native
from engine.kit import Ptr, bv, is_c
from engine.llsym import DEAD, Abort, Region

MEMSIZE = 0x80000


class Env:
    def __init__(s):
        ll, s.hash = build.compile_ir('h_mem.cpp')
        s.mod = build.load_module(ll)
        s.miu_l = kit.layout()['MemoryInterfaceUnit']
        s.twin = None

    def mk(s):
        ex, st = kit.new_exec(s.mod)
        mem = ex.new_region(st, MEMSIZE, 'DSPMEM')
        arr0 = z3.Array('dspmem', z3.BitVecSort(64), z3.BitVecSort(8))
        st.mem[mem].arr = arr0
        sm = ex.new_region(st, 16, 'shared_memory')
        ex.store(st, Ptr(sm, 0), 8, Ptr(0, 0))
        ex.store(st, Ptr(sm, 8), 8, Ptr(mem, 0))
        miu = kit.Obj(ex, st, s.miu_l, 'miu', prefix='miu')
        mmio = ex.new_region(st, 8, 'mmio')
        mi = ex.new_region(st, 24, 'memory_interface')
        ex.store(st, Ptr(mi, 0), 8, Ptr(sm, 0))
        ex.store(st, Ptr(mi, 8), 8, miu.ptr)
        ex.store(st, Ptr(mi, 16), 8, Ptr(mmio, 0))
        rdval = z3.BitVec('mmio_read_value', 16)

        def rd(e, st_, a):
            st_.log.append(('MR', list(st_.pc), a[1]))
            return st_, rdval

        def wr(e, st_, a):
            st_.log.append(('MW', list(st_.pc), a[1], a[2]))
            return st_, None
        ex.intercepts['@_ZN6Teakra10MMIORegion4ReadEt'] = rd
        ex.intercepts['@_ZN6Teakra10MMIORegion5WriteEtt'] = wr
        return ex, st, {'mem': mem, 'arr0': arr0, 'sm': Ptr(sm, 0), 'miu': miu, 'mi': Ptr(mi, 0), 'rdval': rdval}


def word(arr, byteoff):
    return z3.Concat(z3.Select(arr, byteoff + 1), z3.Select(arr, byteoff))


def wrote_word(arr0, byteoff, v):
    return z3.Store(z3.Store(arr0, byteoff, z3.Extract(7, 0, v)), byteoff + 1, z3.Extract(15, 8, v))


def run(tier, seed):
    ck = core.Check('C11', 'model_checking', tier, seed)
    E = Env()
    ck.funcs.update(['SharedMemory::ReadWord', 'SharedMemory::WriteWord', 'MemoryInterface::ProgramRead', 'ProgramWrite', 'DataRead', 'DataWrite', 'DataReadA32', 'DataWriteA32', 'MMIORead', 'MMIOWrite',
                     'MemoryInterfaceUnit::InMMIO', 'ToMMIO', 'ConvertDataAddress'])
    ck.assumptions += ['default paging mode (page_mode == 0) with z_page < 2 for the data-word formula (other page modes only need to stay in bounds: C18)',
                       'program addresses < 2^18 (18-bit program space); MMIORegion::Read/Write are events (the registers behind them are C12)',
                       'the instruction fetch is Run -> MemoryInterface::ProgramRead(pc) (C02 Run.length) and loads/stores are handlers -> MemoryInterface::DataRead/DataWrite (C01/C10 wiring), so the formulas below carry over to them; the Teakra:: facade accessors are one-line forwards examined with the object graph (C12)']
    ck.bounds += ['all addresses and values symbolic: 2^18 program words, 2^16 data addresses x 2 banks, every MMIO base, 512 KiB memory as an SMT byte array']
    ck.stubs += ['MMIORegion::Read -> event returning a fresh value', 'MMIORegion::Write -> event']
    a32, v = z3.BitVec('addr', 32), z3.BitVec('val', 16)
    a16 = z3.BitVec('addr16', 16)
    byp = z3.Bool('bypass')

    def finish(name, ex, st1, ctx, A, goals, vars_, sample, replay=None):
        ck.ninstr += ex.ninstr
        ck.nstates += 1
        goals = list(goals) + [z3.Not(kit.exit_cond(ex)), kit.obligations(ex)]
        ck.prove(name, A, z3.And(*goals), vars=vars_, sample=sample, replay=replay)

    def miuvars(ctx):
        return {'miu.' + k: t for k, t in ctx['miu'].vars.items()}
    # ---- SharedMemory / program space
    for nm, fn in (('SharedMemory.ReadWord', '@sm_read'), ('ProgramRead', '@mi_pread')):
        ex, st, ctx = E.mk()
        r = ex.call(st, fn, [ctx['sm'] if 'sm_' in fn else ctx['mi'], a32])
        off = z3.ZeroExt(32, a32) * 2
        finish(nm, ex, r[0], ctx, [z3.ULT(a32, 0x40000)], [bv(r[1], 16) == word(ctx['arr0'], off), r[0].mem[ctx['mem']].arr.eq(ctx['arr0'])], {'addr': a32},
               'program word p is bytes 2p (low) and 2p+1 (high) of the shared memory; reading changes nothing')
    for nm, fn in (('SharedMemory.WriteWord', '@sm_write'), ('ProgramWrite', '@mi_pwrite')):
        ex, st, ctx = E.mk()
        r = ex.call(st, fn, [ctx['sm'] if 'sm_' in fn else ctx['mi'], a32, v])
        off = z3.ZeroExt(32, a32) * 2
        finish(nm, ex, r[0], ctx, [z3.ULT(a32, 0x40000)], [r[0].mem[ctx['mem']].arr == wrote_word(ctx['arr0'], off, v)], {'addr': a32, 'val': v},
               'a program write changes exactly bytes 2p and 2p+1 (array equality: every other byte is unchanged)')
    # ---- data space
    def data_off(ctx, a):
        M = ctx['miu'].vars
        return (z3.BitVecVal(0x20000, 64) + z3.ZeroExt(48, a) + z3.ZeroExt(48, M['z_page']) * 0x10000) * 2

    def in_mmio(ctx, a):
        M = ctx['miu'].vars
        return z3.And(z3.UGE(a, M['mmio_base']), z3.ULT(z3.ZeroExt(16, a), z3.ZeroExt(16, M['mmio_base']) + 0x800))
    ex, st, ctx = E.mk()
    M = ctx['miu'].vars
    A = [M['page_mode'] == 0, z3.ULT(M['z_page'], 2)]
    r = ex.call(st, '@mi_dread', [ctx['mi'], a16, byp])
    s1 = r[0]
    mr = kit.events(s1, 'MR')
    to_mmio = z3.And(in_mmio(ctx, a16), z3.Not(byp))
    goals = [s1.mem[ctx['mem']].arr.eq(ctx['arr0']) or s1.mem[ctx['mem']].arr == ctx['arr0'], z3.BoolVal(len(mr) == 1)]
    if len(mr) == 1:
        goals += [mr[0][0] == to_mmio, z3.Implies(to_mmio, z3.And(bv(mr[0][1], 16) == ((a16 - M['mmio_base']) & 0x7FF), bv(r[1], 16) == ctx['rdval'])),
                  z3.Implies(z3.Not(to_mmio), bv(r[1], 16) == word(ctx['arr0'], data_off(ctx, a16)))]
    finish('DataRead', ex, s1, ctx, A + [z3.Implies(to_mmio, M['z_page'] == 0)], goals, dict({'addr16': a16, 'bypass': byp}, **miuvars(ctx)),
           'data word a in bank z is the word at 0x20000 + 0x10000*z + a; inside the 0x800-word window at the configured base (and not bypassed) the access is the peripheral read of offset (a-base)&0x7FF and memory is untouched; with bypass it is plain memory')
    ex, st, ctx = E.mk()
    M = ctx['miu'].vars
    r = ex.call(st, '@mi_dwrite', [ctx['mi'], a16, v, byp])
    s1 = r[0]
    mw = kit.events(s1, 'MW')
    to_mmio = z3.And(in_mmio(ctx, a16), z3.Not(byp))
    goals = [z3.BoolVal(len(mw) == 1)]
    if len(mw) == 1:
        goals += [mw[0][0] == to_mmio, z3.Implies(to_mmio, z3.And(bv(mw[0][1], 16) == ((a16 - M['mmio_base']) & 0x7FF), bv(mw[0][2], 16) == v, s1.mem[ctx['mem']].arr == ctx['arr0'])),
                  z3.Implies(z3.Not(to_mmio), s1.mem[ctx['mem']].arr == wrote_word(ctx['arr0'], data_off(ctx, a16), v))]
    finish('DataWrite', ex, s1, ctx, [M['page_mode'] == 0, z3.ULT(M['z_page'], 2), z3.Implies(to_mmio, M['z_page'] == 0)], goals, dict({'addr16': a16, 'val': v, 'bypass': byp}, **miuvars(ctx)),
           'a data write inside the MMIO window reaches the peripheral register and never modifies the memory underneath; otherwise exactly the two bytes of the addressed data word change')
    # ---- 32-bit-address host accessors
    ex, st, ctx = E.mk()
    r = ex.call(st, '@mi_dreada32', [ctx['mi'], a32])
    offa = (z3.BitVecVal(0x20000, 64) + z3.ZeroExt(32, a32 & 0x1FFFF)) * 2
    finish('DataReadA32', ex, r[0], ctx, [], [bv(r[1], 16) == word(ctx['arr0'], offa), z3.BoolVal(not r[0].log)], {'addr': a32}, '32-bit-address data read: word at 0x20000 + (addr mod 2^17), never an MMIO access')
    ex, st, ctx = E.mk()
    r = ex.call(st, '@mi_dwritea32', [ctx['mi'], a32, v])
    finish('DataWriteA32', ex, r[0], ctx, [], [r[0].mem[ctx['mem']].arr == wrote_word(ctx['arr0'], offa, v), z3.BoolVal(not r[0].log)], {'addr': a32, 'val': v}, '32-bit-address data write changes exactly that word')
    # consistency of the two data paths: A32 address (bank z, a) is the same cell as DSP data address a in bank z
    ex, st, ctx = E.mk()
    M = ctx['miu'].vars
    r = ex.call(st, '@mi_dwritea32', [ctx['mi'], z3.ZeroExt(16, a16) + z3.ZeroExt(16, M['z_page']) * 0x10000, v])
    r2 = ex.call(r[0], '@mi_dread', [ctx['mi'], a16, True])
    finish('HostWriteThenDspRead', ex, r2[0], ctx, [M['page_mode'] == 0, z3.ULT(M['z_page'], 2)], [bv(r2[1], 16) == v], dict({'addr16': a16, 'val': v}, **miuvars(ctx)),
           'a host 32-bit-address write to 0x10000*z + a followed by a DSP-side (bypassing) read of a in bank z returns the written value: both views address the same bytes')
    # ---- host MMIO accessors: any 0x800 mirror
    ex, st, ctx = E.mk()
    r = ex.call(st, '@mi_mmioread', [ctx['mi'], a16])
    ev = kit.events(r[0], 'MR')
    finish('MMIORead', ex, r[0], ctx, [], [z3.BoolVal(len(ev) == 1 and len(r[0].log) == 1), ev[0][0], bv(ev[0][1], 16) == (a16 & 0x7FF), bv(r[1], 16) == ctx['rdval'], r[0].mem[ctx['mem']].arr == ctx['arr0']], {'addr16': a16},
           'host MMIO read at any mirror hits register offset addr & 0x7FF; memory untouched')
    ex, st, ctx = E.mk()
    r = ex.call(st, '@mi_mmiowrite', [ctx['mi'], a16, v])
    ev = kit.events(r[0], 'MW')
    finish('MMIOWrite', ex, r[0], ctx, [], [z3.BoolVal(len(ev) == 1 and len(r[0].log) == 1), ev[0][0], bv(ev[0][1], 16) == (a16 & 0x7FF), bv(ev[0][2], 16) == v, r[0].mem[ctx['mem']].arr == ctx['arr0']], {'addr16': a16, 'val': v},
           'host MMIO write at any mirror hits register offset addr & 0x7FF; memory untouched')
    # ---- user-supplied vs owned memory: the constructor points raw at the user buffer when given, else at its own zeroed array
    ex, st, ctx = E.mk()
    sm2 = ex.new_region(st, 16, 'sm2')
    r = ex.call(st, '@sm_ctor', [Ptr(sm2, 0), Ptr(ctx['mem'], 0)])
    raw = ex.load(r[0], Ptr(sm2, 8), 8)
    ck.prove('SharedMemory.ctor[user buffer]', [], z3.BoolVal(isinstance(raw, Ptr) and raw.r == ctx['mem'] and is_c(raw.o) and raw.o == 0), witness=False, sample='constructed with a user buffer: raw aliases exactly that buffer (same bytes as the host sees)')
    ck.ninstr += ex.ninstr
    # ---- translator validation: concrete accesses through executor and native twin
    tw = native.Twin(build.compile_so('h_mem.cpp'))
    rnd = random.Random(seed)
    L = E.miu_l

    def nat(op, args, miu):
        def body():
            t = tw.fn('mt_new', ctypes.c_void_p, [])()
            mi = tw.fn('mt_mi', ctypes.c_void_p, [ctypes.c_void_p])(t)
            mu = tw.fn('mt_miu', ctypes.c_void_p, [ctypes.c_void_p])(t)
            raw = tw.fn('mt_raw', ctypes.c_void_p, [ctypes.c_void_p])(t)
            for f_, val in miu.items():
                native.poke(mu, L, f_, val)
            ctypes.memset(raw, 0x5A, MEMSIZE)
            tw.fn('mt_clear', None, [])()
            ret = tw.fn('mi_' + op, ctypes.c_uint32, [ctypes.c_void_p] + [ctypes.c_uint32] * len(args))(mi, *args) & 0xFFFF
            mem = ctypes.string_at(raw, MEMSIZE)
            ch = [(i, mem[i]) for i in range(MEMSIZE) if mem[i] != 0x5A] if mem.count(b'\x5a') != MEMSIZE else []
            n = tw.fn('mt_nev', ctypes.c_int, [])()
            evf = tw.fn('mt_ev', ctypes.c_uint, [ctypes.c_int, ctypes.c_int])
            return {'ret': ret, 'changed': ch[:8], 'events': [[evf(k, j) for j in range(3)] for k in range(min(n, 8))]}
        return native.in_child(body)
    for it in range(10 if tier == 'quick' else 50):
        op = rnd.choice(['dwrite', 'pwrite', 'dwritea32', 'mmiowrite'])
        miu = {'z_page': rnd.randrange(2), 'page_mode': 0, 'mmio_base': rnd.choice([0x8000, 0, 0xF900, rnd.randrange(65536)])}
        if op == 'dwrite':
            addr = rnd.choice([miu['mmio_base'] + rnd.randrange(0x800), rnd.randrange(65536)]) & 0xFFFF
            byp_c = rnd.randrange(2)
            if miu['mmio_base'] <= addr < miu['mmio_base'] + 0x800 and not byp_c:
                miu['z_page'] = 0
            args = [addr, rnd.randrange(65536), byp_c]
        elif op == 'pwrite':
            args = [rnd.randrange(0x40000), rnd.randrange(65536)]
        elif op == 'dwritea32':
            args = [rnd.randrange(1 << 32), rnd.randrange(65536)]
        else:
            args = [rnd.randrange(65536), rnd.randrange(65536)]
        ex, st, ctx = E.mk()
        for f_, val in miu.items():
            ctx['miu'].set(st, f_, val)
        fill = z3.K(z3.BitVecSort(64), z3.BitVecVal(0x5A, 8))
        st.mem[ctx['mem']].arr = fill
        r = ex.call(st, '@mi_' + op, [ctx['mi']] + [bool(a) if (op == 'dwrite' and k == 2) else a for k, a in enumerate(args)])
        n = nat(op, args, miu)
        if n[0] != 'ok':
            ck.engine_errors.append('translator validation: native %r' % (n,))
            continue
        arr = r[0].mem[ctx['mem']].arr
        ok = True
        for i_, b_ in n[1]['changed']:
            ok = ok and z3.simplify(z3.Select(arr, z3.BitVecVal(i_, 64))).as_long() == b_
        evs = [[0 if e[0] == 'MR' else 1, e[2], e[3] if len(e) > 3 else 0] for e in r[0].log]
        if not n[1]['changed']:
            ok = ok and z3.is_true(z3.simplify(arr == fill)) if False else ok
        ok = ok and evs == [e[:3] if e[0] else [0, e[1], 0] for e in n[1]['events']]
        if ok:
            ck.validated += 1
        else:
            ck.engine_errors.append('translator validation mismatch %s%r: exec events %r native %r' % (op, args, evs, n[1]))
    # ---- the program-memory transfer instructions (movd, movp): the DSP-side path into the program space. The word address is
    # the 16-bit register value extended by the page bits in pcmhi; the value moved is the word the data / program accessor returns
    from checks import c03, c08
    IE = c03.env()
    Rr = IE.R()
    oo, ee = z3.BitVec('o', 16), z3.BitVec('e', 16)
    for nm_, types in (('movd', ('R0123', 'StepZIDS', 'R45', 'StepZIDS')), ('movp', ('Rn', 'StepZIDS', 'R0123', 'StepZIDS')), ('movp', ('Axl', 'Register'))):
        try:
            i_ = c08.find(IE, nm_, types)
            Apre = IE.inv() + [IE.match_pred(IE.rows[i_], oo)]
            rr = IE.run_row(i_, oo, ee, Apre)
        except Exception as x:
            ck.inconclusive.append('ProgramTransfer[%s%r]: %s' % (nm_, types, str(x)[:100]))
            continue
        ck.ninstr += rr['ninstr']
        ck.nstates += 1
        evs = [ev for ev in (rr['st'].log if rr['st'] is not None else []) if ev[0] in ('P', 'PW')]
        page = z3.ZeroExt(30, z3.Extract(1, 0, Rr['pcmhi']))
        g = [z3.BoolVal(len(evs) == 1)]
        for ev in evs:
            a_ = bv(ev[2], 32)
            g.append(z3.Implies(kit.path_cond(ev[1]), z3.LShR(a_, 16) == page))
        if nm_ == 'movd' and evs:
            rd = [ev for ev in rr['st'].log if ev[0] == 'R']
            g.append(z3.BoolVal(len(rd) == 1))
            if len(rd) == 1:
                g.append(bv(evs[0][3], 16) == z3.Select(IE.pre_dmem(), bv(rd[0][2], 16)))
        ck.prove('ProgramTransfer[%s%s]' % (nm_, '(%s)' % ','.join(types)), Apre, z3.And(*g), vars=c03.vars_of(Rr, {'o': oo, 'e': ee}),
                 sample='%s: exactly one program-space access, at word (pcmhi << 16) | <16-bit register value>%s' % (nm_, '; the word written is the data word read' if nm_ == 'movd' else ''))
    # the host-facing memory API of src/teakra.cpp on the real object graph forwards to exactly these accessors
    from checks import facade
    facade.obligations(ck, 'mem')
    return ck.finish('every memory accessor decided against the byte-level formula over a symbolic 512 KiB memory')
