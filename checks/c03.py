"""C03 — accumulator add/subtract/compare/logic results, flags and saturation are exact.
Kernels: the real AddSub / SetAccFlag / SaturateAcc / SatAndSetAccAndFlag / ExtendOperandForAlm / ConditionPass against
the arithmetic model spec/alu.py (S).  Wiring: rows of the alm/alu/or/and/add/sub/cmp/moda/clr families dispatched through the
real decode table against a per-form specification built from the model (what the form names -> exact result)."""
import z3, random, os
from engine import build, kit, core
from engine.kit import Ptr, bv, is_c
from engine.llsym import DEAD, Abort, UnwindBound
from checks import interp
from spec import alu, forms

_E = None
MULOPS = ('Msu', 'Sqr', 'Sqra')


def env():
    global _E
    if _E is None:
        _E = interp.IEnv('cur')
        _E.base()
        _E.forms = forms.rows(build.REPO)
    return _E


def diff_goal(post, exp, R):
    goals, names = [], []
    for f in post:
        a = post[f]
        b = exp.get(f, R[f])
        if z3.is_expr(b) and a.eq(b):
            continue
        goals.append(a == b)
        names.append(f)
    return goals, names


def vars_of(R, extra=None):
    v = {'r.' + f: t for f, t in R.items()}
    v.update(extra or {})
    return v


# ------------------------------------------------------------------------------------------------ kernels
def job_kernels(tier, seed):
    E = env()
    ck = core.Check('C03', 'model_checking', tier, seed)
    ex, st0, ctx = E.base()
    regs, ip = ctx['regs'], ctx['interp']
    R = E.R()
    inv = E.inv()
    a, b = z3.BitVec('a', 64), z3.BitVec('b', 64)

    def run(fn, args):
        st = st0.fork()
        ex.exits, ex.oblig = [], []
        n0 = ex.ninstr
        r = ex.call(st, fn, args)
        ck.ninstr += ex.ninstr - n0
        ck.nstates += 1
        return r[0], r[1], regs.snapshot(r[0])
    for sub in (False, True):
        s1, ret, post = run('@k_addsub', [ip, a, b, int(sub)])
        res, c, ov = alu.addsub(a, b, sub)
        exp = alu.with_cv(R, c, ov)
        g, _ = diff_goal(post, exp, R)
        ck.prove('AddSub[%s]' % ('sub' if sub else 'add'), inv, z3.And(bv(ret, 64) == res, *g), vars=vars_of(R, {'a': a, 'b': b}),
                 sample='AddSub(a,b,%s) for arbitrary 64-bit a,b: result = exact 40-bit %s sign-extended, carry = bit 40 (borrow for sub), fv = signed overflow at bit 39, fvl latched, nothing else changes' % (sub, 'difference' if sub else 'sum'))
    v = z3.BitVec('v', 64)
    A40 = inv + [alu.SX40(alu.B40(v)) == v]
    s1, ret, post = run('@k_setaccflag', [ip, v])
    g, _ = diff_goal(post, alu.flags(R, v), R)
    ck.prove('SetAccFlag', A40, z3.And(*g), vars=vars_of(R, {'v': v}), sample='SetAccFlag(v), v sign-extended 40-bit: fz, fm, fe, fn exactly as defined on the 40-bit value; no other field changes')
    s1, ret, post = run('@k_saturate', [ip, v])
    exp = dict(R)
    exp['flm'] = z3.If(alu.fits32(v), R['flm'], alu.ONE16)
    g, _ = diff_goal(post, exp, R)
    ck.prove('SaturateAcc', A40, z3.And(bv(ret, 64) == alu.saturate(v), *g), vars=vars_of(R, {'v': v}), sample='SaturateAcc(v): nearest 32-bit bound iff v does not fit 32 bits, flm set in exactly that case and never cleared')
    names = {0: 'a[0]', 4: 'a[1]', 8: 'b[0]', 12: 'b[1]'}     # RegName values of a0,a1,b0,b1
    for rn, fld in names.items():
        s1, ret, post = run('@k_satset', [ip, rn, v])
        g, _ = diff_goal(post, alu.write_acc_sat(R, fld, v), R)
        ck.prove('SatAndSetAccAndFlag[%s]' % fld, A40, z3.And(*g), vars=vars_of(R, {'v': v}), sample='flags from the unsaturated value, then %s := saturate(v) iff sata == 0 (limit flag), else v' % fld)
    op16 = z3.BitVec('operand', 16)
    for k, nm in enumerate(forms.ENUMS['Alm']):
        s1, ret, post = run('@k_extalm', [ip, k, op16])
        if nm in ('Cmp', 'Sub', 'Add'):
            want = z3.SignExt(48, op16)
        elif nm in ('Addh', 'Subh'):
            want = z3.SignExt(32, z3.Concat(op16, z3.BitVecVal(0, 16)))
        else:
            want = z3.ZeroExt(48, op16)
        g, _ = diff_goal(post, R, R)
        ck.prove('ExtendOperand[%s]' % nm, inv, z3.And(bv(ret, 64) == want, *g), vars={'operand': op16}, witness=False,
                 sample='16-bit operand of %s is %s' % (nm, 'sign-extended' if nm in ('Cmp', 'Sub', 'Add') else ('placed in the high half' if nm in ('Addh', 'Subh') else 'zero-extended')) if nm in ('Add', 'Addh', 'Or') else None)
    c = z3.BitVec('cond', 16)
    st = st0.fork()
    r = ex.call(st, '@k_cond', [regs.ptr, c])
    got = r[1] if z3.is_bool(r[1]) else bv(r[1], 8) != 0
    ck.prove('ConditionPass', inv + [z3.ULT(c, 16)], z3.And(got == alu.cond_pass(R, z3.Extract(3, 0, c)), z3.Not(kit.exit_cond(ex))), vars=vars_of(R, {'cond': c}),
             sample='all 16 condition codes against the flag definitions')
    return ck.export()


# ------------------------------------------------------------------------------------------------ wiring
def spec_alm(R, opname, operand16, accname, imm8_form=False, bus40=None):
    """post-state of an alm/alu form: op applied to accumulator `accname` (field name) and the 16-bit operand (or, for the
    40-bit register sources, the sign-extended 40-bit bus value `bus40`, which is used as it is)"""
    if bus40 is not None:
        x = bus40
    elif opname in ('Cmp', 'Sub', 'Add'):
        x = z3.SignExt(48, operand16)
    elif opname in ('Addh', 'Subh'):
        x = z3.SignExt(32, z3.Concat(operand16, z3.BitVecVal(0, 16)))
    else:
        x = z3.ZeroExt(48, operand16)
    acc = R[accname]
    if opname in ('Or', 'And', 'Xor'):
        val = {'Or': acc | x, 'And': acc & x, 'Xor': acc ^ x}[opname]
        val = alu.SX40(alu.B40(val))
        R2 = alu.write_acc_nosat(R, accname, val)
        if imm8_form and opname == 'And':
            # documented hardware quirk: and #imm8 leaves bits 8..15 of the accumulator, flags as if they were cleared
            R2[accname] = (acc & 0xFF00) | (val & z3.BitVecVal(0xFFFFFFFFFFFF00FF, 64))
        return R2
    if opname == 'Tst0':
        R2 = dict(R)
        R2['fz'] = alu.b16((z3.Extract(15, 0, acc) & operand16) == 0)
        return R2
    if opname == 'Tst1':
        R2 = dict(R)
        R2['fz'] = alu.b16((z3.Extract(15, 0, acc) & ~operand16) == 0)
        return R2
    sub = opname in ('Cmp', 'Cmpu', 'Sub', 'Subl', 'Subh')
    res, c, ov = alu.addsub(acc, x, sub)
    R2 = alu.with_cv(R, c, ov)
    if opname in ('Cmp', 'Cmpu'):
        return alu.flags(R2, res)
    return alu.write_acc_sat(R2, accname, res)


def ite_posts(posts, R):
    """posts: [(cond, dict)] first matching wins, last is default"""
    out = {}
    for f in R:
        t = posts[-1][1][f]
        for c, d in reversed(posts[:-1]):
            t = t if d[f] is t else z3.If(c, d[f], t)
        out[f] = t
    return out


ACCFLAGS = ('a[0]', 'a[1]', 'b[0]', 'b[1]', 'fz', 'fm', 'fe', 'fn', 'fc0', 'fv', 'fvl', 'flm')


def job_row(i, tier, seed, variant=None):
    E = env()
    ck = core.Check('C03', 'model_checking', tier, seed)
    row, form = E.rows[i], E.forms[i]
    if row['name'] != form['name']:
        ck.engine_errors.append('decoder.h row %d is %s but executed table has %s' % (i, form['name'], row['name']))
        return ck.export()
    o, e = z3.BitVec('o', 16), z3.BitVec('e', 16)
    R = E.R()
    A = E.inv() + [E.match_pred(row, o)]
    nm = row['name']
    ops = [p for p in form['ops'] if p[0] in ('at', 'const')]
    types = tuple(p[1] for p in ops)
    if variant == 'bus40':
        if not (nm == 'alm' and types == ('Alm', 'Register', 'Ax')):
            return ck.export()
        nm = 'alm#bus40'
    F = lambda k: forms.field(o, e, ops[k])
    dm0 = E.pre_dmem()
    spec = None
    memspec = 'same'
    extra = []
    intercepts = {}
    only_fields = None
    accs = lambda ty: forms.ENUMS[ty]

    def over_acc(ty, idx, fn):
        names = accs(ty)
        return alu.acc_store(lambda n_: fn(alu.ACC[n_]), idx, names, R) if not is_c(idx) else fn(alu.ACC[names[idx]])

    def over_op(ty, idx, fn, allowed):
        names = forms.ENUMS[ty]
        if is_c(idx):
            return fn(names[idx])
        posts = [(idx == k, fn(n_)) for k, n_ in enumerate(names) if n_ in allowed]
        return ite_posts(posts, R)
    ALLOWED = [n_ for n_ in forms.ENUMS['Alm'] if n_ not in MULOPS]
    if nm == 'alm_r6' and types == ('Alm', 'Ax'):
        opn = forms.ENUMS['Alm'][ops[0][2]]
        if opn in MULOPS:
            return ck.export()
        spec = over_acc('Ax', F(1), lambda acc: spec_alm(R, opn, R['r[6]'], acc))
    elif nm == 'alu' and types in (('Alu', 'Imm16', 'Ax'), ('Alu', 'Imm8', 'Ax')):
        imm = F(1) if types[1] == 'Imm16' else z3.ZeroExt(8, F(1))
        spec = over_acc('Ax', F(2), lambda acc: over_op('Alu', F(0), lambda opn: spec_alm(R, opn, imm, acc, imm8_form=(types[1] == 'Imm8')), ('Or', 'And', 'Xor', 'Add', 'Cmp', 'Sub')))
    elif nm in ('alu', 'alm') and types[1] in ('MemImm16', 'MemR7Imm16', 'MemR7Imm7s', 'MemImm8') and len(types) == 3:
        if types[1] == 'MemImm16':
            addr = F(1)
        elif types[1] == 'MemR7Imm16':
            addr = F(1) + R['r[7]']
        elif types[1] == 'MemR7Imm7s':
            addr = z3.SignExt(9, F(1)) + R['r[7]']
        else:
            addr = z3.ZeroExt(8, F(1)) + (R['page'] << 8)
        val = z3.Select(dm0, addr)
        allowed = ('Or', 'And', 'Xor', 'Add', 'Cmp', 'Sub') if types[0] == 'Alu' else ALLOWED
        if types[0] == 'Alm':
            extra = [z3.And(*[F(0) != forms.ENUMS['Alm'].index(m_) for m_ in MULOPS])]
        spec = over_acc('Ax', F(2), lambda acc: over_op(types[0], F(0), lambda opn: spec_alm(R, opn, val, acc), allowed))
    elif nm == 'alm' and types == ('Alm', 'Register', 'Ax'):
        # register operands that are plain 16-bit reads of the state (operand.h Register order): r0..r5, r7, y0, the accumulator
        # halves, sv. The read does NOT saturate (that is the mov family's privilege). The 40-bit sources (p, a0, a1), the
        # status words, pc/sp/lc/ext are left to the reference comparison.
        REG = {0: R['r[0]'], 1: R['r[1]'], 2: R['r[2]'], 3: R['r[3]'], 4: R['r[4]'], 5: R['r[5]'], 6: R['r[7]'], 7: R['y[0]'],
               16: z3.Extract(31, 16, R['b[0]']), 17: z3.Extract(31, 16, R['b[1]']), 18: z3.Extract(15, 0, R['b[0]']), 19: z3.Extract(15, 0, R['b[1]']),
               26: z3.Extract(15, 0, R['a[0]']), 27: z3.Extract(15, 0, R['a[1]']), 28: z3.Extract(31, 16, R['a[0]']), 29: z3.Extract(31, 16, R['a[1]']), 31: R['sv']}
        idx = F(1)
        val = None
        for k_, t_ in REG.items():
            val = t_ if val is None else z3.If(idx == k_, t_, val)
        extra = [z3.Or(*[idx == k_ for k_ in REG]), z3.And(*[F(0) != forms.ENUMS['Alm'].index(m_) for m_ in MULOPS])]
        spec = over_acc('Ax', F(2), lambda acc: over_op('Alm', F(0), lambda opn: spec_alm(R, opn, val, acc), ALLOWED))
    elif nm == 'alm#bus40':
        # the 40-bit register sources of alm <register>: p (read through the product shifter), a0, a1 - the whole 40-bit
        # value is the operand; only or/and/xor/add/cmp/sub are defined for them (the others raise Unimplemented)
        B40OPS = ('Or', 'And', 'Xor', 'Add', 'Cmp', 'Sub')
        idx = F(1)
        src = z3.If(idx == 11, alu.product40(R, 0), z3.If(idx == 24, R['a[0]'], R['a[1]']))
        extra = [z3.Or(idx == 11, idx == 24, idx == 25), z3.Or(*[F(0) == forms.ENUMS['Alm'].index(m_) for m_ in B40OPS])]
        spec = over_acc('Ax', F(2), lambda acc: over_op('Alm', F(0), lambda opn: spec_alm(R, opn, None, acc, bus40=src), B40OPS))
    elif nm == 'alm' and types == ('Alm', 'Rn', 'StepZIDS', 'Ax'):
        # alm [Rn]: the operand is the data word at the address the stepper hands out (the stepping itself is C10's
        # subject and returns a fresh value here); accumulators and flags are compared, the address registers are not
        only_fields = ACCFLAGS
        extra = [z3.And(*[F(0) != forms.ENUMS['Alm'].index(m_) for m_ in MULOPS])]
        stepfn = [n for n in E.mod.funcs if 'Interpreter11RnAndModifyE' in n]
        if len(stepfn) != 1:
            ck.engine_errors.append('RnAndModify symbol not found')
            return ck.export()
        RNOLD = z3.BitVec('RNOLD_0', 16)

        def stepper(e_, st, a):
            st.log.append(('STEP', list(st.pc), a[1], a[2]))
            return st, RNOLD
        intercepts[stepfn[0]] = stepper
        spec = None       # built after the run: the operand is the word at the (single) address read
    elif nm in ('or_', 'and_') and len(types) == 3:
        def f(acc):
            va, vb = alu.acc_sel(R, F(0), accs(types[0])), alu.acc_sel(R, F(1), accs(types[1]))
            return alu.write_acc_nosat(R, acc, (va | vb) if nm == 'or_' else (va & vb))
        spec = over_acc(types[2], F(2), f)
    elif nm in ('add', 'sub') and types in (('Ab', 'Bx'), ('Bx', 'Ax'), ('Px', 'Bx')):
        def f(acc):
            if types[0] == 'Px':
                va = z3.If(F(0) == 0, alu.product40(R, 0), alu.product40(R, 1))
            else:
                va = alu.acc_sel(R, F(0), accs(types[0]))
            res, c, ov = alu.addsub(R[acc], va, nm == 'sub')
            return alu.write_acc_sat(alu.with_cv(R, c, ov), acc, res)
        spec = over_acc(types[1], F(1), f)
    elif nm in ('add_p1', 'sub_p1', 'cmp_p1_to', 'pacr1'):
        def f(acc):
            p1 = alu.product40(R, 1)
            if nm == 'pacr1':
                res, c, ov = alu.addsub(p1, z3.BitVecVal(0x8000, 64), False)
                return alu.write_acc_sat(alu.with_cv(R, c, ov), acc, res)
            res, c, ov = alu.addsub(R[acc], p1, nm != 'add_p1')
            R2 = alu.with_cv(R, c, ov)
            return alu.flags(R2, res) if nm == 'cmp_p1_to' else alu.write_acc_sat(R2, acc, res)
        spec = over_acc('Ax', F(0), f)
    elif nm == 'cmp' and types in (('Ax', 'Bx'), ('Bx', 'Ax')):
        va, vb = alu.acc_sel(R, F(0), accs(types[0])), alu.acc_sel(R, F(1), accs(types[1]))
        res, c, ov = alu.addsub(vb, va, True)
        spec = alu.flags(alu.with_cv(R, c, ov), res)
    elif nm in ('cmp_b0_b1', 'cmp_b1_b0'):
        va, vb = (R['b[0]'], R['b[1]']) if nm == 'cmp_b0_b1' else (R['b[1]'], R['b[0]'])
        res, c, ov = alu.addsub(vb, va, True)
        spec = alu.flags(alu.with_cv(R, c, ov), res)
    elif nm == 'lim':
        va = alu.acc_sel(R, F(0), accs('Ax'))
        def f(acc):
            R2 = alu.write_acc_nosat(R, acc, alu.saturate(va))
            R2['flm'] = z3.If(alu.fits32(va), R['flm'], alu.ONE16)
            return R2
        spec = over_acc('Ax', F(1), f)
    elif nm in ('moda4', 'moda3'):
        ty = 'Moda4' if nm == 'moda4' else 'Moda3'
        acct = 'Ax' if nm == 'moda4' else 'Bx'
        nonshift = ('Clr', 'Not', 'Neg', 'Rnd', 'Pacr', 'Clrr', 'Inc', 'Dec', 'Copy')
        extra = [z3.Or(*[F(0) == k for k, n_ in enumerate(forms.ENUMS[ty]) if n_ in nonshift])]
        cond = alu.cond_pass(R, F(2))

        def f(acc):
            def g(opn):
                a_ = R[acc]
                if opn == 'Clr':
                    return alu.write_acc_sat(R, acc, z3.BitVecVal(0, 64))
                if opn == 'Clrr':
                    return alu.write_acc_sat(R, acc, z3.BitVecVal(0x8000, 64))
                if opn == 'Not':
                    return alu.write_acc_nosat(R, acc, ~a_)
                if opn == 'Neg':
                    # hardware-validated rule: carry = (value != 0), overflow only for the most negative 40-bit value
                    R2 = alu.with_cv(R, a_ != 0, a_ == z3.BitVecVal(0xFFFFFF8000000000, 64))
                    return alu.write_acc_sat(R2, acc, alu.SX40(alu.B40(-a_)))
                if opn in ('Rnd', 'Inc', 'Dec', 'Pacr'):
                    base = alu.product40(R, 0) if opn == 'Pacr' else a_
                    res, c, ov = alu.addsub(base, z3.BitVecVal(0x8000 if opn in ('Rnd', 'Pacr') else 1, 64), opn == 'Dec')
                    return alu.write_acc_sat(alu.with_cv(R, c, ov), acc, res)
                if opn == 'Copy':
                    other = R['a[1]'] if acc == 'a[0]' else R['a[0]']
                    return alu.write_acc_sat(R, acc, other)
            return over_op(ty, F(0), g, nonshift)
        done = over_acc(acct, F(1), f)
        spec = {k: (done[k] if done[k] is R[k] else z3.If(cond, done[k], R[k])) for k in R}
    else:
        return ck.export()
    ex_ = E.base()[0]
    ex_.intercepts.update(intercepts)
    try:
        r = E.run_row(i, o, e, A + extra)
    except (Abort, UnwindBound) as x:
        ck.inconclusive.append('row %d %s: %r' % (i, nm, x))
        return ck.export()
    finally:
        for n_ in intercepts:
            ex_.intercepts.pop(n_, None)
    ck.ninstr += r['ninstr']
    ck.nstates += 1
    if r['st'] is None:
        ck.prove('Wiring[%d %s]' % (i, nm), A + extra, z3.BoolVal(False), vars={'o': o, 'e': e})
        return ck.export()
    post = E.post_regs(r['st'])
    pre_goals = []
    if spec is None:
        reads = [ev for ev in r['st'].log if ev[0] == 'R']
        steps = [ev for ev in r['st'].log if ev[0] == 'STEP']
        if len(reads) != 1 or len(steps) != 1:
            ck.prove('Wiring[%d %s%s]' % (i, nm, types), A + extra, z3.BoolVal(False), vars={'o': o, 'e': e})
            return ck.export()
        val = z3.Select(dm0, reads[0][2])
        # the address read is the stepped register's pre-modified value (through the real RnAddress: bit reversal applies)
        pre_goals.append(z3.BoolVal('RNOLD_0' in str(reads[0][2])))
        spec = over_acc('Ax', F(3), lambda acc: over_op('Alm', F(0), lambda opn: spec_alm(R, opn, val, acc), ALLOWED))
    if only_fields is not None:
        post = {f: post[f] for f in only_fields}
        spec = {f: spec[f] for f in only_fields}
    g, names = diff_goal(post, spec, R)
    g += pre_goals
    g.append(E.post_dmem(r['st']) == dm0)
    g.append(z3.Not(kit.exit_cond(type('X', (), {'exits': r['exits']})())))
    vars_ = vars_of(R, {'o': o, 'e': e})
    vars_.update({'exp.' + f: spec.get(f, R[f]) for f in names})
    vars_['exp.dmem_unchanged'] = z3.BoolVal(True)
    vars_.update(interp.read_vars(E, r['st']))
    ck.prove('Wiring[%d %s%s]' % (i, nm, types), A + extra, z3.And(*g), vars=vars_, replay=(interp.spec_replayer(E, i, names) if not intercepts else None),
             sample='row %d %s%s: post-state == model(pre-state) on all %d register fields, data memory unchanged, no abort; operand selectors symbolic' % (i, nm, types, len(post)))
    return ck.export()


def job_val(i, seed):
    return interp.validate_row(env(), i, seed, 'C03', 'model_checking')


def run(tier, seed):
    ck = core.Check('C03', 'model_checking', tier, seed)
    E = env()
    ck.funcs.update(['Interpreter::AddSub', 'SetAccFlag', 'SaturateAcc', 'SatAndSetAccAndFlag', 'ExtendOperandForAlm', 'RegisterState::ConditionPass', 'AlmGeneric', 'alm', 'alm_r6', 'alu (5 forms)',
                     'or_ (3)', 'and_', 'add/sub (3 forms each)', 'add_p1', 'sub_p1', 'cmp (2)', 'cmp_b0_b1', 'cmp_b1_b0', 'cmp_p1_to', 'moda4/moda3 (clr not neg rnd pacr clrr inc dec copy)', 'pacr1', 'lim'])
    ck.assumptions += ['pre-state satisfies Inv', 'operand forms (which opcode bits name which operand) are read from decoder.h INST lines',
                       'documented hardware quirks carried in the model: and #imm8 keeps accumulator bits 8..15; neg carry/overflow rule; logic ops do not saturate',
                       'alm <register>: plain 16-bit sources and the three 40-bit sources (p through the product shifter, a0, a1; or/and/xor/add/cmp/sub only, as the code defines) are modelled; status words, pc/sp/lc/ext sources are left to C01 (reference). alm [Rn]: the operand is the data word at the address the stepper returns (stepping abstracted to a fresh value - C10 decides it); accumulators and flags are compared. Multiply-flavoured ALM ops (msu, sqr, sqra) belong to C04']
    ck.bounds += ['no bound on values: 40-bit accumulators, 16-bit operands, all flag/saturation pre-states; operand selector fields symbolic inside each row']
    ck.stubs += E.tabulated
    fam = ('alm_r6', 'alu', 'alm', 'or_', 'and_', 'add', 'sub', 'add_p1', 'sub_p1', 'cmp', 'cmp_b0_b1', 'cmp_b1_b0', 'cmp_p1_to', 'pacr1', 'moda4', 'moda3', 'lim')
    rows = [r['i'] for r in E.rows if r['name'] in fam]
    res = core.pmap(job_kernels, [(tier, seed)]) + core.pmap(job_row, [(i, tier, seed) for i in rows] + [(r['i'], tier, seed, 'bus40') for r in E.rows if r['name'] == 'alm'])
    for r in res:
        if '__error__' in r:
            ck.engine_errors.append(r['__error__'])
        else:
            ck.absorb(r)
    for r in core.pmap(job_val, [(i, seed) for i in rows[::5]]):
        if '__error__' in r:
            ck.engine_errors.append(r['__error__'])
        else:
            ck.absorb(r)
    return ck.finish('kernel and per-form obligations against the independent arithmetic model spec/alu.py')
