"""C05 (C-binding clause only) — Teakra_Disasm_Do never writes more than the caller's buffer size, always NUL-terminates
and returns the same text/length as the C++ API.  Real code: src/disassembler_c.cpp executed symbolically with
Disassembler::Do replaced by an environment stub returning an arbitrary string (symbolic length L <= N, symbolic bytes).
The remaining clauses of C05 (token round trip, assembler, firmware) are not decided: see DESIGN.md section 3."""
import z3, random
from engine import build, kit, core, native
from engine.kit import Ptr, bv

DO = '@_ZN6Teakra12Disassembler2DoB5cxx11EttSt8optionalINS0_13ArArpSettingsEE'
PFX = '@_ZNKSt7__cxx1112basic_stringIcSt11char_traitsIcESaIcEE'
PAD = 8
_env = None


class Env:
    def __init__(s):
        ll, s.hash = build.compile_ir('h_disasm_c.cpp')
        s.mod = build.load_module(ll)
        s.twin = None

    def mk(s, N):
        ex, st = kit.new_exec(s.mod, unwind=N + 4)
        L = z3.BitVec('L', 64)
        chars = [z3.BitVec('s%d' % i, 8) for i in range(N)]
        buf = ex.new_region(st, N + 1, 'strbuf')
        for i in range(N):
            ex.store(st, Ptr(buf, i), 1, chars[i])
        ex.store(st, Ptr(buf, N), 1, 0)

        def do(e, st_, a):
            e.store(st_, a[0], 8, Ptr(buf, 0))
            e.store(st_, Ptr(a[0].r, a[0].o + 8), 8, L)
            return st_, None
        ex.intercepts[DO] = do
        ex.intercepts[PFX + '6lengthEv'] = lambda e, st_, a: (st_, e.load(st_, Ptr(a[0].r, a[0].o + 8), 8))
        ex.intercepts[PFX + '4sizeEv'] = ex.intercepts[PFX + '6lengthEv']

        def index(e, st_, a):
            p = e.load(st_, a[0], 8)
            if not kit.is_c(a[1]):
                raise kit.Abort('symbolic string index')
            return st_, Ptr(p.r, p.o + a[1])
        ex.intercepts['@_ZNSt7__cxx1112basic_stringIcSt11char_traitsIcESaIcEEixEm'] = index
        ex.intercepts[PFX + 'ixEm'] = index
        NPFX = '@_ZNSt7__cxx1112basic_stringIcSt11char_traitsIcESaIcEE'
        data = lambda e, st_, a: (st_, e.load(st_, a[0], 8))
        for nm in (PFX + '4dataEv', NPFX + '4dataEv', PFX + '5c_strEv', PFX + '5beginEv', NPFX + '5beginEv', PFX + '6cbeginEv'):
            ex.intercepts[nm] = data
        ex.intercepts[PFX + '5emptyEv'] = lambda e, st_, a: (st_, z3.If(e.load(st_, Ptr(a[0].r, a[0].o + 8), 8) == 0, z3.BitVecVal(1, 1), z3.BitVecVal(0, 1)))
        ex.intercepts['@_ZNSt7__cxx1112basic_stringIcSt11char_traitsIcESaIcEED2Ev'] = lambda e, st_, a: (st_, None)
        ex.intercepts['@_ZNSt7__cxx1112basic_stringIcSt11char_traitsIcESaIcEED1Ev'] = lambda e, st_, a: (st_, None)
        return ex, st, L, chars

    def run_native(s, text, dstlen, fill=0xAA, null=False):
        import ctypes
        if s.twin is None:
            s.twin = native.Twin(build.compile_so('h_disasm_c.cpp'))
        tw = s.twin

        def body():
            tw.fn('dw_set', None, [ctypes.c_char_p, ctypes.c_size_t])(bytes(text), len(text))
            size = PAD + max(dstlen, len(text)) + 8 + PAD
            raw = ctypes.create_string_buffer(bytes([fill]) * size, size)
            f = tw.fn('Teakra_Disasm_Do', ctypes.c_size_t, [ctypes.c_void_p, ctypes.c_size_t, ctypes.c_uint16, ctypes.c_uint16])
            ret = f(None if null else ctypes.addressof(raw) + PAD, dstlen, 0, 0)
            return {'ret': ret, 'mem': list(raw.raw)}
        return native.in_child(body)


def job(d, N, tier, seed):
    env = _env or Env()
    ck = core.Check('C05', 'other', tier, seed)
    ex, st, L, chars = env.mk(N)
    size = PAD + N + 4 + PAD
    dst = ex.new_region(st, size, 'dst')
    init = [z3.BitVec('m%d' % i, 8) for i in range(size)]
    for i in range(size):
        ex.store(st, Ptr(dst, i), 1, init[i])
    A = [z3.ULE(L, N)]
    st.pc += A
    try:
        r = ex.call(st, '@Teakra_Disasm_Do', [Ptr(dst, PAD), d, z3.BitVec('opcode', 16), z3.BitVec('expansion', 16)])
    except kit.Abort as x:
        if 'OOB' not in str(x):
            raise
        r = None
    vars_ = {'L': L, 'dstlen': d}
    vars_.update({'s%d' % i: chars[i] for i in range(N)})

    def rp(inputs):
        Lc = inputs['L']
        text = [inputs['s%d' % i] for i in range(Lc)]
        o = env.run_native(text, d)
        if o[0] != 'ok':
            return True, {'native': o}
        mem = o[1]['mem']
        bad = []
        if o[1]['ret'] != Lc:
            bad.append('return value %d != length %d' % (o[1]['ret'], Lc))
        for j, b in enumerate(mem):
            k_ = j - PAD
            if (k_ < 0 or k_ >= d) and b != 0xAA:
                bad.append('byte at dst[%d] written (buffer size %d)' % (k_, d))
        if d > 0:
            m_ = min(Lc, d - 1)
            if mem[PAD:PAD + m_] != text[:m_]:
                bad.append('copied text differs')
            if mem[PAD + m_] != 0:
                bad.append('dst[%d] is not NUL: the C string in dst is not the text (truncated to fit)' % m_)
        return bool(bad), {'why': bad[:4], 'ret': o[1]['ret']}

    if r is None:
        # a store left the region altogether: report through the normal channel with a trivial false goal
        ck.prove('Do.bounds[dstlen=%d]' % d, A, z3.BoolVal(False), vars=vars_, replay=rp, sample='store far outside the buffer')
        return ck.export()
    st1, ret = r
    ck.ninstr += ex.ninstr
    ck.nstates += 1
    post = [bv(ex.load(st1, Ptr(dst, i), 1), 8) for i in range(size)]
    goals = [bv(ret, 64) == L, z3.Not(kit.exit_cond(ex)), kit.obligations(ex)]
    for j in range(size):
        k_ = j - PAD
        if k_ < 0 or k_ >= d:
            goals.append(post[j] == init[j])
    if d > 0:
        for j in range(min(d - 1, N)):
            goals.append(z3.Implies(z3.UGT(L, j), post[PAD + j] == chars[j]))
        for m_ in range(0, min(d - 1, N) + 1):
            cond = (L == m_) if m_ < d - 1 else z3.UGE(L, m_)
            goals.append(z3.Implies(cond, post[PAD + m_] == 0))
    ck.prove('Do.contract[dstlen=%d]' % d, A, z3.And(*goals), vars=vars_, replay=rp,
             sample='buffer size %d, arbitrary text of length L <= %d: returns L, writes only dst[0..%d), dst holds the text truncated to %d characters followed by NUL' % (d, N, d, max(d - 1, 0)))
    return ck.export()


def run(tier, seed):
    global _env
    ck = core.Check('C05', 'other', tier, seed)
    _env = env = Env()
    N = 24 if tier == 'quick' else 112
    ck.funcs.update(['Teakra_Disasm_Do (src/disassembler_c.cpp)'])
    ck.stubs += ['Teakra::Disassembler::Do -> arbitrary std::string (symbolic length L <= N, symbolic bytes)', 'std::string::length/operator[]/~basic_string -> model of the {pointer,length} representation']
    ck.assumptions += ['dst, when non-null, points to at least dstlen writable bytes (the documented contract)']
    ck.bounds += ['text length L <= N = %d (the longest text Disassembler::Do renders for any first word is 104 characters), buffer sizes 0..N+2 enumerated, loop unwinding N+4 with unwinding check' % N,
                  'NOT DECIDED (outside this technique family here): token-level round trip through the assembler, injectivity of the printed text, Do == join(tokens), firmware assembly; unused-bit identity is decided in C02']
    for res in core.pmap(job, [(d, N, tier, seed) for d in range(0, N + 3)]):
        if '__error__' in res:
            ck.engine_errors.append(res['__error__'])
        else:
            ck.absorb(res)
    # null destination: nothing is written, length still returned
    ex, st, L, chars = env.mk(N)
    st.pc += [z3.ULE(L, N)]
    dl = z3.BitVec('dstlen', 64)
    r = ex.call(st, '@Teakra_Disasm_Do', [Ptr(0, 0), dl, 0, 0])
    ck.prove('Do.null_dst', [z3.ULE(L, N)], z3.And(bv(r[1], 64) == L, z3.Not(kit.exit_cond(ex))), vars={'L': L, 'dstlen': dl}, sample='dst == NULL, any dstlen: returns the length and touches no memory (any store through the null region would stop the executor)')
    ck.ninstr += ex.ninstr
    # translator validation: concrete strings/sizes through executor and native twin
    rnd = random.Random(seed)
    for it in range(12 if tier == 'quick' else 60):
        Lc = rnd.randrange(0, N + 1)
        text = [rnd.randrange(1, 256) for _ in range(Lc)]
        d = rnd.randrange(1, N + 3)
        ex, st, L, chars = env.mk(N)
        st.pc += [L == Lc] + [chars[i] == text[i] for i in range(Lc)]
        size = PAD + N + 4 + PAD
        dst = ex.new_region(st, size, 'dst')
        ex.fill(st, Ptr(dst, 0), size, 0xAA)
        r = ex.call(st, '@Teakra_Disasm_Do', [Ptr(dst, PAD), d, 0, 0])
        sub = [(L, z3.BitVecVal(Lc, 64))] + [(chars[i], z3.BitVecVal(text[i] if i < Lc else 0, 8)) for i in range(N)]
        got = [z3.simplify(z3.substitute(bv(ex.load(r[0], Ptr(dst, i), 1), 8), *sub)).as_long() for i in range(size)]
        nat = env.run_native(text, d)
        if nat[0] != 'ok' or nat[1]['mem'][:PAD + d + 2] != got[:PAD + d + 2]:
            ck.engine_errors.append('translator validation mismatch L=%d d=%d' % (Lc, d))
        else:
            ck.validated += 1
    # text clause: injectivity of the rendered token lists modulo unused bits, unused-bit inertness of the text, Do == join
    from checks import c05s
    c05s.run_text(ck, tier, seed)
    return ck.finish('C binding: Teakra_Disasm_Do against an arbitrary text of bounded length, for every buffer size 0..N+2. Text clause: every renderer of the real disassembler executed with std::string on an abstract domain; per row and per pair of rows that could collide, SMT decides that equal token lists imply equality up to unused bits, that unused bits never change the text, and that Do is the token list joined by four spaces. Not decided: the assembler generator (parser.cpp) itself - it is the inverse image of this text by construction - and the firmware sources.')
