"""C13 — a DMA transfer copies exactly the documented 3-D strided element sequence.
Real code: Dma::Channel::Start/Tick, Dma::DoDma, Dma::SetZ (src/dma.cpp, dma.h), SharedMemory, Ahbm::Read16/32,
Write16/32, GetChannelForDma (src/ahbm.cpp, with the real std::queue) executed symbolically over the DSP memory as an
SMT byte array; oracle: dma.md / ahbm.md (S)."""
import z3, random, ctypes, itertools
from engine import build, kit, core, native
from engine.kit import Ptr, bv, is_c
from engine.llsym import DEAD, Abort, UnwindBound

MEMSIZE = 0x80000
CHF = ['addr_src_low', 'addr_src_high', 'addr_dst_low', 'addr_dst_high', 'size0', 'size1', 'size2', 'src_step0', 'dst_step0', 'src_step1', 'dst_step1', 'src_step2', 'dst_step2',
       'src_space', 'dst_space', 'dword_mode', 'y', 'z', 'current_src', 'current_dst', 'counter0', 'counter1', 'counter2', 'running', 'ahbm_channel']
_E = None


class Env:
    def __init__(s):
        ll, s.hash = build.compile_ir('h_dma.cpp')
        s.mod = build.load_module(ll)
        L = kit.layout()
        s.dl, s.al = L['Dma'], L['Ahbm']

    def mk(s, ch=0, unwind=400, ahbm_real=False):
        ex, st = kit.new_exec(s.mod, unwind=unwind)
        mem = ex.new_region(st, MEMSIZE, 'DSPMEM')
        arr0 = z3.Array('dspmem', z3.BitVecSort(64), z3.BitVecSort(8))
        st.mem[mem].arr = arr0
        sm = ex.new_region(st, 16, 'shared_memory')
        ex.store(st, Ptr(sm, 0), 8, Ptr(0, 0))
        ex.store(st, Ptr(sm, 8), 8, Ptr(mem, 0))
        ah = ex.new_region(st, s.al['_size'][0], 'ahbm')
        dma = ex.new_region(st, s.dl['_size'][0], 'dma')
        # references sit after the channel array
        chan_end = (s.dl['channels'][0] + s.dl['channels'][1] + 7) & ~7
        ex.store(st, Ptr(dma, chan_end), 8, Ptr(sm, 0))
        ex.store(st, Ptr(dma, chan_end + 8), 8, Ptr(ah, 0))
        ex.store(st, Ptr(dma, s.dl['interrupt_handler'][0] + 16), 8, Ptr('F', 1))
        V = {}
        for c in range(8):
            for f in CHF:
                off, sz, cnt, stride = s.dl['ch.' + f]
                v = z3.BitVec('ch%d.%s' % (c, f), 8 * sz) if c == ch else 0
                ex.store(st, Ptr(dma, off + c * stride), sz, v)
                if c == ch:
                    V[f] = v
        ex.store(st, Ptr(dma, s.dl['enable_channel'][0]), 2, 0)
        ex.store(st, Ptr(dma, s.dl['active_channel'][0]), 2, ch)
        for n in s.mod.funcs:
            if n.endswith('functionIFvvEEclEv'):
                ex.intercepts[n] = kit.logger('IRQ')
        if not ahbm_real:
            def rd(bits):
                def f(e, st_, a):
                    k = len([1 for ev in st_.log if ev[0] == 'AR'])
                    v = z3.BitVec('ext_rd_%d' % k, bits)
                    st_.log.append(('AR', list(st_.pc), bits, a[1], a[2], v))
                    return st_, v
                return f

            def wr(bits):
                def f(e, st_, a):
                    st_.log.append(('AW', list(st_.pc), bits, a[1], a[2], a[3]))
                    return st_, None
                return f
            for n in s.mod.funcs:
                if 'Ahbm6Read16' in n:
                    ex.intercepts[n] = rd(16)
                elif 'Ahbm6Read32' in n:
                    ex.intercepts[n] = rd(32)
                elif 'Ahbm7Write16' in n:
                    ex.intercepts[n] = wr(16)
                elif 'Ahbm7Write32' in n:
                    ex.intercepts[n] = wr(32)
                elif 'Ahbm16GetChannelForDma' in n:
                    ex.intercepts[n] = lambda e, st_, a: (st_, z3.BitVec('ahbm_channel_for_dma', 16))
        return ex, st, {'mem': mem, 'arr0': arr0, 'dma': Ptr(dma, 0), 'V': V, 'ch': ch}

    def chan(s, ex, st, ctx):
        out = {}
        for f in CHF:
            off, sz, cnt, stride = s.dl['ch.' + f]
            out[f] = bv(ex.load(st, Ptr(ctx['dma'].r, off + ctx['ch'] * stride), sz), 8 * sz)
        return out


def word(arr, wordaddr64):
    return z3.Concat(z3.Select(arr, wordaddr64 * 2 + 1), z3.Select(arr, wordaddr64 * 2))


def put_word(arr, wordaddr64, v16):
    return z3.Store(z3.Store(arr, wordaddr64 * 2, z3.Extract(7, 0, v16)), wordaddr64 * 2 + 1, z3.Extract(15, 8, v16))


def dsp(cur32):
    return z3.ZeroExt(32, cur32) + 0x20000


def spec_advance(V):
    """dma.md: innermost counter first; a size of 0 behaves like 1; the cursor moves by the step of the dimension that advanced"""
    inc = z3.If(V['dword_mode'] != 0, z3.BitVecVal(2, 16), z3.BitVecVal(1, 16))
    c0 = V['counter0'] + inc
    row_done = z3.UGE(c0, V['size0'])
    c1 = V['counter1'] + 1
    plane_done = z3.UGE(c1, V['size1'])
    c2 = V['counter2'] + 1
    all_done = z3.UGE(c2, V['size2'])
    E = dict(V)
    E['counter0'] = z3.If(row_done, z3.BitVecVal(0, 16), c0)
    E['counter1'] = z3.If(row_done, z3.If(plane_done, z3.BitVecVal(0, 16), c1), V['counter1'])
    E['counter2'] = z3.If(z3.And(row_done, plane_done), c2, V['counter2'])
    E['running'] = z3.If(z3.And(row_done, plane_done, all_done), z3.BitVecVal(0, 16), V['running'])
    for side in ('src', 'dst'):
        st0, st1, st2 = [z3.ZeroExt(16, V['%s_step%d' % (side, k)]) for k in range(3)]
        cur = V['current_' + side]
        E['current_' + side] = z3.If(row_done, z3.If(plane_done, z3.If(all_done, cur, cur + st2), cur + st1), cur + st0)
    return E


def job_tick(mode, tier, seed):
    E = _E or Env()
    ck = core.Check('C13', 'model_checking', tier, seed)
    ex, st, ctx = E.mk(ch=3)
    V = ctx['V']
    arr0 = ctx['arr0']
    inrange = [z3.ULT(V['current_src'], 0x20000), z3.ULT(V['current_dst'], 0x20000)]
    src_sp, dst_sp, dw = {'w00': (0, 0, 0), 'd00': (0, 0, 1), 'w70': (7, 0, 0), 'w07': (0, 7, 0), 'd70': (7, 0, 1), 'd07': (0, 7, 1)}[mode]
    A = inrange + [V['src_space'] == src_sp, V['dst_space'] == dst_sp, (V['dword_mode'] != 0) if dw else (V['dword_mode'] == 0)]
    st.pc += A
    r = ex.call(st, '@dma_tick', [ctx['dma'], 3])
    s1 = r[0]
    ck.ninstr += ex.ninstr
    ck.nstates += 1
    post = E.chan(ex, s1, ctx)
    exp = spec_advance(V)
    g = [post[f] == exp[f] for f in CHF if not post[f].eq(exp[f])] + [z3.Not(kit.exit_cond(ex)), kit.obligations(ex), z3.Not(kit.any_event(s1, 'IRQ'))]
    arr1 = s1.mem[ctx['mem']].arr
    reads = [e for e in s1.log if e[0] == 'AR']
    writes = [e for e in s1.log if e[0] == 'AW']
    if src_sp == 0:
        if dw:
            lo, hi = dsp(V['current_src'] & 0xFFFFFFFE), dsp(V['current_src'] | 1)
            val = z3.Concat(word(arr0, hi), word(arr0, lo))
        else:
            val = word(arr0, dsp(V['current_src']))
        g.append(z3.BoolVal(not reads))
    else:
        g.append(z3.BoolVal(len(reads) == 1 and reads[0][2] == (32 if dw else 16)))
        if len(reads) == 1:
            g += [kit.path_cond(reads[0][1]), bv(reads[0][3], 16) == V['ahbm_channel'], bv(reads[0][4], 32) == V['current_src']]
            val = reads[0][5]
    if dst_sp == 0:
        if dw:
            lo, hi = dsp(V['current_dst'] & 0xFFFFFFFE), dsp(V['current_dst'] | 1)
            want = put_word(put_word(arr0, lo, z3.Extract(15, 0, val)), hi, z3.Extract(31, 16, val))
        else:
            want = put_word(arr0, dsp(V['current_dst']), val)
        g += [arr1 == want, z3.BoolVal(not writes)]
    else:
        g.append(z3.BoolVal(len(writes) == 1 and writes[0][2] == (32 if dw else 16)))
        if len(writes) == 1:
            g += [kit.path_cond(writes[0][1]), bv(writes[0][3], 16) == V['ahbm_channel'], bv(writes[0][4], 32) == V['current_dst'], bv(writes[0][5], 32 if dw else 16) == val, arr1 == arr0]
    vars_ = {'ch.' + f: V[f] for f in CHF}
    ck.prove('Tick[%s]' % mode, A, z3.And(*g), vars=vars_,
             sample='one element, %s mode, %s -> %s: the element at the source cursor is moved to the destination cursor (%s), exactly those bytes of DSP memory change, then counters and cursors advance innermost-first with zero sizes counting as one, running clears exactly at the last element'
             % ('double-word' if dw else 'word', 'DSP' if src_sp == 0 else 'external', 'DSP' if dst_sp == 0 else 'external', 'aligned pair of words' if dw else 'one word'))
    return ck.export()


def element_addresses(base, sizes, steps, dword):
    """dma.md address sequence for one side; base/steps are z3 32-bit terms; sizes concrete"""
    n0 = max(sizes[0], 1)
    if dword:
        n0 = (n0 + 1) // 2
    n1, n2 = max(sizes[1], 1), max(sizes[2], 1)
    out = []
    cur = base
    for i2 in range(n2):
        for i1 in range(n1):
            for i0 in range(n0):
                out.append(cur)
                if i0 + 1 < n0:
                    cur = cur + steps[0]
                elif i1 + 1 < n1:
                    cur = cur + steps[1]
                elif i2 + 1 < n2:
                    cur = cur + steps[2]
    return out


def job_transfer(sizes, dword, tier, seed):
    E = _E or Env()
    ck = core.Check('C13', 'model_checking', tier, seed)
    ex, st, ctx = E.mk(ch=5)
    V = ctx['V']
    arr0 = ctx['arr0']
    for k in range(3):
        off, sz, cnt, stride = E.dl['ch.size%d' % k]
        ex.store(st, Ptr(ctx['dma'].r, off + 5 * stride), sz, sizes[k])
    off, sz, cnt, stride = E.dl['ch.dword_mode']
    ex.store(st, Ptr(ctx['dma'].r, off + 5 * stride), sz, 1 if dword else 0)
    for f in ('src_space', 'dst_space'):
        off, sz, cnt, stride = E.dl['ch.' + f]
        ex.store(st, Ptr(ctx['dma'].r, off + 5 * stride), sz, 0)
    src = z3.Concat(V['addr_src_high'], V['addr_src_low'])
    dst = z3.Concat(V['addr_dst_high'], V['addr_dst_low'])
    ssteps = [z3.ZeroExt(16, V['src_step%d' % k]) for k in range(3)]
    dsteps = [z3.ZeroExt(16, V['dst_step%d' % k]) for k in range(3)]
    sa = element_addresses(src, sizes, ssteps, dword)
    da = element_addresses(dst, sizes, dsteps, dword)
    # all element addresses inside the two data banks (the statement's "in-contract" configuration); out-of-range is C18
    A = [z3.ULT(a, 0x20000) for a in sa + da]
    st.pc += A
    r = ex.call(st, '@dma_setz', [ctx['dma'], 0x40C0])
    s1 = r[0]
    ck.ninstr += ex.ninstr
    ck.nstates += len(sa)
    # Compare store by store instead of by array equality: walk the byte-store chain the real code produced; for the k-th
    # element let P be the memory before its first store; the documented sequence demands that the bytes of the source
    # word(s) read from P go to the destination word(s). Equal index and value at every link of the chain gives equal final
    # memories by induction over the chain (and "every other byte unchanged": the chain has exactly the expected length).
    chain = []
    cur = s1.mem[ctx['mem']].arr
    while z3.is_app(cur) and cur.decl().kind() == z3.Z3_OP_STORE:
        chain.append((cur.arg(0), cur.arg(1), cur.arg(2)))
        cur = cur.arg(0)
    chain.reverse()
    per = 4 if dword else 2
    g = [z3.BoolVal(cur.eq(arr0)), z3.BoolVal(len(chain) == per * len(sa))]
    if cur.eq(arr0) and len(chain) == per * len(sa):
        for k, (a_s, a_d) in enumerate(zip(sa, da)):
            P = chain[per * k][0]
            if dword:
                srcw = [dsp(a_s & 0xFFFFFFFE), dsp(a_s | 1)]
                dstw = [dsp(a_d & 0xFFFFFFFE), dsp(a_d | 1)]
            else:
                srcw, dstw = [dsp(a_s)], [dsp(a_d)]
            j = 0
            for sw, dw_ in zip(srcw, dstw):
                for byte in (0, 1):
                    pre, idx, val = chain[per * k + j]
                    g += [idx == dw_ * 2 + byte, val == z3.Select(P, sw * 2 + byte)]
                    j += 1
    post = E.chan(ex, s1, ctx)
    g += [kit.count_events(s1, 'IRQ') == 1, post['running'] == 0, post['z'] == 0x40C0, z3.Not(kit.exit_cond(ex)), kit.obligations(ex)]
    vars_ = {'ch.' + f: V[f] for f in CHF if f.startswith('addr') or 'step' in f}
    ck.prove('Transfer[sizes %s%s]' % (sizes, ' dword' if dword else ''), A, z3.And(*g), vars=vars_, timeout=ck.timeout * 2,
             sample='SetZ(0x40C0) with sizes %s (%d elements, %s mode), symbolic addresses and steps, source and destination allowed to overlap: final memory == the documented element sequence copied in order, every other byte unchanged (array equality), exactly one DMA interrupt, channel stopped' % (sizes, len(sa), 'double-word' if dword else 'word'))
    return ck.export()


def job_ahbm(unit, burst, tier, seed):
    """external side: a burst of `n` unit-sized accesses at naturally aligned consecutive addresses"""
    E = _E or Env()
    ck = core.Check('C13', 'model_checking', tier, seed)
    ex, st = kit.new_exec(E.mod, unwind=200)
    L = E.al
    ah = ex.new_region(st, L['_size'][0], 'ahbm')
    ex.call(st, '@ahbm_ctor', [Ptr(ah, 0)])
    chn = 1
    usz = {16: 1, 32: 2}[unit]
    n = {1: 0, 4: 1, 8: 2}[burst]
    step = unit // 8
    addr = z3.BitVec('addr', 32)
    A = [addr & (step - 1) == 0, z3.ULT(addr, 0xFFFFFF00)]

    def setup(direction):
        s2 = st.fork()
        for f, v in (('unit_size', usz), ('burst_size', n), ('direction', direction), ('dma_channel', 1 << 2)):
            off, sz, cnt, stride = L['ch.' + f]
            ex.store(s2, Ptr(ah, off + chn * stride), sz, v)
        for f in ('read_external8', 'write_external8', 'read_external16', 'write_external16', 'read_external32', 'write_external32'):
            ex.store(s2, Ptr(ah, L[f][0] + 16), 8, Ptr('F', 1))
        s2.pc += A
        return s2

    def ext(kind, bits):
        def f(e, st_, a):
            if kind == 'r':
                k = len([1 for ev in st_.log if ev[0] == 'XR'])
                v = z3.BitVec('mem%d_%d' % (bits, k), bits)
                st_.log.append(('XR', list(st_.pc), bits, a[1], v))
                return st_, v
            st_.log.append(('XW', list(st_.pc), bits, a[1], a[2]))
            return st_, None
        return f
    for nme in E.mod.funcs:
        for pat, kind, bits in (('functionIFhjEEclEj', 'r', 8), ('functionIFtjEEclEj', 'r', 16), ('functionIFjjEEclEj', 'r', 32), ('functionIFvjhEEclEjh', 'w', 8), ('functionIFvjtEEclEjt', 'w', 16), ('functionIFvjjEEclEjj', 'w', 32)):
            if nme.endswith(pat):
                ex.intercepts[nme] = ext(kind, bits)
    # reads
    s2 = setup(0)
    rets = []
    for k in range(burst):
        r = ex.call(s2, '@ahbm_read%d' % unit, [Ptr(ah, 0), chn, addr + k * step])
        rets.append(bv(r[1], unit))
    evs = [e for e in s2.log if e[0] in ('XR', 'XW')]
    g = [z3.BoolVal(len(evs) == burst and all(e[0] == 'XR' and e[2] == unit for e in evs)), z3.Not(kit.exit_cond(ex)), kit.obligations(ex)]
    if len(evs) == burst:
        for k, e in enumerate(evs):
            g += [kit.path_cond(e[1]), bv(e[3], 32) == addr + k * step, rets[k] == e[4]]
    ck.prove('AHBM.read[unit %d burst %d]' % (unit, burst), A, z3.And(*g), vars={'addr': addr},
             sample='%d reads of %d-bit units at aligned consecutive addresses with burst %d: exactly %d external %d-bit reads at addr + k*%d in order, and the k-th read returns the k-th value' % (burst, unit, burst, burst, unit, step))
    ck.ninstr += ex.ninstr
    # writes
    s2 = setup(1)
    vals = [z3.BitVec('w%d' % k, unit) for k in range(burst)]
    for k in range(burst):
        ex.call(s2, '@ahbm_write%d' % unit, [Ptr(ah, 0), chn, addr + k * step, vals[k]])
    evs = [e for e in s2.log if e[0] in ('XR', 'XW')]
    g = [z3.BoolVal(len(evs) == burst and all(e[0] == 'XW' and e[2] == unit for e in evs)), z3.Not(kit.exit_cond(ex)), kit.obligations(ex)]
    if len(evs) == burst:
        for k, e in enumerate(evs):
            g += [kit.path_cond(e[1]), bv(e[3], 32) == addr + k * step, bv(e[4], unit) == vals[k]]
    ck.prove('AHBM.write[unit %d burst %d]' % (unit, burst), A, z3.And(*g), vars={'addr': addr},
             sample='%d writes of %d-bit units with burst %d: exactly %d external %d-bit writes at addr + k*%d carrying the written values in order' % (burst, unit, burst, burst, unit, step))
    ck.nstates += 2
    return ck.export()


def job_chanfordma(tier, seed):
    E = _E or Env()
    ck = core.Check('C13', 'model_checking', tier, seed)
    ex, st = kit.new_exec(E.mod, unwind=50)
    L = E.al
    ah = ex.new_region(st, L['_size'][0], 'ahbm')
    ex.call(st, '@ahbm_ctor', [Ptr(ah, 0)])
    links = [z3.BitVec('link%d' % c, 16) for c in range(3)]
    for c in range(3):
        off, sz, cnt, stride = L['ch.dma_channel']
        ex.store(st, Ptr(ah, off + c * stride), sz, links[c])
    d = z3.BitVec('dma_channel', 16)
    st.pc.append(z3.ULT(d, 8))
    r = ex.call(st, '@ahbm_chan_for_dma', [Ptr(ah, 0), d])
    bit = lambda c: z3.Extract(0, 0, z3.LShR(links[c], d)) == 1
    want = z3.If(bit(0), z3.BitVecVal(0, 16), z3.If(bit(1), z3.BitVecVal(1, 16), z3.If(bit(2), z3.BitVecVal(2, 16), z3.BitVecVal(0, 16))))
    ck.prove('AHBM.GetChannelForDma', [z3.ULT(d, 8)], z3.And(bv(r[1], 16) == want, z3.Not(kit.exit_cond(ex))), vars={'dma_channel': d}, sample='the first AHBM channel whose DMA-link mask has the bit of the DMA channel (0 when none)')
    ck.ninstr += ex.ninstr
    return ck.export()


def _dispatch(fn, args):
    return fn(*args)


def run(tier, seed):
    global _E
    ck = core.Check('C13', 'model_checking', tier, seed)
    _E = Env()
    ck.funcs.update(['Dma::Channel::Start', 'Dma::Channel::Tick', 'Dma::DoDma', 'Dma::SetZ', 'SharedMemory::ReadWord/WriteWord', 'Ahbm::Read16', 'Ahbm::Read32', 'Ahbm::Write16', 'Ahbm::Write32', 'Ahbm::WriteInternal', 'Ahbm::GetChannelForDma',
                     'Ahbm::Channel::GetBurstSize', 'std::queue<u32> (real libstdc++ deque code)'])
    ck.assumptions += ['cursors / element addresses inside the two 64 Ki-word data banks (what happens outside is C18)', 'spaces {0 = DSP, 7 = external}; spaces 1/5 are unimplemented in the emulator (printf only)',
                       'inside Tick the AHBM calls are events (channel, address, value) when a side is external; the AHBM itself is decided separately on unit 16/32 at naturally aligned addresses with step = unit size and whole bursts, exactly the configuration the statement names; unaligned quirks are pinned by the repository\'s own 53 DMA tests and are outside the claim',
                       'external memory callbacks are events returning fresh values']
    smax = 2 if tier == 'quick' else 3
    ck.bounds += ['one Tick: no bound on values (16-bit sizes/steps/counters, 32-bit cursors < 0x20000)', 'whole transfers: size0,1,2 in 0..%d enumerated, at most %d elements, steps and start addresses symbolic, word and double-word mode' % (smax, min(9, (smax or 1) ** 3)),
                  'AHBM: unit 16/32, burst 1/4/8, one whole burst']
    jobs = [(job_tick, (m, tier, seed)) for m in ('w00', 'd00', 'w70', 'w07', 'd70', 'd07')]
    # whole-transfer queries with overlapping source/destination stop answering at 12 elements (z3 and cvc5, 240 s): the
    # thorough tier enumerates every size triple with at most 9 elements; longer transfers follow from the one-Tick lemmas
    combos = [c for c in itertools.product(range(smax + 1), repeat=3) if max(c[0], 1) * max(c[1], 1) * max(c[2], 1) <= 9]
    jobs += [(job_transfer, (c, False, tier, seed)) for c in combos]
    jobs += [(job_transfer, (c, True, tier, seed)) for c in combos if c[0] in (0, 2, 3) and c[1] <= 2 and c[2] <= 2]
    jobs += [(job_ahbm, (u, b, tier, seed)) for u in (16, 32) for b in (1, 4, 8)] + [(job_chanfordma, (tier, seed))]
    for r in core.pmap(_dispatch, jobs):
        if '__error__' in r:
            ck.engine_errors.append(r['__error__'])
        else:
            ck.absorb(r)
    # translator validation: concrete transfers through executor and native twin
    tw = native.Twin(build.compile_so('h_dma.cpp'))
    rnd = random.Random(seed)
    E = _E
    for it in range(6 if tier == 'quick' else 30):
        cfg = {'addr_src_low': rnd.randrange(0x1000), 'addr_src_high': 0, 'addr_dst_low': 0x2000 + rnd.randrange(0x1000), 'addr_dst_high': rnd.randrange(2), 'size0': rnd.randrange(4), 'size1': rnd.randrange(3), 'size2': rnd.randrange(3),
               'src_step0': rnd.randrange(4), 'dst_step0': rnd.randrange(4), 'src_step1': rnd.randrange(8), 'dst_step1': rnd.randrange(8), 'src_step2': rnd.randrange(16), 'dst_step2': rnd.randrange(16), 'src_space': 0, 'dst_space': 0, 'dword_mode': rnd.randrange(2)}
        ex, st, ctx = E.mk(ch=2)
        for f, v in cfg.items():
            off, sz, cnt, stride = E.dl['ch.' + f]
            ex.store(st, Ptr(ctx['dma'].r, off + 2 * stride), sz, v)
        pat = lambda i: (i * 37 + 11) & 0xFF
        r = ex.call(st, '@dma_setz', [ctx['dma'], 0x40C0])
        arr = r[0].mem[ctx['mem']].arr

        def body():
            t = tw.fn('dt_new', ctypes.c_void_p, [])()
            d = tw.fn('dt_dma', ctypes.c_void_p, [ctypes.c_void_p])(t)
            raw = tw.fn('dt_raw', ctypes.c_void_p, [ctypes.c_void_p])(t)
            ctypes.memmove(raw, bytes(pat(i) for i in range(MEMSIZE)), MEMSIZE)
            native.poke(d, E.dl, 'active_channel', 2)
            for f, v in cfg.items():
                off, sz, cnt, stride = E.dl['ch.' + f]
                ctypes.memmove(d + off + 2 * stride, int(v).to_bytes(sz, 'little'), sz)
            tw.fn('dt_clear', None, [])()
            tw.fn('dma_setz', None, [ctypes.c_void_p, ctypes.c_uint16])(d, 0x40C0)
            mem = ctypes.string_at(raw, MEMSIZE)
            return {'changed': [(i, mem[i]) for i in range(0x40000, 0x80000) if mem[i] != pat(i)][:64], 'irq': tw.fn('dt_irq', ctypes.c_int, [])()}
        nat = native.in_child(body)
        if nat[0] != 'ok':
            ck.engine_errors.append('translator validation native %r' % (nat,))
            continue
        # evaluate the symbolic array on the changed bytes with the pattern as initial memory
        base = ctx['arr0']
        ok = nat[1]['irq'] == len([e for e in r[0].log if e[0] == 'IRQ'])
        # substitute: Select over Store chain simplifies when indices are concrete; remaining selects hit `dspmem`
        for i_, b_ in nat[1]['changed'][:24]:
            t = z3.simplify(z3.Select(arr, z3.BitVecVal(i_, 64)))
            # resolve residual reads of the initial memory
            for _ in range(6):
                if z3.is_bv_value(t):
                    break
                sels = []

                def walk(x):
                    if z3.is_app(x) and x.decl().kind() == z3.Z3_OP_SELECT and x.arg(0).eq(base) and z3.is_bv_value(x.arg(1)):
                        sels.append(x)
                    for c_ in x.children():
                        walk(c_)
                walk(t)
                t = z3.simplify(z3.substitute(t, *[(x, z3.BitVecVal(pat(x.arg(1).as_long()), 8)) for x in sels])) if sels else t
            ok = ok and z3.is_bv_value(t) and t.as_long() == b_
        if ok:
            ck.validated += 1
        else:
            ck.engine_errors.append('translator validation mismatch DMA cfg %r' % (cfg,))
    # Teakra::DMAChan0GetSrcHigh/DstHigh and the AHBM getters of the public API (real object graph)
    from checks import facade
    facade.obligations(ck, 'dma')
    return ck.finish('one-element step lemma, bounded whole transfers against the dma.md sequence, AHBM bursts')
