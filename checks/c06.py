"""C06 — Run(n) is equivalent to n single-cycle steps, however it is sliced.
Whole machine: the real Processor/Interpreter::Run with the real CoreTiming, both real Timers, both real Btdmp, the real ICU
wired to the interpreter latches (the object graph built by the real Teakra::Impl constructor inside the executor).
(L)  CoreTiming::Skip applies min(budget, every component's horizon) to every component once;
(bounded)  an idle-loop program with an interrupt handler; the timer's counter / start value / mode are case-split into a
partition of their whole value space ({0},...,{n+1},{> n+1}: a symbolic remainder), everything else (registers, flags,
accumulators) symbolic; Run(n) against every composition of n into slices, n <= 4 (quick) / 6 (thorough)."""
import itertools
import z3
from engine import build, kit, core
from engine.kit import Ptr, bv, is_c
from engine.llsym import DEAD, Abort, UnwindBound
from checks import graph, interp, c12

_S = {}
BRR_SELF = 0x5000 | (0x7F << 4)      # brr -1, condition true: the idle loop
INC_A0 = 0x6700 | (13 << 4)
RETI = 0x45C0
NOP = 0
LOOP_AT, VEC0, VECV = 0x0100, 0x0006, 0x0200
# second program family: a conditional self-branch (brr -1, eq) in front of straight-line code. Taken (z set) it is the idle
# loop again; not taken, the core must simply go on - no fast-forward may be armed by an instruction that did not branch
BRR_SELF_EQ = BRR_SELF | 1
COND_AT = 0x0180
PROGRAM = [(LOOP_AT, BRR_SELF), (VEC0, INC_A0), (VEC0 + 1, RETI), (VECV, INC_A0), (VECV + 1, RETI), (COND_AT, BRR_SELF_EQ)] + [(COND_AT + 1 + j, INC_A0) for j in range(8)] + [(COND_AT + 9, BRR_SELF)]


def machine():
    """(ex, st, ctx, rows): constructed graph + the decode table rows in this executor's memory + program laid out"""
    if 'm' in _S:
        return _S['m']
    G = graph.get()
    ex, st0, ctx = G.build_impl()
    st = st0.fork()
    ex.call(st, '@ti_reset', [ctx['impl']])
    vec = ex.new_region(st, 24, 'table_vec')
    ex.call(st, '@ti_mk_table', [Ptr(vec, 0)])
    rows = interp.extract_rows(ex, st, vec)
    # program: idle loop at 0x100, int0 handler at 0x0006: inc a0 ; reti
    reg = st.wregion(ctx['mem'])
    arr = z3.Array('dspmem0', z3.BitVecSort(64), z3.BitVecSort(8))
    for addr, w in PROGRAM:
        arr = z3.Store(z3.Store(arr, z3.BitVecVal(2 * addr, 64), z3.BitVecVal(w & 0xFF, 8)), z3.BitVecVal(2 * addr + 1, 64), z3.BitVecVal(w >> 8, 8))
    reg.arr = arr
    vecnames = [n for n in G.mod.funcs if n.startswith('@_ZNKSt6vectorI7MatcherIN6Teakra11InterpreterEE') and n.endswith('ixEm')]

    def row_of(idx):
        m = [r for r in rows if (idx & r['mask']) == r['expected'] and all((idx & mm) != uu for mm, uu in r['rejectors'])]
        if len(m) != 1:
            raise Abort('opcode %#06x decodes to %d rows' % (idx, len(m)))
        return m[0]['ptr']

    def vecidx(e, st_, a):
        idx = a[1]
        if is_c(idx):
            return st_, row_of(idx)
        idx2 = z3.simplify(bv(idx, 64))
        if z3.is_bv_value(idx2):
            return st_, row_of(idx2.as_long())
        # the fetched word is a term (e.g. fetched through a pc popped from the symbolic stack): enumerate its feasible values
        vals = []
        e.solver.set('timeout', 20000)
        while len(vals) <= 4:
            r_ = e.solver.check(*(st_.pc + [idx2 != v_ for v_ in vals]))
            if r_ == z3.unsat:
                break
            if r_ != z3.sat:
                raise Abort('decoders[symbolic opcode]: solver gave no answer')
            vals.append(e.solver.model().eval(idx2, model_completion=True).as_long())
        if not vals or len(vals) > 4:
            raise Abort('decoders[symbolic opcode]: %d feasible values' % len(vals))
        if len(vals) == 1:
            return st_, row_of(vals[0])
        return st_, Ptr(None, None, tuple((idx2 == v_, row_of(v_)) for v_ in vals))
    for n in vecnames:
        ex.intercepts[n] = vecidx
    _S['m'] = (G, ex, st, ctx, rows)
    return _S['m']


def configure(G, ex, st, ctx, case):
    """timer 0 -> IRQ 0xA -> core line 0; symbolic counter/start inside the case's cell of the partition; symbolic CPU data"""
    L = G.L
    impl = ctx['impl'].r
    A = []
    tb = G.off['timer']
    T = L['Timer']
    cnt, start = z3.BitVec('t0.counter', 32), z3.BitVec('t0.start', 32)

    def cell(var, k, nmax):
        return var == k if k <= nmax else z3.UGT(var, nmax)
    A += [cell(cnt, case['counter'], case['nmax']), cell(start, case['start'], case['nmax'])]
    ex.store(st, Ptr(impl, tb + T['counter'][0]), 4, cnt)
    ex.store(st, Ptr(impl, tb + T['start_low'][0]), 2, z3.Extract(15, 0, start))
    ex.store(st, Ptr(impl, tb + T['start_high'][0]), 2, z3.Extract(31, 16, start))
    ex.store(st, Ptr(impl, tb + T['count_mode'][0]), 2, case['mode'])
    ex.store(st, Ptr(impl, tb + T['pause'][0]), 2, 0)
    ex.store(st, Ptr(impl, tb + T['update_mmio'][0]), 2, 1)
    # second timer: paused (constructor state), or - 't1' cases - auto-restarting with a small period and not routed to the
    # core: it never interrupts, but it caps every skip horizon, so the fast-forward runs in several pieces
    t1 = tb + T['_size'][0]
    if case.get('t1') is None:
        ex.store(st, Ptr(impl, t1 + T['pause'][0]), 2, 1)
    else:
        c1, s1 = case['t1']
        ex.store(st, Ptr(impl, t1 + T['pause'][0]), 2, 0)
        ex.store(st, Ptr(impl, t1 + T['count_mode'][0]), 2, 1)
        ex.store(st, Ptr(impl, t1 + T['update_mmio'][0]), 2, 1)
        ex.store(st, Ptr(impl, t1 + T['counter'][0]), 4, c1)
        ex.store(st, Ptr(impl, t1 + T['start_low'][0]), 2, s1)
        ex.store(st, Ptr(impl, t1 + T['start_high'][0]), 2, 0)
    if case.get('btdmp'):
        # audio port 0 transmitting: period and FIFO fill from the case (16 words = full flag set); the skip horizon is capped
        # by the next frame, frames are popped by Tick or by Skip depending on the slicing
        per, fill = case['btdmp']
        B = L['Btdmp']
        bb = G.off['btdmp']
        for j in range(fill):
            ex.call(st, '@ti_btdmp_push', [ctx['impl'], 0, 0x100 + j])
        for f, v_ in (('transmit_enable', 1), ('transmit_period', per), ('transmit_timer', 0), ('transmit_empty', 0 if fill else 1), ('transmit_full', 1 if fill == 16 else 0)):
            ex.store(st, Ptr(impl, bb + B[f][0]), B[f][1], v_)
    off, sz, c_, stride = L['ICU']['enabled']
    if case.get('vectored'):
        # IRQ 0xA delivered as a vectored interrupt to the handler at VECV (no context switch); core line 0 not enabled
        ex.store(st, Ptr(impl, G.off['icu'] + off), 8, 0)
        ex.store(st, Ptr(impl, G.off['icu'] + L['ICU']['vectored_enabled'][0]), 8, 1 << 0xA)
        ex.store(st, Ptr(impl, G.off['icu'] + L['ICU']['vector_low'][0] + 0xA * L['ICU']['vector_low'][3]), 2, VECV)
        ex.store(st, Ptr(impl, G.off['icu'] + L['ICU']['vector_high'][0] + 0xA * L['ICU']['vector_high'][3]), 2, 0)
        ex.store(st, Ptr(impl, G.off['icu'] + L['ICU']['vector_context_switch'][0] + 0xA * L['ICU']['vector_context_switch'][3]), L['ICU']['vector_context_switch'][1], 0)
    else:
        ex.store(st, Ptr(impl, G.off['icu'] + off), 8, 1 << 0xA)
    # CPU: pc at the idle loop, interrupts enabled on line 0, symbolic data registers
    PT = kit.find_type(G.mod, 'Teakra::Processor::Impl"')
    poff = G.mod.offsets(PT)
    pr = ctx['proc']
    RL = L['RegisterState']

    def setr(f, v, i=0):
        off, sz, c_, stride = RL[f]
        ex.store(st, Ptr(pr.r, pr.o + poff[1] + off + i * stride), sz, v)
    setr('pc', COND_AT if case.get('prog') else LOOP_AT)
    setr('ie', case['ie'])
    setr('im', 0 if case.get('vectored') else 1, 0)
    setr('imv', 1 if case.get('vectored') else 0)
    setr('sp', 0x2000)
    a0 = z3.BitVec('a0', 64)
    A.append(z3.SignExt(24, z3.Extract(39, 0, a0)) == a0)
    setr('a', a0, 0)
    for f in ('fz', 'fm', 'fn', 'fv', 'fe', 'fc0', 'flm', 'fvl', 'sata', 'cpc'):
        v = z3.BitVec('cpu.' + f, 16)
        A.append(z3.ULE(v, 1))
        if f == 'fz' and case.get('prog'):
            A.append(v == (1 if case['prog'] == 'taken' else 0))
        setr(f, v)
    st.pc += A
    return A, {'t0.counter': cnt, 't0.start': start, 'a0': a0}


def observe(G, ex, st, ctx):
    L = G.L
    impl = ctx['impl'].r
    out = {}
    PT = kit.find_type(G.mod, 'Teakra::Processor::Impl"')
    poff = G.mod.offsets(PT)
    pr = ctx['proc']
    for f, (off, sz, cnt, stride) in L['RegisterState'].items():
        if f != '_size' and sz <= 8:
            for i in range(cnt):
                out['regs.%s[%d]' % (f, i)] = ex.load(st, Ptr(pr.r, pr.o + poff[1] + off + i * stride), sz)
    for f, (off, sz, cnt, stride) in L['Interpreter'].items():
        if f not in ('_size', 'idle', 'vinterrupt_address', 'vinterrupt_context_switch') and sz <= 8:      # the last two are only read while vinterrupt_pending is set (never here)
            for i in range(cnt):
                out['latch.%s[%d]' % (f, i)] = ex.load(st, Ptr(pr.r, pr.o + poff[2] + off + i * stride), sz)
    for t in range(2):
        for f, (off, sz, cnt, stride) in L['Timer'].items():
            if f != '_size' and sz <= 8:
                out['timer%d.%s' % (t, f)] = ex.load(st, Ptr(impl, G.off['timer'] + t * L['Timer']['_size'][0] + off), sz)
    out['icu.request'] = ex.load(st, Ptr(impl, G.off['icu'] + L['ICU']['request'][0]), 8)
    for f in ('transmit_timer', 'transmit_empty', 'transmit_full', 'transmit_enable', 'transmit_period'):
        out['timer.btdmp0.' + f] = ex.load(st, Ptr(impl, G.off['btdmp'] + L['Btdmp'][f][0]), L['Btdmp'][f][1])
    out['timer.btdmp0.queue_size'] = ex.call(st.fork(), '@ti_btdmp_qsize', [ctx['impl'], 0])[1]
    out['stack'] = st.mem[ctx['mem']].arr
    return out


def run_sliced(G, ex, st, ctx, slices):
    cur = st
    for k in slices:
        r = ex.call(cur, '@ti_run', [ctx['impl'], k])
        if r is None or r is DEAD:
            return None
        cur = r[0]
    return cur


def latency_window(case, slices):
    """Does the listed idle-entry latency defect manifest in this history? A small simulation of the control structure of
    Interpreter::Run for this program family on the concrete cells of the case (symbolic remainder cells never fire within
    the budget): true iff timer 0 raises its interrupt in the *last* Tick of a loop iteration while the core is idle and the
    same Run call continues - the next iteration then fast-forwards before sampling the latch."""
    INF = 1 << 40
    big = case['nmax'] + 1

    def cell(v):
        return v if v <= case['nmax'] else big + 1000
    timers = [{'mode': case['mode'], 'counter': cell(case['counter']), 'start': cell(case['start']), 'routed': True}]
    if case.get('t1'):
        timers.append({'mode': 1, 'counter': case['t1'][0], 'start': case['t1'][1], 'routed': False})
    bt = {'timer': 0, 'period': case['btdmp'][0], 'q': case['btdmp'][1]} if case.get('btdmp') else None

    def tick():
        fired = False
        for t in timers:
            if t['counter'] == 0:
                if t['mode'] == 1:
                    t['counter'] = t['start']
                elif t['mode'] == 2:
                    t['counter'] = 0xFFFFFFFF
            else:
                t['counter'] -= 1
                if t['counter'] == 0 and t['routed']:
                    fired = True
        if bt:
            bt['timer'] += 1
            if bt['timer'] >= bt['period']:
                bt['timer'] = 0
                bt['q'] = max(0, bt['q'] - 2)
        return fired

    def horizon():
        h = INF
        for t in timers:
            if t['counter'] == 0:
                m = t['start'] if t['mode'] == 1 else (0xFFFFFFFF if t['mode'] == 2 else INF)
            else:
                m = t['counter'] - 1
            h = min(h, m)
        if bt and bt['q'] > 0:
            h = min(h, bt['period'] - bt['timer'] - 1 + ((bt['q'] + 1) // 2 - 1) * bt['period'])
        return h

    def skip(k):
        if k == 0:
            return
        for t in timers:
            if t['counter'] == 0:
                if t['mode'] == 1:
                    t['counter'] = t['start'] - (k - 1)
                elif t['mode'] == 2:
                    t['counter'] = 0xFFFFFFFF - (k - 1)
            else:
                t['counter'] -= k
        if bt:
            bt['q'] = max(0, bt['q'] - 2 * ((bt['timer'] + k) // bt['period']))
            bt['timer'] = (bt['timer'] + k) % bt['period']
    cpu, ie, ip, latch = 'loop', case['ie'], 0, False
    window = False
    for k in slices:
        idle = False
        i = 0
        while i < k:
            if idle:
                s_ = min(k - i - 1, horizon())
                skip(s_)
                i += s_
                if i < k - 1:
                    i += 1
                    if tick():
                        latch = True
            if latch:
                ip, latch = 1, False
            if ie and ip:
                ip, ie, cpu, idle = 0, 0, 'h1', False
            if cpu == 'loop':
                idle = True
            elif cpu == 'h1':
                cpu = 'h2'
            else:
                cpu, ie = 'loop', 1
            if tick():
                latch = True
                if idle and i + 1 < k:
                    window = True
            i += 1
    return window


def job_case(case, tier, seed):
    G, ex, st0, ctx, rows = machine()
    ck = core.Check('C06', 'model_checking', tier, seed)
    n = case['n']
    st = st0.fork()
    A, vars_ = configure(G, ex, st, ctx, case)
    ex.exits = []
    try:
        whole = run_sliced(G, ex, st.fork(), ctx, [n])
        base_exits = list(ex.exits)
        if whole is None or base_exits:
            lab = 'mode %d counter cell %d start cell %d ie %d' % (case['mode'], case['counter'], case['start'], case['ie'])
            ck.prove('RunCompletes[n=%d %s]' % (n, lab), A, z3.Not(kit.exit_cond(type('X', (), {'exits': base_exits})())) if whole is not None else z3.BoolVal(False), vars=dict(vars_, counter_cell=case['counter'], start_cell=case['start'], mode=case['mode']),
                     replay=replayer(case, [n]), sample='Run(%d) on the idle-loop program returns normally (no assertion abort inside the fast-forward)' % n)
            if whole is None:
                return ck.export()
        ow = observe(G, ex, whole, ctx)
    except (Abort, UnwindBound) as x:
        ck.inconclusive.append('case %r: %s' % (case, str(x)[:150]))
        return ck.export()
    ck.nstates += 1
    label = ('brr-eq %s ' % case['prog'] if case.get('prog') else '') + ('btdmp=%d/%d ' % case['btdmp'] if case.get('btdmp') else '') + ('vectored ' if case.get('vectored') else '') + ('t1=%d/%d ' % case['t1'] if case.get('t1') else '') + 'mode %d counter %s start %s ie %d' % (case['mode'], case['counter'] if case['counter'] <= case['nmax'] else '>%d' % case['nmax'], case['start'] if case['start'] <= case['nmax'] else '>%d' % case['nmax'], case['ie'])
    comps = [c for c in compositions(n) if len(c) > 1]
    if tier == 'quick':
        comps = [c for c in comps if c in ([1] * n, [1, n - 1], [n - 1, 1], [2] * (n // 2) + ([1] if n % 2 else []))]
    for comp in comps:
        try:
            ex.exits = []
            sl = run_sliced(G, ex, st.fork(), ctx, comp)
            if sl is None:
                ck.prove('RunCompletes[n=%d %s: %s]' % (n, label, '+'.join(map(str, comp))), A, z3.BoolVal(False), vars=dict(vars_, counter_cell=case['counter'], start_cell=case['start'], mode=case['mode']), replay=replayer(case, comp))
                continue
            osl = observe(G, ex, sl, ctx)
        except (Abort, UnwindBound) as x:
            ck.inconclusive.append('case %r slices %r: %s' % (case, comp, str(x)[:150]))
            continue
        ck.nstates += 1
        # (not-taken conditional branch: the core never idles, the listed latency finding cannot apply)
        window = 0 if case.get('prog') == 'fallthrough' else int(latency_window(case, [n]) or latency_window(case, comp))
        # two obligations per slicing: the peripheral side (timers, ICU request word - time must pass identically whatever
        # the CPU does) and the CPU side (registers, latches, stack). The listed idle-entry latency finding concerns the CPU
        # side only, so a peripheral deviation in the same input region is still reported.
        for part in ('peripherals', 'cpu'):
            goals, names = [], []
            for k_ in ow:
                if (k_.startswith(('timer', 'icu.'))) != (part == 'peripherals'):
                    continue
                a, b = ow[k_], osl[k_]
                if (is_c(a) and is_c(b) and a == b) or (z3.is_expr(a) and z3.is_expr(b) and a.eq(b)):
                    continue
                names.append(k_)
                if z3.is_expr(a) and z3.is_array(a):
                    goals.append(a == b)
                else:
                    if is_c(a) and is_c(b):
                        goals.append(z3.BoolVal(False))
                        continue
                    bits = a.size() if z3.is_expr(a) else b.size()
                    goals.append(bv(a, bits) == bv(b, bits))
            name = 'Slicing.%s[n=%d %s: %s]' % (part, n, label, '+'.join(map(str, comp)))
            if not goals:
                ck.identical(name, sample='Run(%d) vs Run slices %s, %s: %s are identical terms' % (n, comp, label, 'every timer field and the ICU request word' if part == 'peripherals' else 'every register, pending bit, latch and the stack') if case['counter'] == 2 and case['mode'] == 1 else None)
            else:
                v2 = dict(vars_)
                v2.update({'counter_cell': case['counter'], 'start_cell': case['start'], 'mode': case['mode'], 'slices': len(comp), 'latency_window': window})
                ck.prove(name, A, z3.And(*goals), vars=v2, replay=replayer(case, comp, part), replay_known=(case['counter'] == 1 and case['mode'] == 0 and comp == [n - 1, 1]),
                         sample='Run(%d) vs slices %s, %s [differing: %s]' % (n, comp, label, ','.join(names[:5])))
    ck.ninstr += ex.ninstr
    return ck.export()


def compositions(n):
    if n == 0:
        return [[]]
    out = []
    for first in range(1, n + 1):
        for rest in compositions(n - first):
            out.append([first] + rest)
    return out


_tw = {}


def replayer(case, comp, part=None):
    def rp(inputs):
        import ctypes
        from engine import native
        if 't' not in _tw:
            _tw['t'] = native.Twin(build.compile_so('h_teakra.cpp'))
        tw = _tw['t']
        n = case['n']

        def body():
            res = []
            for slices in ([n], comp):
                t = tw.fn('tn_new', ctypes.c_void_p, [])()
                tw.fn('ti_reset', None, [ctypes.c_void_p])(t)
                wr = tw.fn('ti_mmio_write', None, [ctypes.c_void_p, ctypes.c_uint16, ctypes.c_uint16])
                dw = tw.fn('ti_dwrite', None, [ctypes.c_void_p, ctypes.c_uint16, ctypes.c_uint16, ctypes.c_bool])
                regs = tw.fn('ti_regs', ctypes.c_void_p, [ctypes.c_void_p])(t)
                RL = kit.layout()['RegisterState']
                # program through the host accessors of the memory interface
                pw = tw.lib.ti_pwrite if hasattr(tw.lib, 'ti_pwrite') else None
                mem = None
                for addr, w in PROGRAM:
                    tw.fn('ti_pwrite', None, [ctypes.c_void_p, ctypes.c_uint32, ctypes.c_uint16])(t, addr, w)
                cnt, start = inputs['t0.counter'], inputs['t0.start']
                wr(t, 0x24, start & 0xFFFF)
                wr(t, 0x26, start >> 16)
                if case.get('vectored'):
                    wr(t, 0x20C, 1 << 0xA)
                    wr(t, 0x212 + 4 * 0xA, 0)
                    wr(t, 0x214 + 4 * 0xA, VECV)
                else:
                    wr(t, 0x206, 1 << 0xA)
                # timer: mode, MU, then load the counter by a restart when it equals start, else poke directly
                tw.fn('ti_timer_poke', None, [ctypes.c_void_p, ctypes.c_uint16, ctypes.c_uint32])(t, case['mode'], cnt)
                if case.get('btdmp'):
                    per, fill = case['btdmp']
                    for j in range(fill):
                        tw.fn('ti_btdmp_push', None, [ctypes.c_void_p, ctypes.c_uint, ctypes.c_uint16])(t, 0, 0x100 + j)
                    GL = kit.layout()['Btdmp']
                    bbase = t + graph.get().off['btdmp']
                    for f, v_ in (('transmit_enable', 1), ('transmit_period', per), ('transmit_timer', 0), ('transmit_empty', 0 if fill else 1), ('transmit_full', 1 if fill == 16 else 0)):
                        native.poke(bbase, GL, f, v_)
                if case.get('t1'):
                    tw.fn('ti_timer1_poke', None, [ctypes.c_void_p, ctypes.c_uint16, ctypes.c_uint32, ctypes.c_uint16])(t, 1, case['t1'][0], case['t1'][1])
                native.poke(regs, RL, 'pc', COND_AT if case.get('prog') else LOOP_AT)
                native.poke(regs, RL, 'ie', case['ie'])
                native.poke(regs, RL, 'im', 0 if case.get('vectored') else 1, 0)
                native.poke(regs, RL, 'imv', 1 if case.get('vectored') else 0)
                native.poke(regs, RL, 'sp', 0x2000)
                native.poke(regs, RL, 'a', inputs['a0'] & (2**64 - 1), 0)
                for f in ('fz', 'fm', 'fn', 'fv', 'fe', 'fc0', 'flm', 'fvl', 'sata', 'cpc'):
                    if 'cpu.' + f in inputs:
                        native.poke(regs, RL, f, inputs['cpu.' + f])
                run = tw.fn('ti_run', None, [ctypes.c_void_p, ctypes.c_uint])
                for k in slices:
                    run(t, k)
                res.append({'pc': native.peek(regs, RL, 'pc'), 'a0': native.peek(regs, RL, 'a', 0), 'ie': native.peek(regs, RL, 'ie'), 'sp': native.peek(regs, RL, 'sp'),
                            'timer0.counter': tw.fn('ti_timer_counter', ctypes.c_uint32, [ctypes.c_void_p])(t), 'timer1.counter': tw.fn('ti_timer1_counter', ctypes.c_uint32, [ctypes.c_void_p])(t), 'timer.btdmp0.queue_size': tw.fn('ti_btdmp_qsize', ctypes.c_uint64, [ctypes.c_void_p, ctypes.c_uint])(t, 0), 'timer.btdmp0.status': tw.fn('ti_mmio_read', ctypes.c_uint16, [ctypes.c_void_p, ctypes.c_uint16])(t, 0x2C2), 'icu.pending': tw.fn('ti_mmio_read', ctypes.c_uint16, [ctypes.c_void_p, ctypes.c_uint16])(t, 0x200)})
            return res
        o = native.in_child(body, timeout=240)
        if o[0] == 'signal':
            return True, {'native': 'the real library aborts (signal %d) on this input' % o[1]}
        if o[0] != 'ok':
            return None, {'native': o}
        keys = [k_ for k_ in o[1][0] if part is None or (k_.startswith(('timer', 'icu.')) == (part == 'peripherals'))]
        return any(o[1][0][k_] != o[1][1][k_] for k_ in keys), {'Run(%d)' % n: o[1][0], 'slices %r' % (comp,): o[1][1]}
    return rp


def job_coretiming(tier, seed):
    """CoreTiming::Skip(budget): ticks = min(budget, all horizons); every component is skipped by exactly ticks, once, after all horizons were read"""
    G, ex, st0, ctx, rows = machine()
    ck = core.Check('C06', 'model_checking', tier, seed)
    hs = []
    names = {}
    for n in G.mod.funcs:
        if n.endswith('10GetMaxSkipEv') and ('Timer' in n or 'Btdmp' in n):
            names[n] = 'H'
        elif (n.endswith('4SkipEm')) and ('5Timer4Skip' in n or '5Btdmp4Skip' in n):
            names[n] = 'S'
    hv = {}

    def hor(e, st_, a):
        k = (a[0].r, a[0].o)
        v = hv.setdefault(k, z3.BitVec('horizon_%d' % len(hv), 64))
        st_.log.append(('H', list(st_.pc), k))
        return st_, v

    def skp(e, st_, a):
        st_.log.append(('S', list(st_.pc), (a[0].r, a[0].o), a[1]))
        return st_, None
    for n, kind in names.items():
        ex.intercepts[n] = hor if kind == 'H' else skp
    try:
        budget = z3.BitVec('budget', 64)
        st = st0.fork()
        r = ex.call(st, '@ti_skip', [ctx['impl'], budget])
        s1 = r[0]
        H = [e for e in s1.log if e[0] == 'H']
        S = [e for e in s1.log if e[0] == 'S']
        mn = budget
        for v in hv.values():
            mn = z3.If(z3.ULT(v, mn), v, mn)
        ok_shape = len(H) == 4 and len(S) == 4 and sorted(e[2] for e in H) == sorted(e[2] for e in S) and len(set(e[2] for e in S)) == 4
        order_ok = all(s1.log.index(h) < s1.log.index(s_) for h in H for s_ in S)
        g = [z3.BoolVal(bool(ok_shape and order_ok)), bv(r[1], 64) == mn] + [z3.And(kit.path_cond(e[1]), bv(e[3], 64) == mn) for e in S]
        ck.prove('CoreTiming.Skip', [], z3.And(*g), vars={'budget': budget}, witness=False,
                 sample='CoreTiming::Skip(budget) with the four registered components (2 timers, 2 audio ports): reads every horizon first, skips every component exactly once by min(budget, horizons), returns that number')
    finally:
        for n in names:
            ex.intercepts.pop(n, None)
    ck.ninstr += ex.ninstr
    return ck.export()


def _dispatch(fn, args):
    return fn(*args)


def run(tier, seed):
    ck = core.Check('C06', 'model_checking', tier, seed)
    G, ex, st0, ctx, rows = machine()
    ck.ninstr += ctx['ctor_instr']
    n = 4 if tier == 'quick' else 6
    nmax = n + 1
    ck.funcs.update(['Processor::Run / Interpreter::Run (idle fast-forward, latch sampling, fetch, dispatch, interrupt block, CoreTiming::Tick)', 'CoreTiming::Tick / Skip (real std::vector of callbacks, virtual calls)',
                     'Timer::Tick/Skip/GetMaxSkip/Restart/UpdateMMIO', 'Btdmp::Tick/Skip/GetMaxSkip', 'ICU::TriggerSingle/Trigger', 'Processor::SignalInterrupt', 'brr', 'moda4 (inc)', 'reti', 'PushPC/PopPC',
                     'MemoryInterface::ProgramRead/DataRead/DataWrite, SharedMemory'])
    ck.assumptions += ['program: idle self-branch (brr -1) at 0x100, line-0 handler at 0x0006 = inc a0 ; reti; timer 0 -> IRQ 0xA routed to core line 0 and unmasked (7 extra cases: delivered as a vectored interrupt to a handler at 0x0200 instead); timer 1 paused - or, in 16 extra cases, auto-restarting with period 1..3 and not routed, so that a second component caps the skip horizon - and audio ports disabled - or, in 8 extra cases, port 0 transmitting with period 2/3 and a full or partly filled FIFO (the skip lemmas of C15/C16 composed by CoreTiming.Skip cover the general case); second program family (8 cases): a conditional self-branch brr -1,eq at 0x180 followed by 8 x inc a0 and an unconditional self-branch, entered with z clear (not taken: straight-line code, no fast-forward may be armed) or z set (taken: idles like the first family)',
                       'timer counter and start value: partitioned into {0},...,{n+1},{> n+1} - every 32-bit value lies in exactly one cell, the last cell is a symbolic remainder; count modes single / auto-restart / free-running enumerated; global interrupt enable 0/1; accumulator and flags symbolic',
                       'excluded as the property says: a self-branch that is the last instruction of an active block repeat or the target of rep',
                       'unbounded idle skips: by the skip lemmas of C15/C16 plus CoreTiming.Skip (paper induction)']
    ck.bounds += ['n = %d cycles; slicings: %s' % (n, 'all-ones, 1+(n-1), (n-1)+1, twos (quick)' if tier == 'quick' else 'every composition of n (2^(n-1))')]
    cases = []
    for mode in (0, 1, 2):
        for c in range(0, nmax + 2):
            starts = range(0, nmax + 2) if mode == 1 else [nmax + 1]
            for s_ in starts:
                for ie in ((1, 0) if (mode in (1, 2) and c <= 3 and s_ in (1, 2, nmax + 1)) else (1,)):
                    cases.append({'n': n, 'nmax': nmax, 'mode': mode, 'counter': c, 'start': s_, 'ie': ie})
    # vectored delivery: the second interrupt-entry branch of Interpreter::Run (it must leave the idle state as well)
    # (6 cycles even in the quick tier: the handler has to run inside the Run call that entered it)
    nv = max(n, 6)
    for mode, c, s_ in ((0, 1, nv + 2), (0, 2, nv + 2), (0, 3, nv + 2), (0, nv + 2, nv + 2), (1, 1, 2), (1, 2, 1), (1, 3, 3)):
        cases.append({'n': nv, 'nmax': nv + 1, 'mode': mode, 'counter': c, 'start': s_, 'ie': 1, 'vectored': True})
        if nv != n:
            cases.append({'n': nv, 'nmax': nv + 1, 'mode': mode, 'counter': c, 'start': s_, 'ie': 1})      # the same on core line 0
    # audio port 0 active (period 2 / 3, FIFO full or partly filled) next to timer 0
    for per, fill in ((2, 16), (3, 16), (2, 4), (3, 1)):
        for mode, c, s_ in ((0, nmax + 1, nmax + 1), (0, 3, nmax + 1)):
            cases.append({'n': n, 'nmax': nmax, 'mode': mode, 'counter': c, 'start': s_, 'ie': 1, 'btdmp': (per, fill)})
    # two active timing components: timer 1 auto-restarting (unrouted) under a few of the timer-0 cases
    for mode, c, s_ in ((0, nmax + 1, nmax + 1), (0, 3, nmax + 1), (1, 2, 3), (2, 0, nmax + 1)):
        for t1 in ((1, 2), (2, 1), (3, 3), (0, 2)):
            cases.append({'n': n, 'nmax': nmax, 'mode': mode, 'counter': c, 'start': s_, 'ie': 1, 't1': t1})
    # conditional self-branch family: not taken (straight-line code follows; timer far away, about to fire, interrupts on/off)
    # and taken (idles like the unconditional loop)
    for mode, c, s_, ie in ((0, nmax + 1, nmax + 1, 1), (0, nmax + 1, nmax + 1, 0), (0, 2, nmax + 1, 1), (1, 3, 2, 0), (0, 3, nmax + 1, 0)):
        cases.append({'n': n, 'nmax': nmax, 'mode': mode, 'counter': c, 'start': s_, 'ie': ie, 'prog': 'fallthrough'})
    for mode, c, s_, ie in ((0, nmax + 1, nmax + 1, 1), (0, 3, nmax + 1, 0), (1, 2, 3, 0)):
        cases.append({'n': n, 'nmax': nmax, 'mode': mode, 'counter': c, 'start': s_, 'ie': ie, 'prog': 'taken'})
    jobs = [(job_coretiming, (tier, seed))] + [(job_case, (c, tier, seed)) for c in cases]
    for r in core.pmap(_dispatch, jobs):
        if '__error__' in r:
            ck.engine_errors.append(r['__error__'])
        else:
            ck.absorb(r)
    ck.notes.append('%d cases of the timer-state partition x slicings' % len(cases))
    return ck.finish('CoreTiming skip composition lemma + bounded slicing equivalence of the whole machine on an idle-loop program')
