"""C07 — interrupts are delivered exactly once, in priority order, never spuriously.
Controller: the real ICU methods from an arbitrary routing/pending state (events = the two handler std::functions).
Core: the real Interpreter::Run(1) interrupt block from an arbitrary enable/pending/latch state with a nop dispatched:
which line is entered, what is consumed, what is pushed, where execution continues."""
import z3, random, ctypes
from engine import build, kit, core, native
from engine.kit import Ptr, bv, is_c
from engine.llsym import DEAD, Abort, UnwindBound
from checks import interp, c03, c08
from spec import alu

env = c03.env


# ------------------------------------------------------------------------------------------------ controller
class IcuEnv:
    def __init__(s):
        ll, s.hash = build.compile_ir('h_icu.cpp')
        s.mod = build.load_module(ll)
        s.lay = kit.layout()['ICU']
        s.twin = None

    def mk(s):
        ex, st = kit.new_exec(s.mod, unwind=200)
        icu = kit.Obj(ex, st, s.lay, 'icu', prefix='icu', skip=('mutex',))
        for f in ('on_interrupt', 'on_vectored_interrupt'):
            ex.store(st, Ptr(icu.rid, s.lay[f][0] + 16), 8, Ptr('F', 1))
        ex.fill(st, Ptr(icu.rid, s.lay['mutex'][0]), s.lay['mutex'][1], 0)
        for n in s.mod.funcs:
            if n.endswith('functionIFvjEEclEj'):
                ex.intercepts[n] = kit.logger('INT', 1)
            elif n.endswith('functionIFvjbEEclEjb'):
                ex.intercepts[n] = kit.logger('VINT', 2)
        return ex, st, icu

    def native_run(s, state, ops):
        if s.twin is None:
            s.twin = native.Twin(build.compile_so('h_icu.cpp'))
        tw = s.twin

        def body():
            c = tw.fn('iw_new', ctypes.c_void_p, [])()
            for f, v in state.items():
                name, idx = (f[:f.index('[')], int(f[f.index('[') + 1:-1])) if '[' in f else (f, 0)
                native.poke(c, s.lay, name, v, idx)
            tw.fn('iw_clear', None, [])()
            rets = []
            for op in ops:
                f_ = tw.fn('icu_' + op[0], ctypes.c_uint32, [ctypes.c_void_p] + [ctypes.c_uint32] * (len(op) - 1))
                rets.append(f_(c, *op[1:]))
            n = tw.fn('iw_n', ctypes.c_int, [])()
            ev = tw.fn('iw_ev', ctypes.c_uint32, [ctypes.c_int, ctypes.c_int])
            out = {f: native.peek(c, s.lay, f[:f.index('[')] if '[' in f else f, int(f[f.index('[') + 1:-1]) if '[' in f else 0) for f in state}
            return {'state': out, 'events': [[ev(k, j) for j in range(3)] for k in range(min(n, 256))], 'ret': rets}
        return native.in_child(body)


def job_icu(tier, seed):
    I = IcuEnv()
    ck = core.Check('C07', 'model_checking', tier, seed)
    b = z3.BitVec('bits', 16)

    def fields(icu, st):
        return icu.snapshot(st)
    # ---- Trigger
    ex, st, icu = I.mk()
    V = dict(icu.vars)
    A = [z3.ULT(V['request'], 1 << 16), z3.ULT(V['vectored_enabled'], 1 << 16)] + [z3.ULT(V['enabled[%d]' % i], 1 << 16) for i in range(3)]
    st.pc += A
    r = ex.call(st, '@icu_trigger', [icu.ptr, b])
    s1 = r[0]
    ck.ninstr += ex.ninstr
    ck.nstates += 1
    post = fields(icu, s1)
    exp = dict(V)
    exp['request'] = V['request'] | z3.ZeroExt(48, b)
    g = c03.diff_goal(post, exp, V)[0] + [z3.Not(kit.exit_cond(ex)), kit.obligations(ex)]
    # expected ordered event list: for irq 0..15: lines 0,1,2 then vectored
    want = []
    for irq in range(16):
        hit = z3.Extract(irq, irq, b) == 1
        for i in range(3):
            want.append(('INT', z3.And(hit, z3.Extract(irq, irq, V['enabled[%d]' % i]) == 1), (z3.BitVecVal(i, 32),)))
        vec = z3.Concat(V['vector_high[%d]' % irq], V['vector_low[%d]' % irq])
        want.append(('VINT', z3.And(hit, z3.Extract(irq, irq, V['vectored_enabled']) == 1), (vec, V['vector_context_switch[%d]' % irq] != 0)))
    got = [e for e in s1.log if e[0] in ('INT', 'VINT')]
    ok_shape = len(got) == len(want) and all(a[0] == w[0] for a, w in zip(got, want))
    g.append(z3.BoolVal(ok_shape))
    if ok_shape:
        for a, w in zip(got, want):
            guard = kit.path_cond(a[1])
            g.append(guard == w[1])
            g.append(z3.Implies(guard, bv(a[2], 32) == w[2][0]))
            if w[0] == 'VINT':
                cs = a[3] if z3.is_bool(a[3]) else (bv(a[3], 8) != 0)
                g.append(z3.Implies(guard, cs == w[2][1]))
    vars_ = {'bits': b}
    vars_.update({'icu.' + f: t for f, t in V.items()})

    def rp(inputs):
        state = {f: inputs['icu.' + f] for f in V}
        o = I.native_run(state, [('trigger', inputs['bits'])])
        if o[0] != 'ok':
            return True, {'native': o}
        bits = inputs['bits']
        exp_ev = []
        for irq in range(16):
            if (bits >> irq) & 1:
                for i in range(3):
                    if (state['enabled[%d]' % i] >> irq) & 1:
                        exp_ev.append([0, i, 0])
                if (state['vectored_enabled'] >> irq) & 1:
                    exp_ev.append([1, state['vector_low[%d]' % irq] | (state['vector_high[%d]' % irq] << 16), int(state['vector_context_switch[%d]' % irq] != 0)])
        bad = o[1]['events'] != exp_ev or o[1]['state']['request'] != (state['request'] | bits)
        return bad, {'events': o[1]['events'], 'expected': exp_ev, 'request': o[1]['state']['request']}
    ck.prove('ICU.Trigger', A, z3.And(*g), vars=vars_, replay=rp,
             sample='Trigger(b) from arbitrary routing: pending |= b; a core-line signal for exactly the pairs (irq, line) with b[irq] and enabled[line][irq]; a vectored signal (vector_high:low, context bit) for b[irq] and vectored_enabled[irq]; in irq order; nothing else changes; unrouted or masked IRQs signal nothing')
    # ---- Acknowledge / enables / getters
    for op, args, expf, retf in (('ack', [b], lambda V_: {**V_, 'request': V_['request'] & ~z3.ZeroExt(48, b)}, None),
                                 ('setenable', [0, b], lambda V_: {**V_, 'enabled[0]': z3.ZeroExt(48, b)}, None), ('setenable', [2, b], lambda V_: {**V_, 'enabled[2]': z3.ZeroExt(48, b)}, None),
                                 ('setenablev', [b], lambda V_: {**V_, 'vectored_enabled': z3.ZeroExt(48, b)}, None),
                                 ('getrequest', [], lambda V_: V_, lambda V_: z3.Extract(15, 0, V_['request'])), ('getenable', [1], lambda V_: V_, lambda V_: z3.Extract(15, 0, V_['enabled[1]'])),
                                 ('getenablev', [], lambda V_: V_, lambda V_: z3.Extract(15, 0, V_['vectored_enabled']))):
        ex, st, icu = I.mk()
        V = dict(icu.vars)
        A = [z3.ULT(V['request'], 1 << 16), z3.ULT(V['vectored_enabled'], 1 << 16)] + [z3.ULT(V['enabled[%d]' % i], 1 << 16) for i in range(3)]
        st.pc += A
        r = ex.call(st, '@icu_' + op, [icu.ptr] + args)
        ck.ninstr += ex.ninstr
        ck.nstates += 1
        g = c03.diff_goal(fields(icu, r[0]), expf(V), V)[0] + [z3.Not(kit.exit_cond(ex)), z3.BoolVal(not [e for e in r[0].log if e[0] in ('INT', 'VINT')])]
        if retf is not None:
            g.append(bv(r[1], 16) == retf(V))
        ck.prove('ICU.%s%s' % (op, args[:-1] if args and not is_c(args[-1]) else args), A, z3.And(*g), vars={'bits': b},
                 sample='Acknowledge(b) clears exactly the bits of b and nothing else; pending bits stay set until then' if op == 'ack' else None)
    return ck.export()


# ------------------------------------------------------------------------------------------------ core
CASES = ['none', 'line0', 'line1', 'line2', 'vectored']


def job_core(case, ctx_sw, tier, seed):
    E = env()
    ck = core.Check('C07', 'model_checking', tier, seed)
    R = E.R()
    inv = E.inv()
    with interp.RunScaffold(E) as sc:
        ex, st0, ctx = sc.ex, sc.st0, sc.ctx
        regs, ip = ctx['regs'], ctx['interp']
        st = st0.fork()
        sc.force_row = c08.find(E, 'nop', ())
        il = E.il
        lat = [z3.BitVec('latch%d' % i, 8) for i in range(3)]
        vlat, vcs, vaddr = z3.BitVec('vlatch', 8), z3.BitVec('vctx', 8), z3.BitVec('vaddr', 32)
        for i in range(3):
            ex.store(st, Ptr(ip.r, il['interrupt_pending'][0] + i), 1, lat[i])
        ex.store(st, Ptr(ip.r, il['vinterrupt_pending'][0]), 1, vlat)
        ex.store(st, Ptr(ip.r, il['vinterrupt_context_switch'][0]), 1, vcs)
        ex.store(st, Ptr(ip.r, il['vinterrupt_address'][0]), 4, vaddr)
        pm = st.mem[ctx['pm']].cells[0][1]
        pc = R['pc']
        A = inv + [R['prpage'] == 0, z3.ULT(pc, 0x3FFFE), z3.Select(pm, pc) == 0, R['lp'] == 0, z3.ULT(vaddr, 0x40000), z3.ULE(vcs, 1), z3.ULE(vlat, 1)] + [z3.ULE(x, 1) for x in lat]
        # the architecture-level state after latching and repeat bookkeeping
        ipn = [z3.If(lat[i] != 0, alu.ONE16, R['ip[%d]' % i]) for i in range(3)]
        ipvn = z3.If(vlat != 0, alu.ONE16, R['ipv'])
        rep_after = z3.And(R['rep'] != 0, R['repc'] != 0)
        can = z3.And(R['ie'] == 1, z3.Not(rep_after))
        want = [z3.And(R['im[%d]' % i] == 1, ipn[i] == 1) for i in range(3)]
        wantv = z3.And(R['imv'] == 1, ipvn == 1)
        cond = {'none': z3.Or(z3.Not(can), z3.Not(z3.Or(wantv, *want))),
                'line0': z3.And(can, want[0]), 'line1': z3.And(can, z3.Not(want[0]), want[1]), 'line2': z3.And(can, z3.Not(want[0]), z3.Not(want[1]), want[2]),
                'vectored': z3.And(can, z3.Not(z3.Or(*want)), wantv)}[case]
        A.append(cond)
        if case.startswith('line'):
            A.append(R['ic[%d]' % int(case[4])] == ctx_sw)
        elif case == 'vectored':
            A.append(vcs == ctx_sw)
        st.pc += A
        # expected: built from the same pre-state with the real PushPC / ContextStore helpers
        exp_st = st.fork()
        for i in range(3):
            regs.set(exp_st, 'ip', ipn[i], i)
        regs.set(exp_st, 'ipv', ipvn)
        newrep = z3.If(z3.And(R['rep'] != 0, R['repc'] == 0), z3.BitVecVal(0, 8), R['rep'])
        regs.set(exp_st, 'rep', newrep)
        regs.set(exp_st, 'repc', z3.If(rep_after, R['repc'] - 1, R['repc']))
        next_pc = z3.If(rep_after, pc, pc + 1)
        regs.set(exp_st, 'pc', next_pc)
        if case != 'none':
            if case.startswith('line'):
                k = int(case[4])
                regs.set(exp_st, 'ip', 0, k)
                target = z3.BitVecVal(0x0006 + 8 * k, 32)
            else:
                regs.set(exp_st, 'ipv', 0)
                target = vaddr
            regs.set(exp_st, 'ie', 0)
            ex.call(exp_st, '@k_pushpc', [ip])
            regs.set(exp_st, 'pc', target)
            if ctx_sw:
                ex.call(exp_st, '@k_ctxs', [ip])
        want_regs = regs.snapshot(exp_st)
        want_mem = exp_st.mem[ctx['dm']].cells[0][1]
        s1, n = sc.run(st, 1)
        ck.ninstr += n
        ck.nstates += 2
        if s1 is None:
            ck.prove('CoreEntry[%s ctx=%d]' % (case, ctx_sw), A, z3.BoolVal(False), vars=c03.vars_of(R))
            return ck.export()
        post = regs.snapshot(s1)
        g = [post[f] == want_regs[f] for f in post if not post[f].eq(want_regs[f])]
        g += [s1.mem[ctx['dm']].cells[0][1] == want_mem, z3.Not(kit.exit_cond(ex)), kit.obligations(ex)]
        # latches are consumed, the idle flag is cleared on entry
        for i in range(3):
            g.append(bv(ex.load(s1, Ptr(ip.r, il['interrupt_pending'][0] + i), 1), 8) == 0)
        g.append(bv(ex.load(s1, Ptr(ip.r, il['vinterrupt_pending'][0]), 1), 8) == 0)
        g.append(bv(ex.load(s1, Ptr(ip.r, il['idle'][0]), 1), 8) == 0)
        vars_ = c03.vars_of(R, {'latch0': lat[0], 'latch1': lat[1], 'latch2': lat[2], 'vlatch': vlat, 'vctx': vcs, 'vaddr': vaddr})
        ck.prove('CoreEntry[%s ctx=%d]' % (case, ctx_sw), A, z3.And(*g), vars=vars_,
                 sample={'none': 'no entry when the global enable is clear, a single-instruction repeat is still running, or no enabled line is pending: requests stay latched in ip/ipv, nothing is pushed',
                         'vectored': 'vectored entry only when no enabled core line is pending: ipv consumed, ie cleared, next pc pushed in cpc order, jump to the latched vector, context store iff the latched context bit'}.get(
                     case, '%s entered with priority over lower lines: its ip bit consumed (others stay latched), ie cleared, address of the next unexecuted instruction pushed in cpc order, pc = 0x%04x, context store iff ic' % (case, 6 + 8 * int(case[4]) if case.startswith('line') else 0)))
    return ck.export()


def job_signal(tier, seed):
    """SignalInterrupt / SignalVectoredInterrupt only set the latches they name"""
    E = env()
    ck = core.Check('C07', 'model_checking', tier, seed)
    ex, st0, ctx = E.base()
    ip, il = ctx['interp'], E.il
    for i in range(3):
        st = st0.fork()
        ex.call(st, '@k_signal', [ip, i])
        vals = [bv(ex.load(st, Ptr(ip.r, il['interrupt_pending'][0] + k), 1), 8) for k in range(3)]
        ck.prove('SignalInterrupt[%d]' % i, [], z3.And(*[vals[k] == (1 if k == i else 0) for k in range(3)]), witness=False, sample='SignalInterrupt(%d) latches exactly line %d' % (i, i) if i == 0 else None)
    a, cs = z3.BitVec('addr', 32), z3.BitVec('cs', 8)
    st = st0.fork()
    ex.call(st, '@k_vsignal', [ip, a, cs == 1])
    ck.prove('SignalVectoredInterrupt', [z3.ULE(cs, 1)], z3.And(bv(ex.load(st, Ptr(ip.r, il['vinterrupt_pending'][0]), 1), 8) == 1, bv(ex.load(st, Ptr(ip.r, il['vinterrupt_address'][0]), 4), 32) == a,
                                                                bv(ex.load(st, Ptr(ip.r, il['vinterrupt_context_switch'][0]), 1), 8) == cs), vars={'addr': a, 'cs': cs}, sample='SignalVectoredInterrupt latches address, context bit and the pending flag')
    ck.ninstr += ex.ninstr
    return ck.export()


def job_pending_views(tier, seed):
    """the pending bits of the core (ip[0..2], ipv) are visible in status words (st2, stt2, ...) but only interrupt delivery and
    entry may change them: writing any of the 19 status/configuration words with any value leaves them alone. (A latched
    request that a status-word write could clear would be lost; one it could set would be a spurious interrupt.)"""
    from spec import pseudo_regs as PR
    E = env()
    ck = core.Check('C07', 'model_checking', tier, seed)
    ex, st0, ctx = E.base()
    regs = ctx['regs']
    R = E.R()
    v = z3.BitVec('v', 16)
    for w in PR.ORDER:
        st = st0.fork()
        ex.exits = []
        try:
            r = ex.call(st, '@set_' + w, [regs.ptr, v])
        except (Abort, UnwindBound) as x:
            ck.inconclusive.append('PendingBitsReadOnly[%s]: %s' % (w, str(x)[:100]))
            continue
        if r is None or r is DEAD:
            ck.inconclusive.append('PendingBitsReadOnly[%s]: no return' % w)
            continue
        post = regs.snapshot(r[0])
        g = [post[f] == R[f] for f in ('ip[0]', 'ip[1]', 'ip[2]', 'ipv') if not post[f].eq(R[f])]
        if not g:
            ck.identical('PendingBitsReadOnly[%s]' % w, sample='writing %s (any value, any state) leaves ip[0..2] and ipv untouched: identical terms' % w if w in ('st2', 'stt2') else None)
        else:
            ck.prove('PendingBitsReadOnly[%s]' % w, E.inv(), z3.And(*g), vars=c03.vars_of(R, {'v': v}), sample='writing %s (any value, any state) leaves the pending bits ip[0..2] and ipv as they were' % w)
    ck.ninstr += ex.ninstr
    ck.nstates += len(PR.ORDER)
    return ck.export()


def _dispatch(fn, args):
    return fn(*args)


def run(tier, seed):
    ck = core.Check('C07', 'model_checking', tier, seed)
    ck.funcs.update(['ICU::Trigger', 'ICU::TriggerSingle', 'ICU::Acknowledge', 'ICU::GetRequest', 'ICU::SetEnable', 'ICU::SetEnableVectored', 'ICU::GetEnable', 'ICU::GetEnableVectored', 'ICU::GetVector', 'std::bitset<16> operators',
                     'Interpreter::Run (latch sampling, repeat bookkeeping, interrupt block)', 'Interpreter::SignalInterrupt', 'Interpreter::SignalVectoredInterrupt', 'PushPC', 'ContextStore', 'RegisterState::Set<W> for the 19 status/configuration words (pending bits read-only)'])
    ck.assumptions += ['controller: the 64-bit bitset words hold 16-bit values (the only writers are bitset<16> operations); handlers installed; handler calls are events',
                       'core: Inv, prpage == 0, pc < 0x3FFFE, no block repeat active, the dispatched instruction is a nop; the five entry cases partition the state space (their disjunction is valid by construction of the conditions)',
                       'expected post-state is assembled with the real PushPC / ContextStore helpers applied to the same pre-state (their own correctness is C08)',
                       'wiring peripheral -> IRQ number (timer0 0xA, timer1 0x9, BTDMP 0xB, APBP 0xE, DMA 0xF) lives in closures built by Teakra::Impl and is examined with the object graph (C12/C17)']
    ck.bounds += ['one Trigger / one Run cycle from an arbitrary state; "once per latched request" and arbitrary interleavings follow by induction: the latch and ip bit are consumed exactly at entry (paper)']
    jobs = [(job_icu, (tier, seed)), (job_signal, (tier, seed)), (job_pending_views, (tier, seed))] + [(job_core, ('none', 0, tier, seed))] + [(job_core, (c, k, tier, seed)) for c in CASES[1:] for k in (0, 1)]
    for r in core.pmap(_dispatch, jobs):
        if '__error__' in r:
            ck.engine_errors.append(r['__error__'])
        else:
            ck.absorb(r)
    # translator validation for the controller: concrete states through executor and native twin
    I = IcuEnv()
    rnd = random.Random(seed)
    for it in range(12 if tier == 'quick' else 60):
        ex, st, icu = I.mk()
        state = {}
        for f, t in icu.vars.items():
            state[f] = rnd.randrange(1 << 16) if not f.startswith('vector_context') else rnd.randrange(2)
        for f, v in state.items():
            name, idx = (f[:f.index('[')], int(f[f.index('[') + 1:-1])) if '[' in f else (f, 0)
            icu.set(st, name, v, idx)
        bits = rnd.randrange(1 << 16)
        r = ex.call(st, '@icu_trigger', [icu.ptr, bits])
        evs = [[0 if e[0] == 'INT' else 1, e[2], (int(bool(e[3])) if e[0] == 'VINT' else 0)] for e in r[0].log if e[0] in ('INT', 'VINT')]
        nat = I.native_run(state, [('trigger', bits)])
        if nat[0] == 'ok' and nat[1]['events'] == evs:
            ck.validated += 1
        else:
            ck.engine_errors.append('translator validation mismatch ICU.Trigger %r: exec %r native %r' % (bits, evs[:4], nat))
    return ck.finish('interrupt controller routing and core interrupt entry decided for one step from arbitrary states')
