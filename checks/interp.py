"""Shared environment for the interpreter-centred checks: the real decode table built inside the executor, symbolic
RegisterState under Inv, data/program memory as SMT arrays, dispatch of a table row through the real Matcher::call."""
import os, sys, time, json, subprocess, ctypes
import z3
from engine import build, kit, core, native
from engine.kit import Ptr, bv, is_c
from engine.llsym import Abort, UnwindBound, DEAD
from spec import regs_inv

DREAD = '@_ZN6Teakra15MemoryInterface8DataReadEtb'
DWRITE = '@_ZN6Teakra15MemoryInterface9DataWriteEttb'
PREAD = '@_ZNK6Teakra15MemoryInterface11ProgramReadEj'
PWRITE = '@_ZN6Teakra15MemoryInterface12ProgramWriteEjt'
MATCHER_SIZE = 72


def extract_rows(ex, st, vec):
    """read the Matcher objects of a std::vector<Matcher<V>> built inside the executor"""
    b = ex.load(st, Ptr(vec, 0), 8)
    e_ = ex.load(st, Ptr(vec, 8), 8)
    n = (e_.o - b.o) // MATCHER_SIZE
    rows = []
    for i in range(n):
        mp = Ptr(b.r, b.o + MATCHER_SIZE * i)
        nm = kit.cstring(ex, st, ex.load(st, mp, 8))
        mask = ex.load(st, Ptr(mp.r, mp.o + 8), 2)
        exp = ex.load(st, Ptr(mp.r, mp.o + 10), 2)
        expanded = ex.load(st, Ptr(mp.r, mp.o + 12), 1)
        rb = ex.load(st, Ptr(mp.r, mp.o + 48), 8)
        re_ = ex.load(st, Ptr(mp.r, mp.o + 56), 8)
        rej = []
        if rb.r != 0:
            for k in range((re_.o - rb.o) // 4):
                rej.append((ex.load(st, Ptr(rb.r, rb.o + 4 * k), 2), ex.load(st, Ptr(rb.r, rb.o + 4 * k + 2), 2)))
        rows.append({'i': i, 'ptr': mp, 'name': nm, 'mask': mask, 'expected': exp, 'expanded': expanded, 'rejectors': rej})
    return rows


def tree_layout(tree):
    exe = build.compile_exe('layout.cpp', tree=tree, defs=['-Wno-invalid-offsetof'])
    return json.loads(subprocess.run([exe], capture_output=True, text=True, check=True).stdout)


class IEnv:
    """one per tree ('cur' = /repo working tree, 'ref' = frozen /verif/ref)"""

    def __init__(s, tree='cur', ubsan=False):
        s.tree = tree
        s.root = build.REPO if tree == 'cur' else build.REF
        ll, s.hash = build.compile_ir('h_interp.cpp', tree=s.root, ubsan=ubsan)
        s.mod = build.load_module(ll)
        s.lay = tree_layout(s.root)
        s.rl = s.lay['RegisterState']
        s.il = s.lay['Interpreter']
        s._base = None
        s.rows = None

    # ------------------------------------------------------------------ base state
    def base(s):
        """(ex, st, ctx) with the decode table built; fork st before use. Symbolic variable names do not depend on
        the tree, so terms of the two trees are comparable."""
        if s._base is not None:
            return s._base
        ex, st = kit.new_exec(s.mod, unwind=3000)
        ex.feas_timeout_ms = 10000
        regs = kit.Obj(ex, st, s.rl, 'regs', prefix='r')
        interp = ex.new_region(st, s.il['_size'][0], 'interp')
        memif = ex.new_region(st, 24, 'memif')
        ct = ex.new_region(st, 24, 'coretiming')
        ex.fill(st, Ptr(ct, 0), 24, 0)
        ex.store(st, Ptr(interp, 0), 8, Ptr(ct, 0))
        ex.store(st, Ptr(interp, 8), 8, regs.ptr)
        ex.store(st, Ptr(interp, 16), 8, Ptr(memif, 0))
        for i in range(3):
            ex.store(st, Ptr(interp, s.il['interrupt_pending'][0] + i), 1, 0)
        ex.store(st, Ptr(interp, s.il['vinterrupt_pending'][0]), 1, 0)
        ex.store(st, Ptr(interp, s.il['vinterrupt_context_switch'][0]), 1, 0)
        ex.store(st, Ptr(interp, s.il['vinterrupt_address'][0]), 4, 0)
        ex.store(st, Ptr(interp, s.il['idle'][0]), 1, 0)
        dm = ex.new_region(st, None, 'DMEM')
        pm = ex.new_region(st, None, 'PMEM')
        st.mem[dm].cells[0] = (0, z3.Array('dmem', z3.BitVecSort(16), z3.BitVecSort(16)))
        st.mem[pm].cells[0] = (0, z3.Array('pmem', z3.BitVecSort(32), z3.BitVecSort(16)))

        def dread(e, st_, a):
            addr = bv(a[1], 16)
            st_.log.append(('R', list(st_.pc), addr))
            return st_, z3.Select(st_.mem[dm].cells[0][1], addr)

        def dwrite(e, st_, a):
            addr, val = bv(a[1], 16), bv(a[2], 16)
            reg = st_.wregion(dm)
            reg.cells[0] = (0, z3.Store(reg.cells[0][1], addr, val))
            st_.log.append(('W', list(st_.pc), addr, val))
            return st_, None

        def pread(e, st_, a):
            addr = bv(a[1], 32)
            st_.log.append(('P', list(st_.pc), addr))
            return st_, z3.Select(st_.mem[pm].cells[0][1], addr)

        def pwrite(e, st_, a):
            addr, val = bv(a[1], 32), bv(a[2], 16)
            reg = st_.wregion(pm)
            reg.cells[0] = (0, z3.Store(reg.cells[0][1], addr, val))
            st_.log.append(('PW', list(st_.pc), addr, val))
            return st_, None
        ex.intercepts[DREAD] = dread
        ex.intercepts[DWRITE] = dwrite
        ex.intercepts[PREAD] = pread
        ex.intercepts[PWRITE] = pwrite

        # static-local guards behave like the real ones (first call initialises)
        def gacq(e, st_, a):
            b = e.load(st_, a[0], 1)
            return st_, (0 if (is_c(b) and b == 1) else 1)

        def grel(e, st_, a):
            e.store(st_, a[0], 1, 1)
            return st_, None
        ex.intercepts['@__cxa_guard_acquire'] = gacq
        ex.intercepts['@__cxa_guard_release'] = grel
        _install_hashtable_stubs(ex)

        vec = ex.new_region(st, 24, 'table_vec')
        r = ex.call(st, '@mk_table', [Ptr(vec, 0)])
        st = r[0]
        rows = extract_rows(ex, st, vec)
        b = ex.load(st, Ptr(vec, 0), 8)
        ex.unwind = 300
        s.rows = rows
        ctx = {'regs': regs, 'interp': Ptr(interp, 0), 'dm': dm, 'pm': pm, 'table': b, 'vec': vec}
        _tabulate_statics(s, ex, st, ctx)
        ex.exits = []
        ex.oblig = []
        s._base = (ex, st, ctx)
        return s._base

    # ------------------------------------------------------------------ helpers
    def R(s, st=None):
        """name -> term of the symbolic pre-state"""
        ex, st0, ctx = s.base()
        return dict(ctx['regs'].vars)

    def inv(s):
        return regs_inv.inv(s.R())

    def match_pred(s, row, o):
        """the row's match predicate as data read from the real Matcher object (validated against the real
        Matcher::Matches IR by C02)"""
        c = [(o & row['mask']) == row['expected']]
        for m, u in row['rejectors']:
            c.append((o & m) != u)
        return z3.And(*c) if len(c) > 1 else c[0]

    def run_row(s, i, o, e, extra_pc=(), timeout_s=300, st_in=None, keep=False):
        """dispatch table row i through the real Matcher::call; returns dict(st, exits, oblig, ninstr) ; st None if no
        path returns normally"""
        ex, st0, ctx = s.base()
        st = (st_in if st_in is not None else st0).fork()
        row = s.rows[i]
        st.pc += list(extra_pc)
        if not keep:
            ex.exits = []
            ex.oblig = []
        n0 = ex.ninstr
        r = ex.call(st, '@callm', [row['ptr'], ctx['interp'], o, e])
        out = {'st': None if (r is None or r is DEAD) else r[0], 'exits': list(ex.exits), 'oblig': list(ex.oblig), 'ninstr': ex.ninstr - n0}
        return out

    def post_regs(s, st):
        ex, st0, ctx = s.base()
        return ctx['regs'].snapshot(st)

    def post_dmem(s, st):
        ex, st0, ctx = s.base()
        return st.mem[ctx['dm']].cells[0][1]

    def pre_dmem(s):
        ex, st0, ctx = s.base()
        return st0.mem[ctx['dm']].cells[0][1]


def _install_hashtable_stubs(ex):
    """libstdc++ out-of-line helpers of unordered_map/set (bucket-count policy). Any prime >= n is a functionally
    valid answer: container semantics (count/at) do not depend on the bucket count."""
    primes = [2, 3, 5, 7, 11, 13, 17, 19, 23, 29, 31, 37, 41, 43, 47, 53, 59, 61, 67, 71, 73, 79, 83, 89, 97, 127, 251, 509, 1021]

    def next_prime(n):
        for p in primes:
            if p >= n:
                return p
        return primes[-1]

    def next_bkt(e, st, a):
        n = a[1]
        return st, next_prime(max(n, 2))

    def need_rehash(e, st, a):
        # std::pair<bool,size_t> _M_need_rehash(n_bkt, n_elt, n_ins)
        n_bkt, n_elt, n_ins = a[1], a[2], a[3]
        if n_elt + n_ins > n_bkt:
            return st, [1, next_prime(max(n_elt + n_ins, 2 * n_bkt))]
        return st, [0, 0]
    ex.intercepts['@_ZNKSt8__detail20_Prime_rehash_policy11_M_next_bktEm'] = next_bkt
    ex.intercepts['@_ZNKSt8__detail20_Prime_rehash_policy14_M_need_rehashEmmm'] = need_rehash


def _tabulate_statics(env, ex, st, ctx):
    """Cuts by tabulation (DESIGN 1.2): Interpreter::CounterAcc (static unordered_map) and the allowed_instruction
    unordered_set in alm(Alm,Register,Ax) are run concretely inside the executor for every key of their finite domain
    (the real hashing/lookup code executes), and replaced by the resulting finite table for symbolic keys."""
    mod = env.mod
    env.tabulated = []
    ca = [n for n in mod.funcs if 'CounterAcc' in n]
    for name in ca:
        table = {}
        for k in range(0, 80):
            ex.exits = []
            try:
                r = ex.call(st.fork(), name, [k])
            except (Abort, UnwindBound):
                r = None
            table[k] = None if (r is None or r is DEAD) else r[1]
        # static initialisation happened inside forks; run once on st itself so that the guard is set in the base state
        try:
            ex.call(st, name, [0])
        except Abort:
            pass
        good = {k: v for k, v in table.items() if v is not None}

        def counteracc(e, st_, a, good=good):
            k = a[0]
            if is_c(k):
                if k in good:
                    return st_, good[k]
                e.exits.append((list(st_.pc), 'throw', 'CounterAcc: key not in map'))
                return DEAD
            k = bv(k, 32)
            bad = z3.And(*[k != kk for kk in good])
            if e.feasible(st_, bad):
                e.exits.append((list(st_.pc) + [bad], 'throw', 'CounterAcc: key not in map'))
                st_.pc.append(z3.Not(bad))
            out = z3.BitVecVal(0, 32)
            for kk, vv in good.items():
                out = z3.If(k == kk, z3.BitVecVal(vv, 32), out)
            return st_, out
        ex.intercepts[name] = counteracc
        env.tabulated.append('%s: %d keys' % (name, len(good)))
    for name in [n for n in mod.funcs if 'unordered_set' in n and '5countE' in n]:
        table = {}
        kr = ex.new_region(st, 4, 'setkey')
        # the set object is a function-local static: find it through the caller is awkward, so tabulate lazily:
        env.tabulated.append('%s: tabulated lazily per call site' % name)

        def count(e, st_, a, name=name):
            keyp = a[1]
            k = e.load(st_, keyp, 4)
            if is_c(k):
                return e.call_plain(st_, name, a)
            k = bv(k, 32)
            out = z3.BitVecVal(0, 64)
            tmp = e.new_region(st_, 4, 'setkey')
            for kk in range(16):
                e.store(st_, Ptr(tmp, 0), 4, kk)
                r = e.call_plain(st_.fork(), name, [a[0], Ptr(tmp, 0)])
                out = z3.If(k == kk, z3.BitVecVal(r[1], 64), out)
            e.oblig.append((list(st_.pc), z3.ULT(k, 16), 'AlmOp key < 16'))
            return st_, out
        ex.intercepts[name] = count


# ------------------------------------------------------------------------------------------------ native twin
class Twin:
    def __init__(s, env):
        s.env = env
        s.tw = native.Twin(build.compile_so('h_interp.cpp', tree=env.root))
        s.rl = env.rl

    def run_row(s, row, o, e, regs, dmem_writes=(), ops=None):
        """regs: {field name ('a[0]' style): int}; dmem_writes: [(addr, val)] pre-state memory; returns
        ('ok', {'regs':{...}, 'dmem': {addr: val for touched}, 'unimpl': bool}) or ('signal', n)"""
        tw = s.tw

        def body():
            m = tw.fn('nm_new', ctypes.c_void_p, [])()
            rp = tw.fn('nm_regs', ctypes.c_void_p, [ctypes.c_void_p])(m)
            dm = tw.fn('nm_dmem', ctypes.c_void_p, [])()
            for name, val in regs.items():
                f, idx = (name[:name.index('[')], int(name[name.index('[') + 1:-1])) if '[' in name else (name, 0)
                native.poke(rp, s.rl, f, val, idx)
            for a_, v_ in dmem_writes:
                ctypes.memmove(dm + 2 * a_, int(v_).to_bytes(2, 'little'), 2)
            before = ctypes.string_at(dm, 0x20000)
            pm = tw.fn('nm_pmem', ctypes.c_void_p, [])()
            pbefore = ctypes.string_at(pm, 0x80000)
            tw.fn('nm_wlog_clear', None, [])()
            rc = tw.fn('nm_try_row', ctypes.c_int, [ctypes.c_void_p, ctypes.c_uint, ctypes.c_uint16, ctypes.c_uint16])(m, row, o, e)
            nw = tw.fn('nm_wlog_n', ctypes.c_int, [])()
            wl = tw.fn('nm_wlog', ctypes.c_uint, [ctypes.c_int, ctypes.c_int])
            writes = [('program' if wl(k, 0) else 'data', wl(k, 1), wl(k, 2)) for k in range(min(nw, 64))]
            out = {}
            for f, (off, sz, cnt, stride) in s.rl.items():
                if f == '_size' or sz > 8:
                    continue
                for i in range(cnt):
                    out[f if cnt == 1 else '%s[%d]' % (f, i)] = native.peek(rp, s.rl, f, i)
            after = ctypes.string_at(dm, 0x20000)
            ch = {}
            if after != before:
                for a_ in range(0x10000):
                    if after[2 * a_:2 * a_ + 2] != before[2 * a_:2 * a_ + 2]:
                        ch[a_] = int.from_bytes(after[2 * a_:2 * a_ + 2], 'little')
            pafter = ctypes.string_at(pm, 0x80000)
            pch = {}
            if pafter != pbefore:
                for a_ in range(0x40000):
                    if pafter[2 * a_:2 * a_ + 2] != pbefore[2 * a_:2 * a_ + 2]:
                        pch[a_] = int.from_bytes(pafter[2 * a_:2 * a_ + 2], 'little')
            return {'regs': out, 'dmem': ch, 'pmem': pch, 'writes': writes, 'unimpl': rc == 1}
        return native.in_child(body)


_twin_cache = {}


def spec_replayer(E, i, exp_names):
    """replay for 'row vs model' obligations: run the row on the natively compiled current tree and compare the fields
    named in exp_names with the model's expected values (inputs['exp.<field>'])"""
    def rp(inputs):
        tw = _twin_cache.get(E.tree)
        if tw is None:
            tw = _twin_cache[E.tree] = Twin(E)
        regs = {k[2:]: v for k, v in inputs.items() if k.startswith('r.')}
        mem = {}
        k_ = 0
        while 'rd%d.addr' % k_ in inputs:
            mem.setdefault(inputs['rd%d.addr' % k_], inputs['rd%d.val' % k_])
            k_ += 1
        a = tw.run_row(i, inputs['o'], inputs['e'], regs, list(mem.items()))
        if a[0] != 'ok':
            return True, {'native': 'aborts: %r' % (a,)}
        if a[1]['unimpl']:
            return True, {'native': 'reports unimplemented'}
        bad = {f: (a[1]['regs'].get(f), inputs['exp.' + f]) for f in exp_names if 'exp.' + f in inputs and a[1]['regs'].get(f) != inputs['exp.' + f]}
        if 'exp.dmem_unchanged' in inputs and a[1]['dmem']:
            bad['dmem'] = a[1]['dmem']
        return bool(bad), {'fields (native, model)': bad}
    return rp


def read_vars(E, st, limit=24):
    """named variables for the data-memory reads of a run (address and pre-state value), for replay files"""
    dm0 = E.pre_dmem()
    out = {}
    k = 0
    for ev in (st.log if st is not None else []):
        if ev[0] == 'R' and k < limit:
            out['rd%d.addr' % k] = ev[2]
            out['rd%d.val' % k] = z3.Select(dm0, ev[2])
            k += 1
    return out


def validate_row(C, i, seed, pid, level):
    """translator validation: one random concrete (opcode, state) per row through the executor and the native twin"""
    import random
    ck = core.Check(pid, level, 'quick', seed)
    rnd = random.Random(seed * 1000 + i)
    row = C.rows[i]
    ex, st0, ctx = C.base()
    R = C.R()
    for attempt in range(40):
        oc = (rnd.randrange(65536) & ~row['mask'] & 0xFFFF) | row['expected']
        if all((oc & m) != u for m, u in row['rejectors']):
            break
    ec = rnd.randrange(65536)
    conc = {}
    s = z3.Solver()
    s.add(*C.inv())
    # random but Inv-respecting state: ask the solver for a model near random values
    for f, t in R.items():
        s.push()
        s.add(t == rnd.randrange(1 << min(t.size(), 16)))
        if s.check() != z3.sat:
            s.pop()
    assert s.check() == z3.sat
    m = s.model()
    conc = {f: m.eval(t, model_completion=True).as_long() for f, t in R.items()}
    A = [t == conc[f] for f, t in R.items()]
    memv = rnd.randrange(65536)
    dm0 = C.pre_dmem()
    try:
        r = C.run_row(i, oc, ec, A)
    except (Abort, UnwindBound) as x:
        ck.notes.append('validation row %d skipped: %r' % (i, x))
        return ck.export()
    if r['st'] is None:
        return ck.export()
    sub = [(t, z3.BitVecVal(conc[f], t.size())) for f, t in R.items()]
    K = z3.K(z3.BitVecSort(16), z3.BitVecVal(memv, 16))
    sub.append((dm0, K))
    post = C.post_regs(r['st'])
    got = {}
    for f, t in post.items():
        v = z3.simplify(z3.substitute(t, *sub))
        got[f] = v.as_long() if z3.is_bv_value(v) else None
    tw = _twin_cache.get(C.tree)
    if tw is None:
        tw = _twin_cache[C.tree] = Twin(C)
    nat = tw.run_row(i, oc, ec, conc, [])
    # native memory is zero-filled: use memv = 0 semantics by re-substituting
    K0 = z3.K(z3.BitVecSort(16), z3.BitVecVal(0, 16))
    sub[-1] = (dm0, K0)
    got = {}
    for f, t in post.items():
        v = z3.simplify(z3.substitute(t, *sub))
        got[f] = v.as_long() if z3.is_bv_value(v) else None
    if nat[0] != 'ok':
        ck.notes.append('validation row %d: native %r' % (i, nat[0]))
        return ck.export()
    if nat[1]['unimpl']:
        return ck.export()
    bad = [f for f in got if got[f] is not None and got[f] != nat[1]['regs'].get(f)]
    if bad:
        ck.engine_errors.append('translator validation mismatch row %d %s opcode %#06x: fields %s exec=%r native=%r' % (i, row['name'], oc, bad[:5], [got[f] for f in bad[:5]], [nat[1]['regs'].get(f) for f in bad[:5]]))
    else:
        ck.validated += 1
    return ck.export()


# ------------------------------------------------------------------------------------------------ Run scaffold
class RunScaffold:
    """Interpreter::Run executed symbolically. `decoders[opcode]` (a 65536-entry vector built by 1.4 G instructions
    natively) is answered from the real decode table: for a concrete opcode the unique matching row (C02: this is what
    Decode<Interpreter>(opcode) returns), for a symbolic opcode the row chosen by the caller through `force_row`."""

    def __init__(s, E):
        s.E = E
        s.ex, s.st0, s.ctx = E.base()
        s.vecnames = [n for n in E.mod.funcs if n.startswith('@_ZNKSt6vectorI7MatcherIN6Teakra11InterpreterEE') and n.endswith('ixEm')]
        s.force_row = None
        s.undefined_ptr = None

    def __enter__(s):
        E = s.E

        def vecidx(e, st, a):
            idx = a[1]
            if s.force_row is not None:
                st.log.append(('DEC', list(st.pc), idx))
                return st, E.rows[s.force_row]['ptr']
            if not is_c(idx):
                idx2 = z3.simplify(bv(idx, 64))
                if not z3.is_bv_value(idx2):
                    raise Abort('decoders[symbolic opcode] without force_row')
                idx = idx2.as_long()
            m = [r for r in E.rows if (idx & r['mask']) == r['expected'] and all((idx & mm) != uu for mm, uu in r['rejectors'])]
            if len(m) != 1:
                raise Abort('opcode %#06x decodes to %d rows' % (idx, len(m)))
            st.log.append(('DEC', list(st.pc), idx))
            return st, m[0]['ptr']
        for n in s.vecnames:
            s.ex.intercepts[n] = vecidx
        return s

    def __exit__(s, *a):
        for n in s.vecnames:
            s.ex.intercepts.pop(n, None)

    def program(s, st, base, words):
        """store concrete program words at concrete addresses (pmem becomes Store(...) over the symbolic array)"""
        reg = st.wregion(s.ctx['pm'])
        arr = reg.cells[0][1]
        for k, w in enumerate(words):
            arr = z3.Store(arr, z3.BitVecVal(base + k, 32), z3.BitVecVal(w, 16) if is_c(w) else w)
        reg.cells[0] = (0, arr)

    def run(s, st, cycles):
        s.ex.exits, s.ex.oblig = [], []
        n0 = s.ex.ninstr
        r = s.ex.call(st, '@runn', [s.ctx['interp'], cycles])
        return (None if (r is None or r is DEAD) else r[0]), s.ex.ninstr - n0


def concrete_pread(E):
    """make ProgramRead return a Python int when the address and the stored word are concrete (program laid out by
    RunScaffold.program): control flow of Run then stays concrete"""
    ex, st0, ctx = E.base()
    pm = ctx['pm']

    def pread(e, st_, a):
        addr = bv(a[1], 32)
        st_.log.append(('P', list(st_.pc), addr))
        v = z3.Select(st_.mem[pm].cells[0][1], addr)
        v2 = z3.simplify(v)
        if z3.is_bv_value(v2):
            return st_, v2.as_long()
        return st_, v
    ex.intercepts[PREAD] = pread
