"""C18 — no guest program or register write makes the emulator touch memory out of bounds / no UB.
One step from an arbitrary well-formed state, for every decode-table row, the Run scaffold and the peripheral entry
points: every index into the DSP memory array and every internal table index is in range, no shift/overflow/division UB,
execution ends only by returning, by UnimplementedException or by a deliberate assertion, and the well-formedness
invariant Inv is re-established (which extends the one-step result to arbitrary programs by induction)."""
import z3, random, os
from engine import build, kit, core
from engine.kit import Ptr, bv, is_c
from engine.llsym import DEAD, Abort, UnwindBound
from checks import interp, c03, c08
from spec import regs_inv

_E = {}


def env(ubsan=False):
    k = 'ub' if ubsan else 'plain'
    if k not in _E:
        e = interp.IEnv('cur', ubsan=ubsan)
        e.base()
        _E[k] = e
    return _E[k]


def inv_full(E):
    """Inv on the visible registers AND on what the shadow/bank registers turn into when the real code swaps them in
    (ContextRestore covers the batch shadows, ar/arp shadows, repcs, a1s/b1s; banke with all flags covers the bank set)."""
    if hasattr(E, '_inv_full'):
        return E._inv_full
    ex, st0, ctx = E.base()
    regs, ip = ctx['regs'], ctx['interp']
    R = E.R()
    out = list(E.inv())
    s1 = st0.fork()
    ex.call(s1, '@k_ctxr', [ip])
    out += regs_inv.inv(regs.snapshot(s1))
    i = c08.find(c03.env(), 'banke', ('BankFlags',)) if False else None
    s2 = st0.fork()
    row = [r for r in E.rows if r['name'] == 'banke'][0]
    r2 = E.run_row(row['i'], row['expected'] | 0x3F, 0, [], st_in=s2)
    out += regs_inv.inv(regs.snapshot(r2['st']))
    E._inv_full = out
    return out


def job_row(i, ubsan, tier, seed):
    E = env(ubsan)
    ck = core.Check('C18', 'model_checking', tier, seed)
    row = E.rows[i]
    o, e = z3.BitVec('o', 16), z3.BitVec('e', 16)
    R = E.R()
    A = inv_full(E) + [E.match_pred(row, o)]
    ordinal = len([r_ for r_ in E.rows[:i] if r_['name'] == row['name']])
    tag = '%s#%d%s' % (row['name'], ordinal, ' ubsan' if ubsan else '')
    try:
        r = E.run_row(i, o, e, A)
    except (Abort, UnwindBound) as x:
        ck.inconclusive.append('row %s: executor stopped: %s' % (tag, str(x)[:200]))
        return ck.export()
    ck.ninstr += r['ninstr']
    ck.nstates += 1
    X = type('X', (), {'exits': r['exits'], 'oblig': r['oblig']})()
    vars_ = c03.vars_of(R, {'o': o, 'e': e})
    if r['st'] is not None:
        vars_.update(interp.read_vars(E, r['st'], 8))
    # (ii)+(iii) internal table indexes in range, no UB trap
    g = [kit.obligations(X), z3.Not(kit.exit_cond(X, ('ub', 'trap', 'abort')))]
    ck.prove('Row.indexes_and_ub[%s]' % tag, A, z3.And(*g), vars=vars_, replay=abort_replayer(E, i),
             sample='row %s from any well-formed state: every std::array / table index is below its bound and no undefined shift, overflow or division is reachable' % tag if i % 50 == 0 else None)
    normal = z3.Not(kit.exit_cond(X))
    if r['st'] is not None:
        # (i) program-memory accesses stay inside the 18-bit program space (the data side is bounded by its 16-bit address: C11)
        pa = [ev for ev in r['st'].log if ev[0] in ('P', 'PW')]
        if pa:
            ck.prove('Row.program_access[%s]' % tag, A, z3.And(*[z3.Implies(kit.path_cond(ev[1]), z3.ULT(bv(ev[2], 32), 0x40000)) for ev in pa]), vars=vars_, replay=abort_replayer(E, i), sample='row %s: every program-memory access is below 0x40000' % tag)
        # (v) Inv re-established
        post = E.post_regs(r['st'])
        ck.prove('Row.inv_preserved[%s]' % tag, A, z3.Implies(normal, z3.And(*regs_inv.inv(post))), vars=vars_, replay=inv_replayer(E, i),
                 sample='row %s re-establishes Inv (all fields within their hardware widths, pc < 2^18, loop-stack shape)' % tag if i % 50 == 0 else None)
    return ck.export()


def job_kernels_ub(tier, seed):
    """the arithmetic / addressing helpers every row is built from, on the UBSan-instrumented IR, from arbitrary arguments:
    no undefined shift (count >= width), signed overflow, division by zero or out-of-range table index is reachable"""
    E = env(True)
    ck = core.Check('C18', 'model_checking', tier, seed)
    ex, st0, ctx = E.base()
    regs, ip = ctx['regs'], ctx['interp']
    R = E.R()
    inv = inv_full(E)
    b1 = lambda n_: z3.BitVec(n_, 8)
    v64, w64 = z3.BitVec('ka', 64), z3.BitVec('kb', 64)
    u32, s16, t16, q16 = z3.BitVec('kunit', 32), z3.BitVec('ks', 16), z3.BitVec('kt', 16), z3.BitVec('kq', 16)
    f0, f1, f2, f3 = [z3.Bool('kf%d' % k) for k in range(4)]          # bool parameters are i1 in the IR
    bit = lambda f: z3.BoolVal(True)
    acc16 = lambda t: z3.Or(t == 0, t == 4, t == 8, t == 12)            # RegName a0 a1 b0 b1
    K = [('AddSub', '@k_addsub', [ip, v64, w64, f0], [bit(f0)]),
         ('ShiftBus40', '@k_shift', [ip, v64, s16, t16], [acc16(t16)]),
         ('Exp', '@k_exp', [ip, v64], []),
         ('SetAccFlag', '@k_setaccflag', [ip, v64], []),
         ('SaturateAcc', '@k_saturate', [ip, v64], []),
         ('SatAndSetAccAndFlag', '@k_satset', [ip, t16, v64], [acc16(t16)]),
         ('GetAndSatAcc', '@k_getsat', [ip, t16], [acc16(t16)]),
         ('DoMultiplication', '@k_domul', [ip, u32, f0, f1], [z3.ULT(u32, 2), bit(f0), bit(f1)]),
         ('ProductToBus40', '@k_p2b40', [ip, s16], [z3.ULT(s16, 2)]),
         ('ProductSum', '@k_prodsum', [ip, s16, t16, f0, f1, f2, f3], [z3.ULT(s16, 4), acc16(t16), bit(f0), bit(f1), bit(f2), bit(f3)]),
         ('ExtendOperandForAlm', '@k_extalm', [ip, s16, t16], [z3.ULT(s16, 16)]),
         ('StepAddress', '@k_step', [ip, u32, s16, t16, f0], [z3.ULT(u32, 8), z3.ULT(t16, 8), bit(f0)]),
         ('RnAndModify', '@k_rnmod', [ip, u32, t16, f0], [z3.ULT(u32, 8), z3.ULT(t16, 8), bit(f0)]),
         ('RnAddress', '@k_rnaddr', [ip, u32, z3.BitVec('kv32', 32)], [z3.ULT(u32, 8)]),
         ('OffsetAddress', '@k_offset', [ip, u32, s16, t16, f0], [z3.ULT(u32, 8), z3.ULT(t16, 4), bit(f0)]),
         ('RegToBus16', '@k_reg2bus', [ip, s16, f0], []),
         ('RegFromBus16', '@k_bus2reg', [ip, s16, t16], []),
         ('PushPC', '@k_pushpc', [ip], []), ('PopPC', '@k_poppc', [ip], []),
         ('ContextStore', '@k_ctxs', [ip], []), ('ContextRestore', '@k_ctxr', [ip], [])]
    for name, fn, args, pre in K:
        st = st0.fork()
        ex.exits, ex.oblig = [], []
        old = ex.unwind
        ex.unwind = max(old, 80)
        try:
            n0 = ex.ninstr
            ex.call(st, fn, args)
            ck.ninstr += ex.ninstr - n0
            ck.nstates += 1
        except (Abort, UnwindBound) as x:
            ck.inconclusive.append('kernel %s (UBSan IR): %s' % (name, str(x)[:160]))
            continue
        finally:
            ex.unwind = old
        X = type('X', (), {'exits': list(ex.exits), 'oblig': list(ex.oblig)})()
        vars_ = c03.vars_of(R, {str(a): a for a in args if z3.is_expr(a)})
        ck.prove('Kernel.ub[%s]' % name, inv + pre, z3.And(kit.obligations(X), z3.Not(kit.exit_cond(X, ('ub', 'trap')))), vars=vars_,
                 sample='%s with arbitrary arguments and any well-formed register state (UBSan-instrumented IR): no shift by >= the operand width, signed overflow, division by zero or out-of-range index' % name if name in ('ShiftBus40', 'StepAddress') else None)
    return ck.export()


def job_icu_vectors(tier, seed):
    """guest-programmable interrupt vectors stay inside the 18-bit program space: the MMIO vector registers keep the high part
    of each vector within its 2-bit field, and - given that - a vectored delivery hands the core an address below 0x40000
    (the core copies it into pc without a further check, and the next fetch indexes program memory with it)"""
    from checks import graph, c12
    G = graph.get()
    ex, st0, ctx, A, names, nstor = c12.overlay(G)
    ck = core.Check('C18', 'model_checking', tier, seed)
    L = G.L
    impl = ctx['impl']
    v = z3.BitVec('v', 16)
    off, sz, cnt, stride = L['ICU']['vector_high']
    for n_ in range(16):
        s1 = st0.fork()
        try:
            ex.exits = []
            ex.call(s1, '@ti_mmio_write', [impl, 0x212 + 4 * n_, v])
        except (Abort, UnwindBound) as x:
            ck.inconclusive.append('Icu.vector_high.range[%d]: %s' % (n_, str(x)[:100]))
            continue
        ck.nstates += 1
        hi = bv(ex.load(s1, Ptr(impl.r, G.off['icu'] + off + n_ * stride), sz), 8 * sz)
        ck.prove('Icu.vector_high.range[%d]' % n_, A, z3.ULE(hi, 3), vars={'v': v}, witness=(n_ == 0),
                 sample='MMIO write of any 16-bit value to the vector register of IRQ %d leaves the high part of the vector within 2 bits (icu.md: VADDR_H[1:0])' % n_ if n_ in (0, 15) else None)
    # delivery: software trigger of any IRQ set from any ICU state whose vectors are in range
    PT = kit.find_type(G.mod, 'Teakra::Processor::Impl"')
    poff = G.mod.offsets(PT)
    pr = ctx['proc']
    IL = L['Interpreter']
    inrange = [z3.ULE(names['icu.vector_high[%d]' % k], 3) for k in range(16)]
    s1 = st0.fork()
    s1.pc += inrange
    try:
        ex.call(s1, '@ti_mmio_write', [impl, 0x204, v])
        addr = bv(ex.load(s1, Ptr(pr.r, pr.o + poff[2] + IL['vinterrupt_address'][0]), 4), 32)
        ck.nstates += 1
        pend = bv(ex.load(s1, Ptr(pr.r, pr.o + poff[2] + IL['vinterrupt_pending'][0]), 1), 8)
        ck.prove('Icu.vector_delivery.range', A + inrange, z3.Implies(pend != 0, z3.ULT(addr, 0x40000)), vars=dict({'v': v}, **{n: t for n, t in names.items() if n.startswith('icu.')}),
                 sample='with every vector high part within 2 bits, a vectored delivery (software trigger of any set of IRQs, any enable / vector state) latches an address below 0x40000 for the core')
    except (Abort, UnwindBound) as x:
        ck.inconclusive.append('Icu.vector_delivery.range: %s' % str(x)[:100])
    ck.ninstr += ex.ninstr
    return ck.export()


def abort_replayer(E, i):
    def rp(inputs):
        tw = interp._twin_cache.get(E.tree) or interp._twin_cache.setdefault(E.tree, interp.Twin(E))
        regs = {k[2:]: v for k, v in inputs.items() if k.startswith('r.')}
        mem = {}
        k_ = 0
        while 'rd%d.addr' % k_ in inputs:
            mem.setdefault(inputs['rd%d.addr' % k_], inputs['rd%d.val' % k_])
            k_ += 1
        a = tw.run_row(i, inputs['o'], inputs['e'], regs, list(mem.items()))
        # out-of-range indexes / UB do not reliably crash a native run: report what happened, never claim non-reproduction
        return None, {'native': a[0] if a[0] != 'ok' else 'completed (UB/out-of-range index is not observable natively without a sanitizer)'}
    return rp


def inv_replayer(E, i):
    def rp(inputs):
        tw = interp._twin_cache.get(E.tree) or interp._twin_cache.setdefault(E.tree, interp.Twin(E))
        regs = {k[2:]: v for k, v in inputs.items() if k.startswith('r.')}
        mem = {}
        k_ = 0
        while 'rd%d.addr' % k_ in inputs:
            mem.setdefault(inputs['rd%d.addr' % k_], inputs['rd%d.val' % k_])
            k_ += 1
        a = tw.run_row(i, inputs['o'], inputs['e'], regs, list(mem.items()))
        if a[0] != 'ok' or a[1]['unimpl']:
            return False, {'native': 'does not complete normally: %r' % (a[0],)}
        R = {f: z3.BitVecVal(val, t.size()) for (f, t), val in ((ft, a[1]['regs'].get(ft[0], 0)) for ft in E.R().items())}
        bad = [str(c)[:80] for c in regs_inv.inv(R) if not z3.is_true(z3.simplify(c))]
        return bool(bad), {'Inv conjuncts false after the native run': bad[:4], 'pc': a[1]['regs'].get('pc'), 'prpage': a[1]['regs'].get('prpage')}
    return rp


def job_run(tier, seed):
    """the fetch in Run and the pc it leaves behind"""
    E = env()
    ck = core.Check('C18', 'model_checking', tier, seed)
    R = E.R()
    with interp.RunScaffold(E) as sc:
        st = sc.st0.fork()
        sc.force_row = [r for r in E.rows if r['name'] == 'nop'][0]['i']
        pm = st.mem[sc.ctx['pm']].cells[0][1]
        A = inv_full(E) + [R['ie'] == 0]
        # opcode must be the nop for the forced row
        st.pc += A
        s1, n = sc.run(st, 1)
        ck.ninstr += n
        ck.nstates += 1
        fetch = [ev for ev in s1.log if ev[0] == 'P']
        vars_ = c03.vars_of(R)
        A2 = A + [z3.Select(pm, bv(fetch[0][2], 32)) == 0] if fetch else A
        ck.prove('Run.fetch_in_bounds', A2, z3.And(*[z3.Implies(kit.path_cond(ev[1]), z3.ULT(bv(ev[2], 32), 0x40000)) for ev in fetch]), vars=vars_, sample='the instruction fetch address pc | prpage<<18 is below 0x40000')
        ck.prove('Run.indexes', A2, z3.And(kit.obligations(sc.ex), z3.Not(kit.exit_cond(sc.ex, ('ub', 'trap', 'abort')))), vars=vars_, sample='Run loop bookkeeping: bkrep_stack[bcn-1] and friends are indexed in range')
        post = sc.ctx['regs'].snapshot(s1)
        ck.prove('Run.inv_preserved', A2, z3.Implies(z3.Not(kit.exit_cond(sc.ex)), z3.And(*regs_inv.inv(post))), vars=vars_, sample='one cycle of Run with a nop re-establishes Inv (pc stays below 2^18)')
    return ck.export()


def job_dma(tier, seed):
    """DMA engine: the memory indexes of one element move and the channel-window index"""
    from checks import c13
    E = c13.Env()
    ck = core.Check('C18', 'model_checking', tier, seed)
    for mode, dw in (('word', 0), ('dword', 1)):
        ex, st, ctx = E.mk(ch=3)
        V = ctx['V']
        A = [V['src_space'] == 0, V['dst_space'] == 0, (V['dword_mode'] != 0) if dw else (V['dword_mode'] == 0)]
        st.pc += A
        r = ex.call(st, '@dma_tick', [ctx['dma'], 3])
        ck.ninstr += ex.ninstr
        ck.nstates += 1
        ck.prove('Dma.Tick.memory_in_bounds[%s]' % mode, A, z3.And(kit.obligations(ex), z3.Not(kit.exit_cond(ex))), vars={'ch.' + f: V[f] for f in c13.CHF},
                 sample='one DMA element (%s mode) from any channel state: every byte index into the DSP memory array is below 0x80000' % mode)
    # channel window: the setters index channels[active_channel]
    ex, st, ctx = E.mk(ch=0)
    ac = z3.BitVec('active_channel', 16)
    v = z3.BitVec('val', 16)
    ex.store(st, Ptr(ctx['dma'].r, E.dl['active_channel'][0]), 2, ac)
    try:
        st.pc.append(z3.ULT(ac, 8))
        r = ex.call(st, '@dma_setsize0', [ctx['dma'], v])
        ck.prove('Dma.window_index', [z3.ULT(ac, 8)], z3.And(kit.obligations(ex), z3.Not(kit.exit_cond(ex))), vars={'active_channel': ac, 'val': v},
                 sample='with the window index below 8 (the invariant ActivateChannel.range maintains; 0 after construction/Reset) a write through the DMA channel window stays inside the 8-entry array')
    except Abort as x:
        ck.inconclusive.append('Dma.window_index: %s' % x)
    ex, st, ctx = E.mk(ch=0)
    r = ex.call(st, '@dma_activate', [ctx['dma'], v])
    got = bv(ex.load(r[0], Ptr(ctx['dma'].r, E.dl['active_channel'][0]), 2), 16)
    ck.prove('Dma.ActivateChannel.range', [], z3.ULT(got, 8), vars={'val': v}, sample='the channel-select register keeps the window index below 8 (dma.md: CHANNEL is a 3-bit field)')
    ck.ninstr += ex.ninstr
    return ck.export()


def job_mem(tier, seed):
    """MemoryInterface / MemoryInterfaceUnit / SharedMemory: every accessor from an arbitrary MIU state (page mode, x/y/z page,
    region sizes, MMIO base all symbolic) either stops at the deliberate ASSERT of the page registers or indexes the 0x80000-byte
    DSP memory array in bounds (the array region records offset + n <= size for every byte access)"""
    from checks import c11
    E = c11.Env()
    ck = core.Check('C18', 'model_checking', tier, seed)
    a16, a32, v, byp = z3.BitVec('addr16', 16), z3.BitVec('addr32', 32), z3.BitVec('val', 16), z3.Bool('bypass')
    ops = [('DataRead', '@mi_dread', lambda c: [c['mi'], a16, byp], []), ('DataWrite', '@mi_dwrite', lambda c: [c['mi'], a16, v, byp], []),
           ('DataReadA32', '@mi_dreada32', lambda c: [c['mi'], a32], []), ('DataWriteA32', '@mi_dwritea32', lambda c: [c['mi'], a32, v], []),
           ('ProgramRead', '@mi_pread', lambda c: [c['mi'], a32], [z3.ULT(a32, 0x40000)]), ('ProgramWrite', '@mi_pwrite', lambda c: [c['mi'], a32, v], [z3.ULT(a32, 0x40000)])]
    for nm, fn, mk, A in ops:
        ex, st, ctx = E.mk()
        ex.exits, ex.oblig = [], []
        st.pc += A
        try:
            ex.call(st, fn, mk(ctx))
        except Abort as x:
            ck.inconclusive.append('Mem.in_bounds[%s]: %s' % (nm, x))
            continue
        ck.ninstr += ex.ninstr
        ck.nstates += 1
        other = kit.exit_cond(ex, ('abort', 'throw', 'trap', 'ub', 'uaf'))
        vars_ = {'addr16': a16, 'addr32': a32, 'val': v, 'bypass': byp}
        vars_.update({'miu.' + k: t for k, t in ctx['miu'].vars.items()})
        ck.prove('Mem.in_bounds[%s]' % nm, A, z3.And(kit.obligations(ex), z3.Not(other)), vars=vars_,
                 sample='%s from an arbitrary MIU state%s: every byte index into the DSP memory is below 0x80000 unless a page-register ASSERT stops the access first' % (nm, ' (program address below 0x40000: the fetch-side excess is the listed prpage finding)' if A else ''))
    return ck.export()


def job_ahbm(tier, seed):
    """AHBM read path from an arbitrary channel configuration (unit size, burst size, direction: any 16-bit register values,
    including the reserved encodings): Read32 / Read16 never hand back a word of the burst queue that was never written (the
    queue must not be consumed empty) and cause no abort / out-of-bounds index"""
    from checks import c13, c17
    E = c13.Env()
    ck = core.Check('C18', 'model_checking', tier, seed)
    L = E.al
    for unit in (16, 32):
        ex, st = kit.new_exec(E.mod, unwind=200)
        ah = ex.new_region(st, L['_size'][0], 'ahbm')
        ex.call(st, '@ahbm_ctor', [Ptr(ah, 0)])
        cfg = {}
        for f in ('unit_size', 'burst_size', 'direction'):
            off, sz, cnt, stride = L['ch.' + f]
            cfg[f] = z3.BitVec('ahbm.ch1.' + f, 8 * sz)
            ex.store(st, Ptr(ah, off + 1 * stride), sz, cfg[f])
        for f in ('read_external8', 'read_external16', 'read_external32'):
            ex.store(st, Ptr(ah, L[f][0] + 16), 8, Ptr('F', 1))

        def ext(bits):
            def f(e, st_, a):
                k = len([1 for ev in st_.log if ev[0] == 'XR'])
                v = z3.BitVec('mem%d_%d' % (bits, k), bits)
                st_.log.append(('XR', list(st_.pc), bits, a[1], v))
                return st_, v
            return f
        for nme in E.mod.funcs:
            for pat, bits in (('functionIFhjEEclEj', 8), ('functionIFtjEEclEj', 16), ('functionIFjjEEclEj', 32)):
                if nme.endswith(pat):
                    ex.intercepts[nme] = ext(bits)
        addr = z3.BitVec('addr', 32)
        ex.exits, ex.oblig = [], []
        try:
            r = ex.call(st, '@ahbm_read%d' % unit, [Ptr(ah, 0), 1, addr])
        except (Abort, UnwindBound) as x:
            ck.inconclusive.append('Ahbm.Read%d: %s' % (unit, str(x)[:120]))
            continue
        ck.ninstr += ex.ninstr
        ck.nstates += 1
        vars_ = dict(cfg, addr=addr)
        if r is None or r is DEAD:
            ck.prove('Ahbm.Read%d.defined' % unit, [], z3.BoolVal(False), vars=vars_, witness=False)
            continue
        val = bv(r[1], unit)
        gv = c17.garbage_vars(val)
        goal = z3.And(z3.Not(kit.exit_cond(ex)), kit.obligations(ex))
        if gv:
            sub = [(v, z3.BitVec(n + "'", v.size())) for n, v in gv.items()]
            goal = z3.And(goal, val == z3.substitute(val, *sub))
        ck.prove('Ahbm.Read%d.defined' % unit, [], goal, vars=vars_, witness=False,
                 sample='Ahbm::Read%d from any channel configuration (reserved burst / unit encodings included): the value comes from the external-memory callback, never from a queue slot that was not written; no abort, no index out of range' % unit)
    # the AHBM channel a DMA channel is bound to indexes Ahbm::channels (3 entries): in range for every mapping register state
    ex, st = kit.new_exec(E.mod, unwind=200)
    ah = ex.new_region(st, L['_size'][0], 'ahbm')
    ex.call(st, '@ahbm_ctor', [Ptr(ah, 0)])
    regs_ = {}
    off, sz, cnt, stride = L['ch.dma_channel']
    for c_ in range(3):
        regs_['ahbm.ch%d.dma_channel' % c_] = z3.BitVec('ahbm.ch%d.dma_channel' % c_, 8 * sz)
        ex.store(st, Ptr(ah, off + c_ * stride), sz, regs_['ahbm.ch%d.dma_channel' % c_])
    d = z3.BitVec('dma_channel', 16)
    st.pc.append(z3.ULT(d, 8))
    ex.exits, ex.oblig = [], []
    try:
        r = ex.call(st, '@ahbm_chan_for_dma', [Ptr(ah, 0), d])
        ck.prove('Ahbm.GetChannelForDma.range', [z3.ULT(d, 8)], z3.And(z3.ULT(bv(r[1], 16), 3), z3.Not(kit.exit_cond(ex)), kit.obligations(ex)), vars=dict(regs_, dma_channel=d), witness=False,
                 sample='the AHBM channel bound to a DMA channel (whatever the three mapping registers hold, including no mapping at all) is a valid index into the 3-entry channel array')
    except (Abort, UnwindBound) as x:
        ck.inconclusive.append('Ahbm.GetChannelForDma.range: %s' % str(x)[:100])
    return ck.export()


def _dispatch(fn, args):
    return fn(*args)


def run(tier, seed):
    ck = core.Check('C18', 'model_checking', tier, seed)
    E = env()
    n = len(E.rows)
    ck.funcs.update(['MemoryInterface::DataRead/DataWrite/DataReadA32/DataWriteA32/ProgramRead/ProgramWrite, MemoryInterfaceUnit::ConvertDataAddress/InMMIO/ToMMIO, SharedMemory::ReadWord/WriteWord', 'Dma::Channel::Tick', 'Dma::SetSize0 / ActivateChannel (channel window)', 'every Interpreter handler reachable from the %d decode-table rows (through Matcher::call)' % n, 'Interpreter::Run'])
    ck.assumptions += ['pre-state satisfies Inv_full: Inv on the visible registers and on the values the shadow / bank registers take when the real ContextRestore / banke swap them in; Inv_full is re-proved after every row, which extends one step to arbitrary instruction sequences (paper induction)',
                       'data-memory accesses go through MemoryInterface::DataRead/DataWrite with a 16-bit address: Mem.in_bounds decides them (and the A32 / program accessors) for every MIU state; the rows bound the program-space addresses']
    ck.bounds += ['one instruction from an arbitrary state; no value bound']
    import re
    sensitive = re.compile(r'^(br|brr|call|calla|callr|ret|reti|retic|rets|push|pop|pusha|popa|bkrep|break_|rep|cntx|bank|mov_pc|movpdw|movp|movd|mov_prpage|pop_prpage|push_prpage|mov_icr|mov_lc|mov_repc|mov_stepi0|mov_stepj0|load_|alb|mov$|mov_|swap|lim|exp|norm|cbs|tstb|min|max|divs|vtr|trap|eint|dint|nop|bitrev|modr|exchange)')
    rows = list(range(n))
    chg = []
    if tier == 'quick':
        keep = [i for i in rows if sensitive.match(E.rows[i]['name'])]
        rest = [i for i in rows if i not in keep]
        random.Random(seed).shuffle(rest)
        try:
            from checks import c01
            chg = [i for i in c01.changed_rows() if i < n]
        except Exception as x:
            chg = []
            ck.notes.append('closure comparison with the reference tree failed (%s): no targeted rows' % str(x)[:80])
        rows = sorted(set(keep + rest[:60] + chg))
        ck.notes.append('%d rows whose handler IR differs from the pinned reference tree are always included' % len(chg))
        ck.bounds.append('quick tier: %d of %d rows (all control-flow / stack / loop / move / status rows plus a seeded sample of the arithmetic rows); thorough: every row, plus every row again on the UBSan-instrumented IR' % (len(rows), n))
    jobs = [(job_row, (i, False, tier, seed)) for i in rows] + [(job_run, (tier, seed)), (job_dma, (tier, seed)), (job_mem, (tier, seed)), (job_ahbm, (tier, seed))]
    env(True)
    jobs.append((job_kernels_ub, (tier, seed)))
    jobs.append((job_icu_vectors, (tier, seed)))
    if tier == 'thorough':
        jobs += [(job_row, (i, True, tier, seed)) for i in range(n)]
    elif chg:
        # rows whose IR differs from the reference also run on the UBSan-instrumented IR (at most 48 of them in this tier)
        ub_rows = sorted(chg)
        if len(ub_rows) > 48:
            random.Random(seed).shuffle(ub_rows)
            ub_rows = sorted(ub_rows[:48])
            ck.notes.append('UBSan IR: 48 of the %d changed rows (thorough runs all rows)' % len(chg))
        jobs += [(job_row, (i, True, tier, seed)) for i in ub_rows]
    for r in core.pmap(_dispatch, jobs):
        if '__error__' in r:
            ck.engine_errors.append(r['__error__'])
        else:
            ck.absorb(r)
    return ck.finish('bounds / UB / Inv-inductiveness obligations per decode-table row and for the Run scaffold')
