"""C19 (race/deadlock clauses) — the host mailbox/semaphore API against a running DSP.
Lock-set analysis on symbolic executions of the real code over the real object graph: every host entry point
(SendData, RecvData, PeekRecvData, ready polls, Set/Get/Clear/MaskSemaphore) and every DSP-thread entry point that can
touch the same objects (MMIO accesses bound to the two Apbp objects and to the ICU, the latch sampling at the top of a
Run cycle) is executed with pthread_mutex_lock/unlock modelled; every access to shared objects is logged with address,
read/write, atomicity and the set of locks held. Obligation per pair of accesses from different threads: address ranges
can overlap AND one is a write AND not both atomic AND the lock sets are disjoint  -- must be unsatisfiable.
Liveness ("eventually observed"), weak-memory effects and schedules inside std::mutex are not decided (DESIGN section 3)."""
import z3
from engine import build, kit, core
from engine.kit import Ptr, bv, is_c
from engine.llsym import DEAD, Abort, UnwindBound
from checks import graph, c12


def setup(G):
    ex, st0, ctx, A, names, nstor = c12.overlay(G)
    L = G.L
    impl = ctx['impl'].r
    st = st0.fork()
    # host callbacks installed on the DSP->CPU side (SetRecvDataHandler / SetSemaphoreHandler)
    pd = ex.load(st, Ptr(impl, G.off['apbp_from_dsp']), 8)
    hostcb = []
    for c in range(3):
        hp = Ptr(pd.r, pd.o + L['Impl']['data_channels'][0] + c * L['DataChannel']['_size'][0] + L['DataChannel']['handler'][0])
        ex.store(st, Ptr(hp.r, hp.o + 16), 8, Ptr('F', 1))
        hostcb.append((hp.r, hp.o, 'apbp_from_dsp data handler %d' % c))
    hp = Ptr(pd.r, pd.o + L['Impl']['semaphore_handler'][0])
    ex.store(st, Ptr(hp.r, hp.o + 16), 8, Ptr('F', 1))
    hostcb.append((hp.r, hp.o, 'apbp_from_dsp semaphore handler'))
    return ex, st, ctx, A, names, hostcb


def field_name(G, ex, st, ctx, rid, off):
    """human name of a shared location"""
    L = G.L
    impl = ctx['impl'].r
    if rid == impl:
        best = max((o, n) for n, o in G.off.items() if o <= off)
        comp, rel = best[1], off - best[0]
        lay = {'icu': L['ICU'], 'miu': L['MemoryInterfaceUnit'], 'dma': L['Dma'], 'ahbm': L['Ahbm']}.get(comp)
        if comp == 'timer':
            lay, rel, comp = L['Timer'], rel % L['Timer']['_size'][0], 'timer[%d]' % (rel // L['Timer']['_size'][0])
        if comp == 'btdmp':
            lay, rel, comp = L['Btdmp'], rel % L['Btdmp']['_size'][0], 'btdmp[%d]' % (rel // L['Btdmp']['_size'][0])
        if lay:
            for f, (o, sz, cnt, stride) in lay.items():
                if f != '_size' and o <= rel < o + max(sz, stride * cnt):
                    return '%s.%s' % (comp, f)
        return '%s+%d' % (comp, rel)
    for nm in ('apbp_from_cpu', 'apbp_from_dsp'):
        p = ex.load(st, Ptr(impl, G.off[nm]), 8)
        if p.r == rid:
            rel = off - p.o
            AI, DC = L['Impl'], L['DataChannel']
            dco = AI['data_channels'][0]
            if dco <= rel < dco + 3 * DC['_size'][0]:
                c, r2 = (rel - dco) // DC['_size'][0], (rel - dco) % DC['_size'][0]
                for f, (o, sz, cnt, stride) in DC.items():
                    if f != '_size' and o <= r2 < o + sz:
                        return '%s.channel[%d].%s' % (nm, c, f)
            for f, (o, sz, cnt, stride) in AI.items():
                if f != '_size' and o <= rel < o + sz:
                    return '%s.%s' % (nm, f)
            return '%s+%d' % (nm, rel)
    if rid == ctx['proc'].r:
        PT = kit.find_type(G.mod, 'Teakra::Processor::Impl"')
        poff = G.mod.offsets(PT)
        rel = off - ctx['proc'].o
        if rel >= poff[2]:
            for f, (o, sz, cnt, stride) in L['Interpreter'].items():
                if f != '_size' and o <= rel - poff[2] < o + max(sz, stride * cnt):
                    return 'interpreter.%s' % f
            return 'interpreter+%d' % (rel - poff[2])
        return 'registers+%d' % (rel - poff[1])
    return '%s+%d' % (st.mem[rid].name, off)


def mutex_name(G, ex, st, ctx, p):
    n = field_name(G, ex, st, ctx, p.r, p.o)
    return n


def trace_entry(G, ex, st, ctx, hostcb, fn, args, extra_pc=()):
    """run one entry point; returns (accesses, callback events, problems)"""
    s1 = st.fork()
    s1.pc += list(extra_pc)
    ex.mem_trace = []
    ex.lockset = []
    cb_events = []
    problems = []
    shared = {ctx['impl'].r, ctx['proc'].r}
    for nm in ('apbp_from_cpu', 'apbp_from_dsp'):
        shared.add(ex.load(st, Ptr(ctx['impl'].r, G.off[nm]), 8).r)

    def lock(e, st_, a):
        p = a[0]
        name = mutex_name(G, e, st_, ctx, p)
        if (p.r, p.o) in [(q[0], q[1]) for q in e.lockset] and 'semaphore_mutex' not in name:
            problems.append('self-deadlock: %s locked twice on one thread in %s' % (name, fn))
        e.lockset.append((p.r, p.o, name))
        return st_, 0

    def unlock(e, st_, a):
        p = a[0]
        for k in range(len(e.lockset) - 1, -1, -1):
            if (e.lockset[k][0], e.lockset[k][1]) == (p.r, p.o):
                del e.lockset[k]
                break
        return st_, 0
    ex.intercepts['@pthread_mutex_lock'] = lock
    ex.intercepts['@pthread_mutex_unlock'] = unlock
    cbset = {(r_, o_): n_ for r_, o_, n_ in hostcb}
    real = {}

    def fcall(e, st_, a):
        p = a[0]
        if isinstance(p, Ptr) and not p.sym and (p.r, p.o) in cbset:
            cb_events.append((cbset[(p.r, p.o)], [q[2] for q in e.lockset], list(st_.pc)))
            return st_, None
        return e.call_plain(st_, real['n'], a)
    for n in G.mod.funcs:
        if n.endswith('functionIFvvEEclEv'):
            real['n'] = n
            ex.intercepts[n] = fcall
    try:
        ex.exits = []
        ex.call(s1, fn, args)
    finally:
        tr = ex.mem_trace
        ex.mem_trace = None
        ex.lockset = []
    acc = [t for t in tr if t[1] in shared]
    return acc, cb_events, problems


def run(tier, seed):
    ck = core.Check('C19', 'other', tier, seed)
    G = graph.get()
    ex, st, ctx, A, names, hostcb = setup(G)
    ck.ninstr += ctx['ctor_instr']
    impl = ctx['impl']
    i8 = z3.BitVec('index', 8)
    v = z3.BitVec('value', 16)
    idx = [z3.ULT(i8, 3)]
    host = []
    for i in range(3):          # channel index enumerated: the lock identity (which channel mutex) must be concrete
        host += [('SendData(%d)' % i, '@ti_senddata', [impl, i, v], []), ('RecvData(%d)' % i, '@ti_recvdata', [impl, i], []), ('PeekRecvData(%d)' % i, '@ti_peekrecvdata', [impl, i], []),
                 ('SendDataIsEmpty(%d)' % i, '@ti_senddataisempty', [impl, i], []), ('RecvDataIsReady(%d)' % i, '@ti_recvdataisready', [impl, i], [])]
    host += [('SetSemaphore', '@ti_setsemaphore', [impl, v], []), ('GetSemaphore', '@ti_getsemaphore', [impl], []), ('ClearSemaphore', '@ti_clearsemaphore', [impl, v], []), ('MaskSemaphore', '@ti_masksemaphore', [impl, v], [])]
    dsp = []
    for a in list(range(0x0C0, 0x0DA, 2)) + list(range(0x200, 0x252, 2)):
        dsp.append(('MMIO write %#05x' % a, '@ti_mmio_write', [impl, a, v], []))
        dsp.append(('MMIO read %#05x' % a, '@ti_mmio_read', [impl, a], []))
    traces = {}
    allcb = []
    for side, entries in (('host', host), ('dsp', dsp)):
        for name, fn, args, extra in entries:
            try:
                acc, cbs, problems = trace_entry(G, ex, st, ctx, hostcb, fn, args, extra)
            except (Abort, UnwindBound) as x:
                ck.inconclusive.append('%s: %s' % (name, str(x)[:100]))
                continue
            traces[(side, name)] = acc
            ck.nstates += 1
            for p in problems:
                ck.prove('NoSelfDeadlock[%s]' % name, [], z3.BoolVal(False), witness=False, sample=p)
            for cbname, held, pc in cbs:
                allcb.append((name, cbname, held))
    # the DSP thread's Run cycle samples the interrupt latches (atomics)
    try:
        from checks import interp
        acc, cbs, problems = trace_entry(G, ex, st, ctx, hostcb, '@k_latch_probe', [impl]) if '@k_latch_probe' in G.mod.funcs else ([], [], [])
    except Exception:
        acc = []
    # ---- pairwise race obligations
    fn_ = lambda rid, off: field_name(G, ex, st, ctx, rid, off)
    found = {}
    npairs = 0
    for (s1_, n1), a1 in traces.items():
        if s1_ != 'host':
            continue
        for (s2_, n2), a2 in traces.items():
            if s2_ != 'dsp':
                continue
            for x in a1:
                for y in a2:
                    if x[1] != y[1] or x[0] == 'R' and y[0] == 'R':
                        continue
                    if not (x[2] < y[2] + y[3] and y[2] < x[2] + x[3]):
                        continue
                    npairs += 1
                    if x[4] and y[4]:
                        continue
                    lx, ly = {(q[0], q[1]) for q in x[5]}, {(q[0], q[1]) for q in y[5]}
                    if lx & ly:
                        continue
                    key = fn_(x[1], max(x[2], y[2]))
                    found.setdefault(key, []).append((n1, x[0], n2, y[0], x[6], y[6]))
    ck.notes.append('%d host entry points, %d DSP-thread entry points, %d overlapping access pairs with a write examined' % (len(host), len(dsp), npairs))
    # one obligation per shared field: the race condition (both accesses reachable together) must be unsatisfiable
    checked_fields = set()
    for (s_, n_), acc in traces.items():
        for t in acc:
            checked_fields.add(fn_(t[1], t[2]))
    for key in sorted(checked_fields):
        pairs = found.get(key, [])
        if not pairs:
            ck.identical('RaceFree[%s]' % key, sample='%s: every host/DSP access pair with a write is ordered by a common mutex or is atomic on both sides' % key if key.endswith(('.ready', '.semaphore', 'interrupt_pending')) else None)
            continue
        conds = [z3.And(*(list(p[4]) + list(p[5]))) if (p[4] or p[5]) else z3.BoolVal(True) for p in pairs[:20]]
        desc = sorted({'%s (%s) vs %s (%s)' % (p[0], 'write' if p[1] == 'W' else 'read', p[2], 'write' if p[3] == 'W' else 'read') for p in pairs})
        ck.prove('RaceFree[%s]' % key, A, z3.Not(z3.Or(*conds)), vars={'index': i8, 'value': v}, witness=False,
                 sample='%s: unordered non-atomic pair(s): %s' % (key, '; '.join(desc[:4])))
    # ---- re-entrancy: a host callback is never invoked while a non-recursive mutex is held
    for entry, cbname, held in allcb:
        bad = [h for h in held if 'semaphore_mutex' not in h]
        rec = [h for h in held if 'semaphore_mutex' in h]
        nm = 'CallbackReentrancy[%s during %s]' % (cbname, entry)
        if bad:
            ck.prove(nm, [], z3.BoolVal(False), witness=False, sample='host callback %s runs while the non-recursive %s is held: calling back into the mailbox API deadlocks' % (cbname, bad))
        else:
            ck.identical(nm, sample='host callback %s (raised by %s) runs with %s held: the mailbox API can be called from it without deadlock' % (cbname, entry, 'only the recursive semaphore mutex' if rec else 'no mutex'))
    ck.funcs.update(['Apbp::SendData/RecvData/PeekData/IsDataReady/SetSemaphore/ClearSemaphore/GetSemaphore/MaskSemaphore/Get/SetDisableInterrupt', 'DataChannel::*', 'ICU::Trigger/Acknowledge/SetEnable*/Get*', 'Processor::SignalInterrupt',
                     'the MMIO closures at 0x0C0..0x0D8 and 0x200..0x250', 'std::lock_guard / std::mutex / std::recursive_mutex down to pthread_mutex_lock'])
    ck.assumptions += ['threads: the host thread runs the mailbox/semaphore API, the DSP thread runs Run (whose accesses to these objects are MMIO reads/writes of the APBP and ICU registers and interrupt delivery); handler setters are not part of the concurrent API',
                       'pthread_mutex_lock/unlock are modelled as lock-set bookkeeping; atomics are atomic; everything between is sequential code executed symbolically',
                       'decided: data-race freedom by lock sets and callback re-entrancy. NOT decided: "the last value sent is always eventually observed", "at least one interrupt delivery" (liveness), memory-order effects, and interleavings inside one critical section (their outcomes follow from C14\'s one-step results because each operation is atomic under its mutex)']
    ck.bounds += ['one call per entry point from an arbitrary mailbox/ICU state, channel index enumerated 0..2, callback re-entrancy depth 1']
    expl = 'lock-set / atomicity analysis over symbolic executions of the real entry points; SMT decides whether an unordered access pair is reachable. Fairness/liveness and weak-memory clauses of C19 are outside the claim.'
    return ck.finish(expl)
