"""C19 (race/deadlock clauses) — the host mailbox/semaphore API against a running DSP.
Lock-set analysis on symbolic executions of the real code over the real object graph: every host entry point
(SendData, RecvData, PeekRecvData, ready polls, Set/Get/Clear/MaskSemaphore) and every DSP-thread entry point that can
touch the same objects (MMIO accesses bound to the two Apbp objects and to the ICU, the latch sampling at the top of a
Run cycle) is executed with pthread_mutex_lock/unlock modelled; every access to shared objects is logged with address,
read/write, atomicity and the set of locks held. Obligation per pair of accesses from different threads: address ranges
can overlap AND one is a write AND not both atomic AND the lock sets are disjoint  -- must be unsatisfiable.
Atomicity: operations whose critical sections can be separated by an operation of the other thread are executed in that
schedule (the other operation runs from inside the pthread_mutex_lock intercept) and compared with both sequential orders;
counterexamples are replayed on the real library with the same schedule (harness pthread_mutex_lock hook).
Liveness ("eventually observed"), weak-memory effects and schedules inside std::mutex are not decided (DESIGN section 3)."""
import random
import z3
from engine import build, kit, core
from engine.kit import Ptr, bv, is_c
from engine.llsym import DEAD, Abort, UnwindBound
from checks import graph, c12


def setup(G):
    ex, st0, ctx, A, names, nstor = c12.overlay(G)
    L = G.L
    impl = ctx['impl'].r
    st = st0.fork()
    # host callbacks installed on the DSP->CPU side (SetRecvDataHandler / SetSemaphoreHandler)
    pd = ex.load(st, Ptr(impl, G.off['apbp_from_dsp']), 8)
    hostcb = []
    for c in range(3):
        hp = Ptr(pd.r, pd.o + L['Impl']['data_channels'][0] + c * L['DataChannel']['_size'][0] + L['DataChannel']['handler'][0])
        ex.store(st, Ptr(hp.r, hp.o + 16), 8, Ptr('F', 1))
        hostcb.append((hp.r, hp.o, 'apbp_from_dsp data handler %d' % c))
    hp = Ptr(pd.r, pd.o + L['Impl']['semaphore_handler'][0])
    ex.store(st, Ptr(hp.r, hp.o + 16), 8, Ptr('F', 1))
    hostcb.append((hp.r, hp.o, 'apbp_from_dsp semaphore handler'))
    return ex, st, ctx, A, names, hostcb


def field_name(G, ex, st, ctx, rid, off):
    """human name of a shared location"""
    L = G.L
    impl = ctx['impl'].r
    if rid == impl:
        best = max((o, n) for n, o in G.off.items() if o <= off)
        comp, rel = best[1], off - best[0]
        lay = {'icu': L['ICU'], 'miu': L['MemoryInterfaceUnit'], 'dma': L['Dma'], 'ahbm': L['Ahbm']}.get(comp)
        if comp == 'timer':
            lay, rel, comp = L['Timer'], rel % L['Timer']['_size'][0], 'timer[%d]' % (rel // L['Timer']['_size'][0])
        if comp == 'btdmp':
            lay, rel, comp = L['Btdmp'], rel % L['Btdmp']['_size'][0], 'btdmp[%d]' % (rel // L['Btdmp']['_size'][0])
        if lay:
            for f, (o, sz, cnt, stride) in lay.items():
                if f != '_size' and o <= rel < o + max(sz, stride * cnt):
                    return '%s.%s' % (comp, f)
        return '%s+%d' % (comp, rel)
    for nm in ('apbp_from_cpu', 'apbp_from_dsp'):
        p = ex.load(st, Ptr(impl, G.off[nm]), 8)
        if p.r == rid:
            rel = off - p.o
            AI, DC = L['Impl'], L['DataChannel']
            dco = AI['data_channels'][0]
            if dco <= rel < dco + 3 * DC['_size'][0]:
                c, r2 = (rel - dco) // DC['_size'][0], (rel - dco) % DC['_size'][0]
                for f, (o, sz, cnt, stride) in DC.items():
                    if f != '_size' and o <= r2 < o + sz:
                        return '%s.channel[%d].%s' % (nm, c, f)
            for f, (o, sz, cnt, stride) in AI.items():
                if f != '_size' and o <= rel < o + sz:
                    return '%s.%s' % (nm, f)
            return '%s+%d' % (nm, rel)
    if rid == ctx['proc'].r:
        PT = kit.find_type(G.mod, 'Teakra::Processor::Impl"')
        poff = G.mod.offsets(PT)
        rel = off - ctx['proc'].o
        if rel >= poff[2]:
            for f, (o, sz, cnt, stride) in L['Interpreter'].items():
                if f != '_size' and o <= rel - poff[2] < o + max(sz, stride * cnt):
                    return 'interpreter.%s' % f
            return 'interpreter+%d' % (rel - poff[2])
        return 'registers+%d' % (rel - poff[1])
    return '%s+%d' % (st.mem[rid].name, off)


def mutex_name(G, ex, st, ctx, p):
    n = field_name(G, ex, st, ctx, p.r, p.o)
    return n


_ACQ = {}


def trace_entry(G, ex, st, ctx, hostcb, fn, args, extra_pc=()):
    """run one entry point; returns (accesses, callback events, problems)"""
    s1 = st.fork()
    s1.pc += list(extra_pc)
    ex.mem_trace = []
    ex.lockset = []
    cb_events = []
    problems = []
    acq = []
    shared = {ctx['impl'].r, ctx['proc'].r}
    for nm in ('apbp_from_cpu', 'apbp_from_dsp'):
        shared.add(ex.load(st, Ptr(ctx['impl'].r, G.off[nm]), 8).r)

    def lock(e, st_, a):
        p = a[0]
        name = mutex_name(G, e, st_, ctx, p)
        if (p.r, p.o) in [(q[0], q[1]) for q in e.lockset] and 'semaphore_mutex' not in name:
            problems.append('self-deadlock: %s locked twice on one thread in %s' % (name, fn))
        acq.append(((p.r, p.o), name, [(q[0], q[1]) for q in e.lockset]))
        e.lockset.append((p.r, p.o, name))
        return st_, 0

    def unlock(e, st_, a):
        p = a[0]
        for k in range(len(e.lockset) - 1, -1, -1):
            if (e.lockset[k][0], e.lockset[k][1]) == (p.r, p.o):
                del e.lockset[k]
                break
        return st_, 0
    ex.intercepts['@pthread_mutex_lock'] = lock
    ex.intercepts['@pthread_mutex_unlock'] = unlock
    cbset = {(r_, o_): n_ for r_, o_, n_ in hostcb}
    real = {}

    def fcall(e, st_, a):
        p = a[0]
        if isinstance(p, Ptr) and not p.sym and (p.r, p.o) in cbset:
            cb_events.append((cbset[(p.r, p.o)], [q[2] for q in e.lockset], list(st_.pc)))
            return st_, None
        return e.call_plain(st_, real['n'], a)
    for n in G.mod.funcs:
        if n.endswith('functionIFvvEEclEv'):
            real['n'] = n
            ex.intercepts[n] = fcall
    try:
        ex.exits = []
        ex.call(s1, fn, args)
    finally:
        tr = ex.mem_trace
        ex.mem_trace = None
        ex.lockset = []
    acc = [t for t in tr if t[1] in shared]
    _ACQ[fn, tuple(str(a) for a in args)] = acq
    return acc, cb_events, problems


# ------------------------------------------------------------------------------------------------ atomicity / linearizability
def shared_regions(G, ex, st, ctx):
    sh = {ctx['impl'].r, ctx['proc'].r}
    for nm in ('apbp_from_cpu', 'apbp_from_dsp'):
        sh.add(ex.load(st, Ptr(ctx['impl'].r, G.off[nm]), 8).r)
    return sh


def ret64(r):
    if r is None:
        return 0
    if z3.is_bool(r):
        return z3.If(r, z3.BitVecVal(1, 64), z3.BitVecVal(0, 64))
    if z3.is_expr(r):
        return z3.ZeroExt(64 - r.size(), r) if r.size() < 64 else r
    return int(r)


def lin_run(G, ex, st, ctx, hostcb, ops, inter=None):
    """run the operations `ops` = [(tag, fn, args)] one after the other on a fork of st; inter = (k, (tag, fn, args)): the
    other thread's operation runs, as one atomic step, when the first operation reaches its k-th mutex acquisition (it is
    not holding the mutex yet; a schedule in which the other thread wins the race for it). Returns the outcome."""
    s1 = st.fork()
    lin = ex.new_region(s1, 16, 'lin')
    ex.fill(s1, Ptr(lin, 0), 16, 0)
    cbs = []
    state = {'depth': 0}
    ex.mem_trace = []
    ex.lockset = []

    def lock(e, st_, a):
        p = a[0]
        if state['depth'] == 0:
            n = e.load(st_, Ptr(lin, 0), 4)
            if not is_c(n):
                raise Abort('path-dependent lock count')
            if inter is not None and n == inter[0]:
                state['depth'] = 1
                saved, e.lockset = e.lockset, []
                state['held'] = [(q[0], q[1]) for q in saved]
                r = e.call(st_, inter[1][1], inter[1][2])
                e.lockset = saved
                state['depth'] = 0
                if r is None or r is DEAD:
                    raise Abort('interleaved operation does not return')
                st_ = r[0]
                e.store(st_, Ptr(lin, 4), 4, 1)
                e.store(st_, Ptr(lin, 8), 8, ret64(r[1]))
            e.store(st_, Ptr(lin, 0), 4, n + 1)
        e.lockset.append((p.r, p.o, ''))
        return st_, 0

    def unlock(e, st_, a):
        p = a[0]
        for k in range(len(e.lockset) - 1, -1, -1):
            if (e.lockset[k][0], e.lockset[k][1]) == (p.r, p.o):
                del e.lockset[k]
                break
        return st_, 0
    ex.intercepts['@pthread_mutex_lock'] = lock
    ex.intercepts['@pthread_mutex_unlock'] = unlock
    cbset = {(r_, o_): n_ for r_, o_, n_ in hostcb}
    real = {}

    def fcall(e, st_, a):
        p = a[0]
        if isinstance(p, Ptr) and not p.sym and (p.r, p.o) in cbset:
            cbs.append((cbset[(p.r, p.o)], z3.And(*st_.pc) if st_.pc else z3.BoolVal(True)))
            return st_, None
        return e.call_plain(st_, real['n'], a)
    for n in G.mod.funcs:
        if n.endswith('functionIFvvEEclEv'):
            real['n'] = n
            ex.intercepts[n] = fcall
    rets = {}
    cur = s1
    try:
        ex.exits = []
        for tag, fn, args in ops:
            ex.store(cur, Ptr(lin, 0), 4, 0)
            r = ex.call(cur, fn, args)
            if r is None or r is DEAD:
                raise Abort('%s does not return' % tag)
            cur = r[0]
            rets[tag] = r[1]
        if inter is not None:
            fired = ex.load(cur, Ptr(lin, 4), 4)
            rets[inter[1][0]] = ex.load(cur, Ptr(lin, 8), 8)
    finally:
        tr = ex.mem_trace
        ex.mem_trace = None
        ex.lockset = []
    sh = shared_regions(G, ex, st, ctx)
    writes = {(t[1], t[2], t[3]) for t in tr if t[0] == 'W' and t[1] in sh and is_c(t[2])}
    return {'st': cur, 'rets': rets, 'writes': writes, 'cbs': cbs, 'exits': list(ex.exits), 'held': state.get('held', []), 'fired': fired if inter is not None else None}


def same_outcome(ex, x, y, locs, tags):
    c = []
    for t in tags:
        a, b = x['rets'].get(t), y['rets'].get(t)
        if a is None and b is None:
            continue
        if isinstance(a, Ptr) or isinstance(b, Ptr):
            c.append(z3.BoolVal(isinstance(a, Ptr) and isinstance(b, Ptr) and not a.sym and not b.sym and (a.r, a.o) == (b.r, b.o)))
            continue
        a, b = bv(ret64(a), 64), bv(ret64(b), 64)
        c.append(z3.Extract(15, 0, a) == z3.Extract(15, 0, b))
    for rid, off, n in sorted(locs, key=str):
        va, vb = ex.load(x['st'], Ptr(rid, off), n), ex.load(y['st'], Ptr(rid, off), n)
        if isinstance(va, Ptr) or isinstance(vb, Ptr):
            if not (isinstance(va, Ptr) and isinstance(vb, Ptr) and (va.r, va.o) == (vb.r, vb.o)):
                c.append(z3.BoolVal(False))
            continue
        if is_c(va) and is_c(vb):
            if va != vb:
                c.append(z3.BoolVal(False))
            continue
        va, vb = bv(va, 8 * n), bv(vb, 8 * n)
        if not va.eq(vb):
            c.append(va == vb)
    names = sorted({n for n, g in x['cbs']} | {n for n, g in y['cbs']})
    for nm in names:
        cnt = lambda o: z3.Sum([z3.If(g, z3.BitVecVal(1, 8), z3.BitVecVal(0, 8)) for n, g in o['cbs'] if n == nm] + [z3.BitVecVal(0, 8)])
        c.append(cnt(x) == cnt(y))
    return z3.And(*c) if c else z3.BoolVal(True)


def delivery_obligations(ck, G, ex, st, ctx, Aov, names, hostcb):
    """"Every send with interrupts enabled is followed by at least one interrupt delivery to the other side": one send from an
    arbitrary mailbox / semaphore / ICU state; host->DSP delivery = IRQ 0xE recorded in the ICU request word and latched on
    every core line (and the vectored line) it is enabled for; DSP->host delivery = the host callback is invoked."""
    L = G.L
    impl = ctx['impl']
    v = LV['a']
    PT = kit.find_type(G.mod, 'Teakra::Processor::Impl"')
    poff = G.mod.offsets(PT)
    pr = ctx['proc']
    IL = L['Interpreter']
    for i in range(4):
        if i < 3:
            nm, op, cond = 'SendData(%d)' % i, ('a', '@tf_senddata', [impl, i, v]), names['apbp_from_cpu.ch%d.disable' % i] == 0
        else:
            nm, op, cond = 'SetSemaphore', ('a', '@tf_setsemaphore', [impl, v]), (v & ~names['apbp_from_cpu.mask']) != 0
        try:
            r = lin_run(G, ex, st, ctx, hostcb, [op])
        except (Abort, UnwindBound) as x:
            ck.inconclusive.append('Delivery[%s]: %s' % (nm, str(x)[:100]))
            continue
        s1 = r['st']
        req = bv(ex.load(s1, Ptr(impl.r, G.off['icu'] + L['ICU']['request'][0]), 2), 16)
        g = [z3.Extract(14, 14, req) == 1]
        off, sz, cnt, stride = IL['interrupt_pending']
        for k in range(3):
            latch = bv(ex.load(s1, Ptr(pr.r, pr.o + poff[2] + off + k * stride), 1), 8)
            g.append(z3.Implies(z3.Extract(14, 14, names['icu.enabled[%d]' % k]) == 1, latch != 0))
        vl = bv(ex.load(s1, Ptr(pr.r, pr.o + poff[2] + IL['vinterrupt_pending'][0]), 1), 8)
        g.append(z3.Implies(z3.Extract(14, 14, names['icu.vectored_enabled']) == 1, vl != 0))
        ck.nstates += 1
        ck.prove('Delivery[%s]' % nm, Aov + [cond], z3.And(*g), vars=dict({'value': v}, **{n: t for n, t in names.items() if n.startswith(('apbp_from_cpu', 'icu.enabled', 'icu.request', 'icu.vectored_enabled'))}),
                 sample='%s with its interrupt enabled (%s): IRQ 0xE is recorded in the ICU request word and latched on every core line / the vectored line it is enabled for, whatever the mailbox, semaphore and ICU state was before' % (nm, 'channel interrupt not disabled' if i < 3 else 'an unmasked bit among the bits set'))
    v2 = LV['b']
    for i in range(4):
        if i < 3:
            nm, op, cond, cb = 'MMIO write %#05x (reply %d)' % (0xC0 + 4 * i, i), ('b', '@ti_mmio_write', [impl, 0xC0 + 4 * i, v2]), names['apbp_from_dsp.ch%d.disable' % i] == 0, 'apbp_from_dsp data handler %d' % i
        else:
            nm, op, cond, cb = 'MMIO write 0x0cc (set semaphore)', ('b', '@ti_mmio_write', [impl, 0xCC, v2]), (v2 & ~names['apbp_from_dsp.mask']) != 0, 'apbp_from_dsp semaphore handler'
        try:
            r = lin_run(G, ex, st, ctx, hostcb, [op])
        except (Abort, UnwindBound) as x:
            ck.inconclusive.append('Delivery[%s]: %s' % (nm, str(x)[:100]))
            continue
        fired = z3.Or(*[g_ for n_, g_ in r['cbs'] if n_ == cb]) if any(n_ == cb for n_, g_ in r['cbs']) else z3.BoolVal(False)
        ck.nstates += 1
        ck.prove('Delivery[%s]' % nm, Aov + [cond], fired, vars=dict({'value2': v2}, **{n: t for n, t in names.items() if n.startswith('apbp_from_dsp')}),
                 sample='DSP %s with its interrupt enabled: the host callback is invoked, whatever the mailbox / semaphore state was before' % nm)


def unmask_delivery(ck, G, ex, st, ctx, Aov, names, hostcb):
    """a semaphore sent while the receiver had it masked is not lost: when the receiver changes its mask so that a pending bit
    becomes unmasked (summary flag rising), the interrupt it was holding off is delivered then - the DSP's write to 0x0CE raises
    IRQ 0xE in the ICU request word, the host's MaskSemaphore invokes the host callback."""
    L = G.L
    impl = ctx['impl']
    v, v2 = LV['a'], LV['b']
    for nm, op, side, val in (('MMIO write 0x0ce (DSP unmasks)', ('b', '@ti_mmio_write', [impl, 0xCE, v2]), 'apbp_from_cpu', v2), ('MaskSemaphore (host unmasks)', ('a', '@tf_masksemaphore', [impl, v]), 'apbp_from_dsp', v)):
        cond = [names[side + '.signal'] == 0, (names[side + '.semaphore'] & ~val) != 0]
        try:
            r = lin_run(G, ex, st, ctx, hostcb, [op])
        except (Abort, UnwindBound) as x:
            ck.inconclusive.append('Delivery[%s]: %s' % (nm, str(x)[:100]))
            continue
        ck.nstates += 1
        if side == 'apbp_from_cpu':
            req = bv(ex.load(r['st'], Ptr(impl.r, G.off['icu'] + L['ICU']['request'][0]), 2), 16)
            goal = z3.Extract(14, 14, req) == 1
        else:
            cb = 'apbp_from_dsp semaphore handler'
            goal = z3.Or(*[g_ for n_, g_ in r['cbs'] if n_ == cb]) if any(n_ == cb for n_, g_ in r['cbs']) else z3.BoolVal(False)
        ck.prove('Delivery[%s]' % nm, Aov + cond, goal, vars=dict({'value': v, 'value2': v2}, **{n: t for n, t in names.items() if n.startswith((side, 'icu.request'))}),
                 sample='%s while a semaphore bit sent earlier is pending behind the mask: the held-off interrupt is delivered (IRQ 0xE recorded / host callback invoked)' % nm)


def interleave_points(acqA, acqB):
    """indices k >= 1 of A's acquisitions at which B can run: B needs the mutex A is about to take and none A holds"""
    needB = {a[0] for a in acqB}
    return [k for k, (m, name, held) in enumerate(acqA) if k >= 1 and m in needB and not (set(held) & needB)]


def lin_job(pairs, tier, seed):
    ck = core.Check('C19', 'other', tier, seed)
    G = graph.get()
    ex, st, ctx, Aov, names, hostcb = setup(G)
    # locations whose never-initialised content was materialised in *this* job's common ancestor state (setup() forks a new
    # ancestor per job: the set must not outlive it, or a worker process that serves two jobs compares runs with different garbage)
    _PINNED = set()
    for (A, B, k) in pairs:
        nm = 'Linearizable[%s || %s @%d]' % (A[0], B[0], k)
        try:
            n0 = ex.ninstr
            for attempt in range(3):
                inter = lin_run(G, ex, st, ctx, hostcb, [A], (k, B))
                ab = lin_run(G, ex, st, ctx, hostcb, [A, B])
                ba = lin_run(G, ex, st, ctx, hostcb, [B, A])
                locs = inter['writes'] | ab['writes'] | ba['writes']
                # never-initialised bytes read as a fresh variable per state: give the three schedules the same initial
                # garbage by materialising it in the common ancestor, then run again
                fresh = locs - _PINNED
                if not fresh:
                    break
                for rid, off, n_ in fresh:
                    ex.load(st, Ptr(rid, off), n_)
                _PINNED.update(fresh)
            ck.ninstr += ex.ninstr - n0
            ck.nstates += 3
        except (Abort, UnwindBound) as x:
            ck.inconclusive.append('%s: %s' % (nm, str(x)[:100]))
            continue
        tags = (A[0], B[0])
        goal = z3.Or(same_outcome(ex, inter, ab, locs, tags), same_outcome(ex, inter, ba, locs, tags))
        fired = inter['fired']
        if is_c(fired) and fired == 0:
            ck.identical(nm)
            continue
        reached = [bv(fired, 32) == 1]      # paths of the first operation that do not reach this acquisition are plain sequential runs
        vars_ = {'value': LV['a'], 'value2': LV['b']}
        vars_.update({n: t for n, t in names.items() if n.startswith(('apbp', 'icu.'))})
        ck.prove(nm, Aov + reached, goal, vars=vars_, witness=True, replay=lin_replay(G, A, B, k),
                 sample='%s with %s placed between its critical sections (before mutex acquisition %d): return values, final mailbox/ICU/latch state and host callback counts equal one of the two sequential orders' % (A[0], B[0], k))
    return ck.export()


SIG = {'@tf_senddata': (None, 'u8', 'u16'), '@tf_recvdata': ('u16', 'u8'), '@tf_peekrecvdata': ('u16', 'u8'), '@tf_senddataisempty': ('u8', 'u8'), '@tf_recvdataisready': ('u8', 'u8'),
       '@tf_setsemaphore': (None, 'u16'), '@tf_getsemaphore': ('u16',), '@tf_clearsemaphore': (None, 'u16'), '@tf_masksemaphore': (None, 'u16'),
       '@ti_senddata': (None, 'u8', 'u16'), '@ti_recvdata': ('u16', 'u8'), '@ti_peekrecvdata': ('u16', 'u8'), '@ti_senddataisempty': ('u8', 'u8'), '@ti_recvdataisready': ('u8', 'u8'),
       '@ti_setsemaphore': (None, 'u16'), '@ti_getsemaphore': ('u16',), '@ti_clearsemaphore': (None, 'u16'), '@ti_masksemaphore': (None, 'u16'), '@ti_mmio_write': (None, 'u16', 'u16'), '@ti_mmio_read': ('u16', 'u16')}


def lin_replay(G, A, B, k):
    """native schedule replay: the real library, B run from inside A's k-th pthread_mutex_lock (harness hook)"""
    import ctypes
    from engine import native
    CT = {'u8': ctypes.c_uint8, 'u16': ctypes.c_uint16, None: None}

    def rep(inputs):
        tw = native.Twin(build.compile_so('h_teakra.cpp'))
        locs = c12.field_locations(G)
        ex, st, ctx = G.build_impl()
        impl = ctx['impl'].r
        heap = {}
        for nm in ('apbp_from_cpu', 'apbp_from_dsp'):
            p_ = ex.load(st, Ptr(impl, G.off[nm]), 8)
            heap[p_.r] = (nm, p_.o)

        def argv(a):
            if is_c(a):
                return a
            return int(inputs.get(str(a), 0))

        def schedule(kind):
            def body():
                t = tw.fn('tn_new', ctypes.c_void_p, [])()
                for name, (rid, off, sz) in locs.items():
                    if name not in inputs:
                        continue
                    if rid == impl:
                        addr = t + off
                    elif rid in heap:
                        base = int.from_bytes(ctypes.string_at(t + G.off[heap[rid][0]], 8), 'little')
                        addr = base + off - heap[rid][1]
                    else:
                        continue
                    ctypes.memmove(addr, int(inputs[name]).to_bytes(sz, 'little'), sz)

                def call(op):
                    sig = SIG[op[1]]
                    f = tw.fn(op[1][1:], CT[sig[0]], [ctypes.c_void_p] + [CT[x] for x in sig[1:]])
                    r_ = f(t, *[argv(a) for a in op[2][1:]])
                    return int(r_) if r_ is not None else None
                out = {}
                if kind == 'inter':
                    HK = ctypes.CFUNCTYPE(None)
                    hk = HK(lambda: out.__setitem__(B[0], call(B)))
                    tw.fn('tn_set_hook', None, [ctypes.c_int, HK])(k, hk)
                    out[A[0]] = call(A)
                    if tw.fn('tn_hook_pending', ctypes.c_int, [])():
                        return None
                else:
                    for op in ((A, B) if kind == 'ab' else (B, A)):
                        out[op[0]] = call(op)
                fin = {}
                for name, (rid, off, sz) in locs.items():
                    if rid == impl and name.startswith('icu.'):
                        addr = t + off
                    elif rid in heap:
                        base = int.from_bytes(ctypes.string_at(t + G.off[heap[rid][0]], 8), 'little')
                        addr = base + off - heap[rid][1]
                    else:
                        continue
                    fin[name] = int.from_bytes(ctypes.string_at(addr, sz), 'little')
                return {'rets': out, 'final': fin}
            return native.in_child(body, timeout=120)
        res = {kk: schedule(kk) for kk in ('inter', 'ab', 'ba')}
        if any(v[0] != 'ok' or v[1] is None for v in res.values()):
            return False, {'native': {kk: (v[0], None if v[0] == 'ok' else v[1]) for kk, v in res.items()}}
        i_, ab, ba = res['inter'][1], res['ab'][1], res['ba'][1]
        diff = lambda x, y: sorted([kk for kk in x['final'] if x['final'][kk] != y['final'][kk]] + ['ret ' + kk for kk in x['rets'] if x['rets'][kk] != y['rets'].get(kk)])
        d1, d2 = diff(i_, ab), diff(i_, ba)
        return bool(d1 and d2), {'interleaved': i_['rets'], 'vs %s;%s differs in' % (A[0], B[0]): d1[:8], 'vs %s;%s differs in' % (B[0], A[0]): d2[:8]}
    return rep


LV = {'a': z3.BitVec('value', 16), 'b': z3.BitVec('value2', 16)}


_PAIRS = []


def _lin_dispatch(idx, tier, seed):
    return lin_job([_PAIRS[i] for i in idx], tier, seed)


def run(tier, seed):
    ck = core.Check('C19', 'other', tier, seed)
    G = graph.get()
    ex, st, ctx, A, names, hostcb = setup(G)
    ck.ninstr += ctx['ctor_instr']
    impl = ctx['impl']
    i8 = z3.BitVec('index', 8)
    v = z3.BitVec('value', 16)
    idx = [z3.ULT(i8, 3)]
    host = []
    for i in range(3):          # channel index enumerated: the lock identity (which channel mutex) must be concrete
        host += [('SendData(%d)' % i, '@tf_senddata', [impl, i, v], []), ('RecvData(%d)' % i, '@tf_recvdata', [impl, i], []), ('PeekRecvData(%d)' % i, '@tf_peekrecvdata', [impl, i], []),
                 ('SendDataIsEmpty(%d)' % i, '@tf_senddataisempty', [impl, i], []), ('RecvDataIsReady(%d)' % i, '@tf_recvdataisready', [impl, i], [])]
    host += [('SetSemaphore', '@tf_setsemaphore', [impl, v], []), ('GetSemaphore', '@tf_getsemaphore', [impl], []), ('ClearSemaphore', '@tf_clearsemaphore', [impl, v], []), ('MaskSemaphore', '@tf_masksemaphore', [impl, v], [])]
    dsp = []
    for a in list(range(0x0C0, 0x0DA, 2)) + list(range(0x200, 0x252, 2)):
        dsp.append(('MMIO write %#05x' % a, '@ti_mmio_write', [impl, a, v], []))
        dsp.append(('MMIO read %#05x' % a, '@ti_mmio_read', [impl, a], []))
    traces = {}
    allcb = []
    for side, entries in (('host', host), ('dsp', dsp)):
        for name, fn, args, extra in entries:
            try:
                acc, cbs, problems = trace_entry(G, ex, st, ctx, hostcb, fn, args, extra)
            except (Abort, UnwindBound) as x:
                ck.inconclusive.append('%s: %s' % (name, str(x)[:100]))
                continue
            traces[(side, name)] = acc
            ck.nstates += 1
            for p in problems:
                ck.prove('NoSelfDeadlock[%s]' % name, [], z3.BoolVal(False), witness=False, sample=p)
            for cbname, held, pc in cbs:
                allcb.append((name, cbname, held))
    # the DSP thread's Run cycle samples the interrupt latches (atomics)
    try:
        from checks import interp
        acc, cbs, problems = trace_entry(G, ex, st, ctx, hostcb, '@k_latch_probe', [impl]) if '@k_latch_probe' in G.mod.funcs else ([], [], [])
    except Exception:
        acc = []
    # ---- pairwise race obligations
    fn_ = lambda rid, off: field_name(G, ex, st, ctx, rid, off)
    found = {}
    npairs = 0
    for (s1_, n1), a1 in traces.items():
        if s1_ != 'host':
            continue
        for (s2_, n2), a2 in traces.items():
            if s2_ != 'dsp':
                continue
            for x in a1:
                for y in a2:
                    if x[1] != y[1] or x[0] == 'R' and y[0] == 'R':
                        continue
                    if not (x[2] < y[2] + y[3] and y[2] < x[2] + x[3]):
                        continue
                    npairs += 1
                    if x[4] and y[4]:
                        continue
                    lx, ly = {(q[0], q[1]) for q in x[5]}, {(q[0], q[1]) for q in y[5]}
                    if lx & ly:
                        continue
                    key = fn_(x[1], max(x[2], y[2]))
                    found.setdefault(key, []).append((n1, x[0], n2, y[0], x[6], y[6]))
    ck.notes.append('%d host entry points, %d DSP-thread entry points, %d overlapping access pairs with a write examined' % (len(host), len(dsp), npairs))
    # one obligation per shared field: the race condition (both accesses reachable together) must be unsatisfiable
    checked_fields = set()
    for (s_, n_), acc in traces.items():
        for t in acc:
            checked_fields.add(fn_(t[1], t[2]))
    for key in sorted(checked_fields):
        pairs = found.get(key, [])
        if not pairs:
            ck.identical('RaceFree[%s]' % key, sample='%s: every host/DSP access pair with a write is ordered by a common mutex or is atomic on both sides' % key if key.endswith(('.ready', '.semaphore', 'interrupt_pending')) else None)
            continue
        conds = [z3.And(*(list(p[4]) + list(p[5]))) if (p[4] or p[5]) else z3.BoolVal(True) for p in pairs[:20]]
        desc = sorted({'%s (%s) vs %s (%s)' % (p[0], 'write' if p[1] == 'W' else 'read', p[2], 'write' if p[3] == 'W' else 'read') for p in pairs})
        ck.prove('RaceFree[%s]' % key, A, z3.Not(z3.Or(*conds)), vars={'index': i8, 'value': v}, witness=False,
                 sample='%s: unordered non-atomic pair(s): %s' % (key, '; '.join(desc[:4])))
    # ---- atomicity: an operation whose protected accesses span several critical sections is interleaved with every
    # operation of the other thread that competes for the same mutex, and must still equal a sequential order
    v2 = LV['b']
    sub = lambda args: [v2 if (z3.is_expr(a) and a.eq(v)) else a for a in args]
    acq_of = lambda fn, args: _ACQ.get((fn, tuple(str(a) for a in args)), [])
    pairs = []
    for sideA, entA, entB in (('host', host, dsp), ('dsp', dsp, host)):
        for nameA, fnA, argsA, _x in entA:
            if (sideA, nameA) not in traces:
                continue
            aA = acq_of(fnA, argsA)
            n_pts = 0
            for nameB, fnB, argsB, _y in entB:
                aB = acq_of(fnB, argsB)
                for k in interleave_points(aA, aB):
                    pairs.append(((nameA, fnA, argsA), (nameB, fnB, sub(argsB)), k))
                    n_pts += 1
            if n_pts == 0:
                ck.identical('Atomic[%s]' % nameA, sample=('%s: %d mutex acquisition(s); no operation of the other thread can run between two of its critical sections on a mutex both use, so every schedule is a sequential order' % (nameA, len(aA))) if nameA in ('RecvData(0)', 'MMIO write 0x0c0') else None)
    if tier == 'quick' and len(pairs) > 96:
        rnd = random.Random(seed)
        writes = [p_ for p_ in pairs if 'write' in p_[1][0] or 'write' in p_[0][0] or not p_[1][0].startswith('MMIO')]
        rest = [p_ for p_ in pairs if p_ not in writes]
        rnd.shuffle(writes)
        rnd.shuffle(rest)
        ck.notes.append('%d interleaving points; quick tier decides %d of them (seeded sample, write operations first)' % (len(pairs), 96))
        pairs = (writes + rest)[:96]
    else:
        ck.notes.append('%d interleaving points, all decided' % len(pairs))
    _PAIRS[:] = pairs
    chunks = [list(range(len(pairs)))[i::16] for i in range(16) if pairs[i::16]]
    for r in core.pmap(_lin_dispatch, [(c, tier, seed) for c in chunks]):
        if '__error__' in r:
            ck.engine_errors.append(r['__error__'])
        else:
            ck.absorb(r)
    delivery_obligations(ck, G, ex, st, ctx, A, names, hostcb)
    unmask_delivery(ck, G, ex, st, ctx, A, names, hostcb)
    from checks import facade
    facade.obligations(ck, 'apbp')
    facade.obligations(ck, 'callbacks')
    # ---- re-entrancy: a host callback is never invoked while a non-recursive mutex is held
    for entry, cbname, held in allcb:
        bad = [h for h in held if 'semaphore_mutex' not in h]
        rec = [h for h in held if 'semaphore_mutex' in h]
        nm = 'CallbackReentrancy[%s during %s]' % (cbname, entry)
        if bad:
            ck.prove(nm, [], z3.BoolVal(False), witness=False, sample='host callback %s runs while the non-recursive %s is held: calling back into the mailbox API deadlocks' % (cbname, bad))
        else:
            ck.identical(nm, sample='host callback %s (raised by %s) runs with %s held: the mailbox API can be called from it without deadlock' % (cbname, entry, 'only the recursive semaphore mutex' if rec else 'no mutex'))
    ck.funcs.update(['Apbp::SendData/RecvData/PeekData/IsDataReady/SetSemaphore/ClearSemaphore/GetSemaphore/MaskSemaphore/Get/SetDisableInterrupt', 'DataChannel::*', 'ICU::Trigger/Acknowledge/SetEnable*/Get*', 'Processor::SignalInterrupt',
                     'the MMIO closures at 0x0C0..0x0D8 and 0x200..0x250', 'std::lock_guard / std::mutex / std::recursive_mutex down to pthread_mutex_lock'])
    ck.assumptions += ['host entry points are the real public wrappers of src/teakra.cpp (Teakra::SendData, RecvData, ...) called on the constructed Impl; Facade[...] obligations prove each equal to the component operation that C14 specifies', 'threads: the host thread runs the mailbox/semaphore API, the DSP thread runs Run (whose accesses to these objects are MMIO reads/writes of the APBP and ICU registers and interrupt delivery); handler setters are not part of the concurrent API',
                       'pthread_mutex_lock/unlock are modelled as lock-set bookkeeping; atomics are atomic; everything between is sequential code executed symbolically',
                       'decided: data-race freedom by lock sets, callback re-entrancy, and atomicity: an operation with a point between two of its critical sections at which an operation of the other thread competing for the same mutex can run is executed with that operation placed there (every such point x every competing operation) and must equal one of the two sequential orders in return values, final mailbox/ICU/latch state and host-callback counts - so "every value read is one that was written, in send order, the last value is observable" reduce to the sequential one-step results of C14. NOT decided: fairness ("eventually"), memory-order effects of the atomics, more than two operations in flight, schedules that preempt inside a critical section (excluded by the mutex itself)']
    ck.bounds += ['one call per entry point from an arbitrary mailbox/ICU state, channel index enumerated 0..2, callback re-entrancy depth 1', 'interleavings: two operations (one per thread), the second placed as one atomic step at a critical-section boundary of the first; quick tier at most 96 interleaving points (seeded sample), thorough all']
    expl = 'lock-set analysis and two-operation linearizability over symbolic executions of the real entry points; SMT decides whether an unordered access pair is reachable and whether an interleaved schedule differs from both sequential orders. Fairness/liveness and weak-memory clauses of C19 are outside the claim.'
    return ck.finish(expl)
