"""C20 — status/config words are faithful bit-field views of one register state.
Real code: RegisterState::Get<W>/Set<W> for the 19 pseudo registers (register.h templates) executed symbolically from an
arbitrary well-formed state; oracle: the bit-field table spec/pseudo_regs.py (S).  ar/arp meaning: interpreter fields vs
the integers the annotated disassembler derives from the same words vs the register the test generator pins."""
import z3, random, ctypes
from engine import build, kit, core, native
from engine.kit import Ptr, bv, is_c
from engine.llsym import DEAD
from checks import interp
from spec import pseudo_regs as PR

_E = None


def env():
    global _E
    if _E is None:
        _E = interp.IEnv('cur')
        _E.base()
    return _E


def fieldterm(R, f):
    return R[f]


def job_word(w, tier, seed):
    E = env()
    ck = core.Check('C20', 'model_checking', tier, seed)
    ex, st0, ctx = E.base()
    regs = ctx['regs']
    R = E.R()
    inv = E.inv()
    v = z3.BitVec('v', 16)
    slots = PR.W[w]
    # Get on the pre-state
    g0 = bv(ex.call(st0.fork(), '@get_' + w, [regs.ptr])[1], 16)
    st = st0.fork()
    n0 = ex.ninstr
    ex.exits = []
    r = ex.call(st, '@set_' + w, [regs.ptr, v])
    s1 = r[0]
    post = regs.snapshot(s1)
    g1 = bv(ex.call(s1.fork(), '@get_' + w, [regs.ptr])[1], 16)
    ck.ninstr += ex.ninstr - n0
    ck.nstates += 3
    covered = 0
    touched = set()
    goals = [z3.Not(kit.exit_cond(ex))]
    for f, pos, ln, kind in slots:
        covered |= ((1 << ln) - 1) << pos
        vb = z3.Extract(pos + ln - 1, pos, v)
        gb1 = z3.Extract(pos + ln - 1, pos, g1)
        gb0 = z3.Extract(pos + ln - 1, pos, g0)
        if kind == 'rw':
            touched.add(f)
            goals += [gb1 == vb, post[f] == z3.ZeroExt(post[f].size() - ln, vb), gb0 == z3.Extract(ln - 1, 0, R[f])]
        elif kind == 'ro':
            lp = [s_ for s_ in slots if s_[3] == 'lp']
            if f == 'bcn' and lp:      # documented coupling: writing 1 to the loop flag also clears the nest counter
                goals += [gb1 == z3.If(z3.Extract(lp[0][1], lp[0][1], v) == 1, z3.BitVecVal(0, ln), gb0), gb0 == z3.Extract(ln - 1, 0, R[f])]
            else:
                goals += [gb1 == gb0, gb0 == z3.Extract(ln - 1, 0, R[f])]
        elif kind == 'lp':
            touched.update(['lp', 'bcn'])
            goals += [gb0 == z3.Extract(0, 0, R['lp']), z3.Implies(vb == 1, z3.And(post['lp'] == 0, post['bcn'] == 0)),
                      z3.Implies(vb == 0, z3.And(post['lp'] == R['lp'], post['bcn'] == R['bcn']))]
        elif kind == 'dbl':
            touched.update(['flm', 'fvl'])
            goals += [gb0 == z3.Extract(0, 0, R['flm'] | R['fvl']), gb1 == vb, post['flm'] == z3.ZeroExt(15, vb), post['fvl'] == z3.ZeroExt(15, vb)]
        elif kind == 'acce':
            touched.add(f)
            goals += [gb0 == z3.Extract(35, 32, R[f]), gb1 == vb, z3.Extract(31, 0, post[f]) == z3.Extract(31, 0, R[f]),
                      z3.Extract(63, 32, post[f]) == z3.SignExt(28, vb)]
    # reserved bits read zero
    for k in range(16):
        if not (covered >> k) & 1:
            goals += [z3.Extract(k, k, g0) == 0, z3.Extract(k, k, g1) == 0]
    # frame: every field outside the word is unchanged
    for f, t in post.items():
        if f in touched:
            continue
        if not t.eq(R[f]):
            goals.append(t == R[f])

    def rp(inputs):
        return replay_word(E, w, inputs)
    vars_ = {'v': v}
    vars_.update({('r.' + f): t for f, t in R.items() if t.size() <= 64 and (f in touched or f in ('lp', 'bcn', 'flm', 'fvl'))})
    ck.prove('Word[%s]' % w, inv, z3.And(*goals), vars=vars_, replay=rp,
             sample='%s: Get(Set(s,v)) == v on writable slots, read-only slots unchanged, each slot reads/writes exactly its field at its position, reserved bits read 0, no field outside the word changes' % w)
    # Inv is preserved by Set<W>
    from spec import regs_inv
    ck.prove('InvPreserved[%s]' % w, inv, z3.And(*regs_inv.inv(post)), vars=vars_, sample='Set<%s>(v) keeps every field within its hardware width' % w)
    # shared fields read the same through every other word after this write
    for w2 in PR.ORDER:
        if w2 == w:
            continue
        g2 = None
        for f2, pos2, ln2, kind2 in PR.W[w2]:
            for f, pos, ln, kind in slots:
                same = (f2 == f) or (kind2 == 'dbl' and f in ('flm', 'fvl')) or (kind == 'dbl' and f2 in ('flm', 'fvl'))
                if not same:
                    continue
                if g2 is None:
                    g2 = bv(ex.call(s1.fork(), '@get_' + w2, [regs.ptr])[1], 16)
                a = z3.Extract(pos2 + ln2 - 1, pos2, g2)
                if kind == 'dbl' and f2 in ('flm', 'fvl'):
                    goal = a == z3.Extract(pos, pos, g1)          # st0.5 written -> both Teak limit flags take it
                elif kind2 == 'dbl':
                    goal = a == z3.Extract(0, 0, post['flm'] | post['fvl'])
                elif kind == 'acce' or kind2 == 'acce':
                    continue
                else:
                    goal = a == z3.Extract(pos + ln - 1, pos, g1)
                ck.prove('Shared[%s after Set<%s>: %s]' % (w2, w, f2), inv, goal, vars=vars_, witness=False,
                         sample='after Set<%s>(v), field %s reads the same through %s and %s' % (w, f2, w, w2) if (w, w2) in (('st0', 'stt0'), ('mod0', 'st1')) else None)
    return ck.export()


def word_write_spec(R, w, val16):
    """post-state of 'write val16 to word w' per the slot table (the same reading of the statement as Word[w])"""
    R2 = dict(R)
    for f, pos, ln, kind in PR.W[w]:
        vb = z3.Extract(pos + ln - 1, pos, val16)
        if kind == 'rw':
            R2[f] = z3.ZeroExt(R[f].size() - ln, vb)
        elif kind == 'lp':
            R2['lp'] = z3.If(vb == 1, z3.BitVecVal(0, R['lp'].size()), R['lp'])
            R2['bcn'] = z3.If(vb == 1, z3.BitVecVal(0, R['bcn'].size()), R['bcn'])
        elif kind == 'dbl':
            R2['flm'] = z3.ZeroExt(15, vb)
            R2['fvl'] = z3.ZeroExt(15, vb)
        elif kind == 'acce':
            R2[f] = z3.Concat(z3.SignExt(28, vb), z3.Extract(31, 0, R[f]))
    return R2


def job_field_row(i, tier, seed):
    """instructions that write a status/config word or one of its fields directly (mov #imm5, icr; mov #imm16, st0/st1/st2/
    cfgi/cfgj; the load family): the post-state is the word table's - exactly the named field(s) take the operand, the
    read-only and write-1-to-clear slots behave as in Word[w], nothing else in the machine changes."""
    from spec import forms
    E = env()
    ck = core.Check('C20', 'model_checking', tier, seed)
    if not hasattr(E, 'forms'):
        E.forms = forms.rows(build.REPO)
    row, form = E.rows[i], E.forms[i]
    if row['name'] != form['name']:
        ck.engine_errors.append('decoder.h row %d is %s but executed table has %s' % (i, form['name'], row['name']))
        return ck.export()
    nm = row['name']
    ops = [p for p in form['ops'] if p[0] in ('at', 'const')]
    types = tuple(p[1] for p in ops)
    o, e = z3.BitVec('o', 16), z3.BitVec('e', 16)
    F = lambda k: forms.field(o, e, ops[k])
    R = E.R()
    extra = []
    zx = lambda t, n: z3.ZeroExt(n - t.size(), t)
    if nm == 'mov_icr' and types == ('Imm5',):
        spec = word_write_spec(R, 'icr', zx(F(0), 16))
        what = 'mov #imm5, icr == writing the icr word with imm5 in bits 0..4 (bit 4 = write-1-to-clear loop flag; the nest counter is read-only)'
    elif nm == 'mov' and types == ('Imm16', 'Register'):
        REGW = {8: 'st0', 9: 'st1', 10: 'st2', 14: 'cfgi', 15: 'cfgj'}      # operand.h Register order
        idx = F(1)
        extra = [z3.Or(*[idx == k for k in REGW])]
        spec = None
        posts = [(idx == k, word_write_spec(R, w_, e)) for k, w_ in REGW.items()]
        spec = {}
        for f in R:
            t = posts[-1][1][f]
            for c_, d_ in reversed(posts[:-1]):
                t = t if d_[f] is t else z3.If(c_, d_[f], t)
            spec[f] = t
        what = 'mov #imm16, st0/st1/st2/cfgi/cfgj == writing that word (Word[w] semantics)'
    elif nm.startswith('load_') and len(types) == 1:
        v = F(0)
        spec = dict(R)
        tgt = {'load_ps': [('ps[0]', v)], 'load_stepi': [('stepi', v)], 'load_stepj': [('stepj', v)], 'load_page': [('page', v)], 'load_modi': [('modi', v)], 'load_modj': [('modj', v)],
               'load_movpd': [('pcmhi', v)], 'load_ps01': [('ps[0]', z3.Extract(1, 0, v) if v.size() >= 4 else v), ('ps[1]', z3.Extract(3, 2, v) if v.size() >= 4 else v)]}.get(nm)
        if tgt is None:
            return ck.export()
        for f, t in tgt:
            spec[f] = zx(t, R[f].size())
        what = '%s: the named field takes the immediate (its low bits, at the field width), nothing else changes' % nm
    else:
        return ck.export()
    A = E.inv() + [E.match_pred(row, o)] + extra
    try:
        r = E.run_row(i, o, e, A)
    except Exception as x:
        ck.inconclusive.append('row %d %s: %r' % (i, nm, x))
        return ck.export()
    ck.ninstr += r['ninstr']
    ck.nstates += 1
    if r['st'] is None:
        ck.prove('FieldWrite[%d %s]' % (i, nm), A, z3.BoolVal(False), vars={'o': o, 'e': e})
        return ck.export()
    post = E.post_regs(r['st'])
    g = [post[f] == spec[f] for f in post if not post[f].eq(spec[f])]
    g.append(E.post_dmem(r['st']) == E.pre_dmem())
    g.append(z3.Not(kit.exit_cond(type('X', (), {'exits': r['exits']})())))
    vars_ = {'o': o, 'e': e}
    vars_.update({('r.' + f): t for f, t in R.items() if t.size() <= 64})
    names = [f for f in post if not post[f].eq(spec[f])]
    vars_.update({'exp.' + f: spec[f] for f in names})
    vars_['exp.dmem_unchanged'] = z3.BoolVal(True)
    ck.prove('FieldWrite[%d %s%s]' % (i, nm, types), A, z3.And(*g), vars=vars_, replay=interp.spec_replayer(E, i, names) if names else None, sample=what)
    from spec import regs_inv
    ck.prove('FieldWrite.inv[%d %s]' % (i, nm), A, z3.And(*regs_inv.inv(post)), vars=vars_, witness=False)
    return ck.export()


_twin = None


def replay_word(E, w, inputs):
    global _twin
    if _twin is None:
        _twin = native.Twin(build.compile_so('h_interp.cpp'))
    tw = _twin

    def body():
        m = tw.fn('nm_new', ctypes.c_void_p, [])()
        rp = tw.fn('nm_regs', ctypes.c_void_p, [ctypes.c_void_p])(m)
        for k_, val in inputs.items():
            if k_.startswith('r.'):
                name = k_[2:]
                f, idx = (name[:name.index('[')], int(name[name.index('[') + 1:-1])) if '[' in name else (name, 0)
                native.poke(rp, E.rl, f, val, idx)
        get = tw.fn('get_' + w, ctypes.c_uint16, [ctypes.c_void_p])
        g0 = get(rp)
        tw.fn('set_' + w, None, [ctypes.c_void_p, ctypes.c_uint16])(rp, inputs['v'])
        return {'get_before': g0, 'get_after': get(rp)}
    o = native.in_child(body)
    if o[0] != 'ok':
        return True, {'native': o}
    v = inputs['v']
    bad = []
    for f, pos, ln, kind in PR.W[w]:
        msk = ((1 << ln) - 1) << pos
        if kind in ('rw', 'dbl', 'acce') and (o[1]['get_after'] & msk) != (v & msk):
            bad.append('%s bits %d..%d read back %#x, written %#x' % (f, pos, pos + ln - 1, (o[1]['get_after'] & msk) >> pos, (v & msk) >> pos))
        if kind == 'ro' and f != 'bcn' and (o[1]['get_after'] & msk) != (o[1]['get_before'] & msk):
            bad.append('read-only %s changed' % f)
    return (True if bad else None), {'native': o[1], 'why': bad or 'native read-back agrees on this word; the failing conjunct concerns a field/frame condition (see __failed_conjuncts__)'}


def job_dsm(tier, seed):
    """ar/arp meaning: interpreter (fields after Set<ar/arp>) vs the integers the annotated disassembler extracts"""
    E = env()
    ck = core.Check('C20', 'model_checking', tier, seed)
    ll, h = build.compile_ir('h_dsm.cpp')
    mod = build.load_module(ll)
    ex, st = kit.new_exec(mod, unwind=200)
    ar = [z3.BitVec('ar%d' % i, 16) for i in range(2)]
    arp = [z3.BitVec('arp%d' % i, 16) for i in range(4)]
    d = ex.new_region(st, 16, 'disassembler')
    for i in range(2):
        ex.store(st, Ptr(d, 2 * i), 2, ar[i])
    for i in range(4):
        ex.store(st, Ptr(d, 4 + 2 * i), 2, arp[i])
    ex.store(st, Ptr(d, 12), 1, 1)      # optional engaged

    def ev(kind):
        def f(e, st_, a):
            st_.log.append((kind, list(st_.pc), a[-1]))
            e.last_state = st_
            return DEAD
        return f
    for n in mod.funcs:
        if n.startswith('@_ZNSt7__cxx119to_stringE'):
            ex.intercepts[n] = ev('NUM')
        if 'ConvertArStepAndOffset' in n:
            ex.intercepts[n] = ev('STEP')
    # interpreter side: fields after writing the same words
    ix, ist0, ictx = E.base()
    regs = ictx['regs']
    ist = ist0.fork()
    for i in range(2):
        ix.call(ist, '@set_ar%d' % i, [regs.ptr, ar[i]])
    for i in range(4):
        ix.call(ist, '@set_arp%d' % i, [regs.ptr, arp[i]])
    F = regs.snapshot(ist)
    cases = []
    for n in mod.funcs:
        for key, fld, kind, cnt in (('8DsmArRnI', 'arrn', 'NUM', None), ('9DsmArStepI', 'arstep', 'STEP', None), ('9DsmArpRniI', 'arprni', 'NUM', None),
                                    ('9DsmArpRnjI', 'arprnj', 'NUM', None), ('11DsmArpStepiI', 'arpstepi', 'STEP', None), ('11DsmArpStepjI', 'arpstepj', 'STEP', None)):
            if key in n and 'Disassembler' in n:
                cases.append((n, fld, kind))
    if len(cases) < 6:
        ck.engine_errors.append('disassembler ar/arp helpers not found in IR: %r' % [c[0] for c in cases])
    for name, fld, kind in cases:
        fn = mod.funcs[name]
        # operand type decides how many index values exist: ArRn1/ArStep1(Alt)/ArpRn1/ArpStep1 -> 1 bit, *2 -> 2 bits
        nbits = 1 if ('1E' in name.split('I')[-1] or 'Rn1' in name or 'Step1' in name) else 2
        for sto in range(1 << nbits):
            idx = sto + (2 if 'ArStep1Alt' in name else 0)     # operand.h: ArStep1Alt is ArIndex<1, 2>
            s2 = st.fork()
            ex.exits = []
            res = ex.new_region(s2, 32, 'sret')
            args = [Ptr(res, 0), Ptr(d, 0), sto] if fn.params and len(fn.params) == 3 else [Ptr(d, 0), sto]
            try:
                ex.call(s2, name, args)
            except Exception as x:
                ck.inconclusive.append('disassembler helper %s: %r' % (name, x))
                continue
            logged = [e_ for e_ in ex.last_state.log if e_[0] == kind] if hasattr(ex, 'last_state') else []
            if len(logged) != 1:
                ck.inconclusive.append('disassembler helper %s idx %d: %d events' % (name, idx, len(logged)))
                continue
            val = bv(logged[0][2], 32)
            if fld == 'arrn':
                want = z3.ZeroExt(16, F['arrn[%d]' % idx])
            elif fld == 'arstep':
                want = z3.ZeroExt(16, F['arstep[%d]' % idx] | (F['aroffset[%d]' % idx] << 3))
            elif fld == 'arprni':
                want = z3.ZeroExt(16, F['arprni[%d]' % idx])
            elif fld == 'arprnj':
                want = z3.ZeroExt(16, F['arprnj[%d]' % idx] + 4)
            elif fld == 'arpstepi':
                want = z3.ZeroExt(16, F['arpstepi[%d]' % idx] | (F['arpoffseti[%d]' % idx] << 3))
            else:
                want = z3.ZeroExt(16, F['arpstepj[%d]' % idx] | (F['arpoffsetj[%d]' % idx] << 3))
            if val.size() != 32:
                val = z3.ZeroExt(32 - val.size(), val) if val.size() < 32 else z3.Extract(31, 0, val)
            vars_ = {'ar0': ar[0], 'ar1': ar[1]}
            vars_.update({'arp%d' % i: arp[i] for i in range(4)})
            short = name.split('Disassembler')[-1][:40]
            ck.prove('DsmAgrees[%s idx %d]' % (short, idx), [], val == want, vars=vars_, witness=False,
                     sample='annotated disassembler: operand index %d of %s prints the register/step number the interpreter uses after Set<ar/arp> of the same words' % (idx, fld))
    ck.ninstr += ex.ninstr
    return ck.export()


def job_generator(tier, seed):
    """the test generator's reading of ar/arp words vs the interpreter's: when the generator marks ArRn slot i (ArpRn slot i)
    as a memory operand it pins r[(ar >> ..) & 7] (r[(arp >> 10) & 3], r[((arp >> 13) & 3) + 4]) into the X / Y test window;
    the register the *interpreter* addresses through for that slot - arrn[i] (arprni[i], arprnj[i] + 4) as decoded by Set<ar/arp>
    in the verifier's loader - must be that register: its effective address (RnAddress: bit-reversed when br && !m) lies in
    the window. Generator state and loader come from checks/c01b (real GenerateRandomState, real loader)."""
    from checks import c01b
    E = env()
    ck = core.Check('C20', 'model_checking', tier, seed)
    ex, st0, ctx = E.base()
    try:
        g = c01b.gen_env()
        ld = c01b.loader_env()
    except Exception as x:
        ck.inconclusive.append('generator pins: %s' % str(x)[:200])
        return ck.export()
    regsI = ctx['regs']
    stL = st0.fork()
    for f, t in ld['regs'].items():
        nm, i = (f[:f.index('[')], int(f[f.index('[') + 1:-1])) if '[' in f else (f, 0)
        regsI.set(stL, nm, t, i)
    link = [ld['SV'][f] == g['S'][f] for f in ld['SV']]
    # configurations the handlers can return: lock_r7 comes only from ConfigWithMemR7Imm16/Imm7s, which start from AnyConfig and
    # carry no register pins (lock_r7 overwrites r7 after the pin loop, without the bit-reverse adjustment); the configurations
    # the handlers really return are quantified row by row in C01's Generator[row] obligations
    A0 = g['A'] + link + [g['cfgv']['lock_r7'] == 0]
    AL = g['A'] + link
    LR = ld['regs']

    def eff(k):
        r = ex.call(stL.fork(), '@k_rnaddr', [ctx['interp'], k, z3.ZeroExt(16, bv(LR['r[%d]' % k], 16))])
        return bv(r[1], 16)
    EFF = [eff(k) for k in range(8)]
    # inside the window of the register's bank; how far from the edges is the generator's business (C01 clause B decides
    # whether the accesses of each instruction stay inside)
    win = lambda k, a: z3.And(z3.UGE(a, (c01b.XLO if k < 4 else c01b.YLO)), z3.ULT(a, (c01b.XLO if k < 4 else c01b.YLO) + c01b.WSZ))
    vars_ = {'state.' + f: t for f, t in ld['SV'].items()}
    vars_.update({'cfg.' + f: t for f, t in g['cfgv'].items()})
    for i in range(8):
        ck.prove('GeneratorPins[r%d]' % i, A0 + [g['cfgv']['r[%d]' % i] == 1], win(i, EFF[i]), vars=vars_,
                 sample='Config.r[%d] == Memory: the address the interpreter forms from r%d (bit-reversed when br && !m) lies in the %s window' % (i, i, 'X' if i < 4 else 'Y') if i in (0, 7) else None)
    for i in range(4):
        unit = bv(LR['arrn[%d]' % i], 16)
        goal = z3.And(*[z3.Implies(unit == k, win(k, EFF[k])) for k in range(8)] + [z3.ULT(unit, 8)])
        ck.prove('GeneratorPins[ArRn slot %d]' % i, A0 + [g['cfgv']['ar[%d]' % i] == 1], goal, vars=vars_,
                 sample='Config.ar[%d] == Memory: the register Set<ar%d> makes ArRn slot %d select (arrn[%d]) is the one the generator pinned into its window' % (i, i // 2, i, i))
    for i in range(4):
        ui, uj = bv(LR['arprni[%d]' % i], 16), bv(LR['arprnj[%d]' % i], 16)
        goal = z3.And(*[z3.Implies(ui == k, win(k, EFF[k])) for k in range(4)] + [z3.Implies(uj == k, win(k + 4, EFF[k + 4])) for k in range(4)] + [z3.ULT(ui, 4), z3.ULT(uj, 4)])
        ck.prove('GeneratorPins[ArpRn slot %d]' % i, A0 + [g['cfgv']['arp[%d]' % i] == 1], goal, vars=vars_,
                 sample='Config.arp[%d] == Memory: both registers Set<arp%d> selects (arprni -> r0..r3, arprnj -> r4..r7) are the ones the generator pinned' % (i, i))
    ck.prove('GeneratorPins[lock_r7]', AL + [g['cfgv']['lock_r7'] == 1], z3.And(z3.UGE(bv(LR['r[7]'], 16), c01b.YLO), z3.ULT(bv(LR['r[7]'], 16), c01b.YLO + c01b.WSZ)), vars=vars_)
    ck.prove('GeneratorPins[lock_page]', A0 + [g['cfgv']['lock_page'] == 1], bv(LR['page'], 16) == (c01b.XLO >> 8), vars=vars_,
             sample='Config.lock_page: the page the loader installs from mod1 is the page of the X window')
    ck.nstates += 26
    return ck.export()


def run(tier, seed):
    ck = core.Check('C20', 'model_checking', tier, seed)
    E = env()
    ck.funcs.update(['RegisterState::Get<W>/Set<W> for W in ' + ','.join(PR.ORDER), 'PseudoRegister/ProxySlot/Redirector/ArrayRedirector/DoubleRedirector/RORedirector/AccEProxy/LPRedirector templates',
                     'Disassembler::DsmArRn/DsmArStep/DsmArpRni/DsmArpRnj/DsmArpStepi/DsmArpStepj', 'Config::GenerateRandomState (ar/arp decoding of the test generator)', 'test_verifier loader (Set<ar0..arp3>)', 'Interpreter::RnAddress', 'mov_icr(Imm5)', 'mov(Imm16, Register) for st0/st1/st2/cfgi/cfgj', 'load_ps/stepi/stepj/page/modi/modj/movpd/ps01'])
    ck.assumptions += ['pre-state satisfies Inv (fields within hardware widths); Inv is re-proved after every Set<W>',
                       'layout oracle: spec/pseudo_regs.py (transcribed bit positions; the statement of C20 defines the slot kinds)', 'FieldWrite[row]: instructions that write a word or one field of it directly (mov #imm5,icr; mov #imm16 to st0/st1/st2/cfgi/cfgj; the load family) against the same table: only the named slots change, write-1-to-clear / read-only slots as in Word[w]; other instructions that reach Set<W> through RegFromBus16 with a computed value are covered by C01',
                       'disassembler: std::to_string / ConvertArStepAndOffset calls are observed as events (their integer argument), the name strings themselves are data and not checked']
    ck.bounds += ['all 2^16 written values x all register states: no bound']
    res = core.pmap(job_word, [(w, tier, seed) for w in PR.ORDER])
    res += core.pmap(job_dsm, [(tier, seed)])
    FW = ('mov_icr', 'mov', 'load_ps', 'load_stepi', 'load_stepj', 'load_page', 'load_modi', 'load_modj', 'load_movpd', 'load_ps01')
    res += core.pmap(job_field_row, [(r_['i'], tier, seed) for r_ in E.rows if r_['name'] in FW])
    res += [core._job((job_generator, (tier, seed)))]
    for r in res:
        if '__error__' in r:
            ck.engine_errors.append(r['__error__'])
        else:
            ck.absorb(r)
    # translator validation: Get/Set on concrete states through executor vs native
    rnd = random.Random(seed)
    ex, st0, ctx = E.base()
    regs = ctx['regs']
    R = E.R()
    for it in range(20 if tier == 'quick' else 100):
        w = rnd.choice(PR.ORDER)
        val = rnd.randrange(65536)
        conc = {}
        for f, t in R.items():
            conc[f] = rnd.randrange(2) if t.size() <= 16 else 0
        sub = [(t, z3.BitVecVal(conc[f], t.size())) for f, t in R.items()]
        st = st0.fork()
        ex.call(st, '@set_' + w, [regs.ptr, val])
        g = ex.call(st.fork(), '@get_' + w, [regs.ptr])[1]
        g = z3.simplify(z3.substitute(bv(g, 16), *sub)).as_long()
        inputs = {'r.' + f: conc[f] for f in conc}
        inputs['v'] = val
        bad, det = replay_word(E, w, inputs)
        if 'native' in det and isinstance(det['native'], dict) and det['native']['get_after'] == g:
            ck.validated += 1
        else:
            ck.engine_errors.append('translator validation mismatch %s %r vs %r' % (w, g, det))
    return ck.finish('bit-field view obligations for the 19 words generated from spec/pseudo_regs.py and decided on the real templates')
