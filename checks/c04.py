"""C04 — multiplier products and barrel-shifter results follow exact arithmetic.
Kernels: the real DoMultiplication / ProductToBus40 / ProductSum / ShiftBus40 / Exp against spec/alu.py + the shifter
and exponent models below (S); wiring of the simple-operand rows of the multiply / shift / exponent families."""
import z3
from engine import build, kit, core
from engine.kit import Ptr, bv, is_c
from engine.llsym import DEAD, Abort, UnwindBound
from checks import interp, c03
from spec import alu, forms

env = c03.env
REGN = {'a0': 0, 'a1': 4, 'b0': 8, 'b1': 12}


# ------------------------------------------------------------------------------------------------ models
def shift_model(R, v64, sv16, acc):
    """barrel shifter for |sv| < 40 (statement of C04): exact shift of the 40-bit value, arithmetic or logical per the
    shift mode, carry = last bit shifted out, overflow when an arithmetic left shift loses significant bits, then
    flags and 32-bit saturation keeping the original sign."""
    v40 = z3.Extract(39, 0, v64)
    V = z3.ZeroExt(40, v40)                 # 80-bit workspace
    left = z3.Extract(15, 15, sv16) == 0
    n = z3.ZeroExt(64, z3.If(left, sv16, -sv16))            # shift distance, 80-bit
    arith = R['s'] == 0
    # left
    L = V << n
    l_res = z3.Extract(39, 0, L)
    l_carry = z3.Extract(40, 40, L) == 1
    sx = z3.SignExt(40, v40)
    l_ov = z3.Extract(79, 39, sx << n) != z3.If(z3.Extract(39, 39, l_res) == 1, z3.BitVecVal((1 << 41) - 1, 41), z3.BitVecVal(0, 41))
    # right
    r_carry = z3.Extract(0, 0, z3.LShR(V, n - 1)) == 1
    r_res = z3.If(arith, z3.Extract(39, 0, sx >> n), z3.Extract(39, 0, z3.LShR(V, n)))
    res = alu.SX40(z3.If(left, l_res, r_res))
    R2 = dict(R)
    R2['fc0'] = alu.b16(z3.If(left, l_carry, r_carry))
    fv = z3.If(arith, z3.If(left, alu.b16(l_ov), alu.ZERO16), R['fv'])
    R2['fv'] = fv
    R2['fvl'] = z3.If(z3.And(arith, left, l_ov), alu.ONE16, R['fvl'])
    R2 = alu.flags(R2, res)
    satc = z3.And(arith, R['sata'] == 0, z3.Or(fv == 1, z3.Not(alu.fits32(res))))
    R2['flm'] = z3.If(satc, alu.ONE16, R['flm'])
    R2[acc] = z3.If(satc, z3.If(z3.Extract(39, 39, v64) == 1, z3.BitVecVal(0xFFFFFFFF80000000, 64), z3.BitVecVal(0x7FFFFFFF, 64)), res)
    return R2


def small_sv(sv16):
    return z3.Or(z3.ULT(sv16, 40), z3.UGT(sv16, 0xFFFF - 39))        # -39 .. 39


def exp_model(v64):
    """left-shift count that would normalise the 40-bit value = (number of redundant sign bits) - 8, as a 16-bit word"""
    sign = z3.Extract(39, 39, v64)
    out = z3.BitVecVal((39 - 8) & 0xFFFF, 16)              # all 39 lower bits equal the sign
    for j in range(0, 39):                                # highest differing bit j wins -> iterate upwards, later overrides
        out = z3.If(z3.Extract(j, j, v64) != sign, z3.BitVecVal((38 - j - 8) & 0xFFFF, 16), out)
    return out


# ------------------------------------------------------------------------------------------------ kernels


class Abstract:
    """compositional cut (DESIGN C04 'multipliers abstracted'): inside a caller, ProductToBus40 returns a fresh
    sign-extended 40-bit value per unit and DoMultiplication writes fresh product words; both record what they were
    called with. The two functions themselves are proved against the model as kernels."""

    def __init__(s, E):
        s.E = E
        s.ex, s.st0, s.ctx = E.base()
        s.PB = [z3.BitVec('PB40_%d' % u, 64) for u in (0, 1)]
        s.axioms = [alu.SX40(alu.B40(v)) == v for v in s.PB]
        s.calls = []
        p2b = [n for n in E.mod.funcs if 'Interpreter14ProductToBus40E' in n]
        dom = [n for n in E.mod.funcs if 'Interpreter16DoMultiplicationE' in n]
        if len(p2b) != 1 or len(dom) != 1:
            raise KeyError('ProductToBus40/DoMultiplication symbols not found: %r %r' % (p2b, dom))
        s.P2B, s.DOMUL = p2b[0], dom[0]

    def __enter__(s):
        regs = s.ctx['regs']
        rl = s.E.rl

        def p2b(e, st, a):
            u = a[1]
            snap = {f: regs.get(st, f, i) for f in ('p', 'pe', 'ps') for i in (0, 1)}
            st.log.append(('P2B', list(st.pc), u, {('%s[%d]' % (f, i)): regs.get(st, f, i) for f in ('p', 'pe', 'ps') for i in (0, 1)}))
            if is_c(u):
                return st, s.PB[u & 1]
            return st, z3.If(bv(u, 16) == 0, s.PB[0], s.PB[1])

        def domul(e, st, a):
            u, xs, ys = a[1], a[2], a[3]
            if not (is_c(u) and is_c(xs) and is_c(ys)):
                raise Abort('symbolic DoMultiplication arguments')
            k = len([1 for ev in st.log if ev[0] == 'MUL'])
            P, PE = z3.BitVec('MULP_%d' % k, 32), z3.BitVec('MULPE_%d' % k, 16)
            st.log.append(('MUL', list(st.pc), u, xs, ys, regs.get(st, 'x', u), regs.get(st, 'y', u), regs.get(st, 'hwm')))
            regs.set(st, 'p', P, u)
            regs.set(st, 'pe', PE, u)
            return st, None
        s.ex.intercepts[s.P2B] = p2b
        s.ex.intercepts[s.DOMUL] = domul
        return s

    def __exit__(s, *a):
        s.ex.intercepts.pop(s.P2B, None)
        s.ex.intercepts.pop(s.DOMUL, None)


def job_mul(unit, tier, seed):
    E = env()
    ck = core.Check('C04', 'model_checking', tier, seed)
    ex, st0, ctx = E.base()
    regs, ip = ctx['regs'], ctx['interp']
    R = E.R()
    inv = E.inv()
    for xs in (0, 1):
        for ys in (0, 1):
            st = st0.fork()
            n0 = ex.ninstr
            r = ex.call(st, '@k_domul', [ip, unit, xs, ys])
            ck.ninstr += ex.ninstr - n0
            ck.nstates += 1
            post = regs.snapshot(r[0])
            p, pe = alu.multiply(R, unit, bool(xs), bool(ys))
            exp = dict(R)
            exp['p[%d]' % unit] = p
            exp['pe[%d]' % unit] = pe
            g, _ = c03.diff_goal(post, exp, R)
            for hw in range(4):      # Inv: hwm <= 3, so the split is exhaustive
                ck.prove('DoMultiplication[unit %d %s x %s hwm %d]' % (unit, 'sx' if xs else 'ux', 'sy' if ys else 'uy', hw), inv + [R['hwm'] == hw], z3.And(*g), vars=c03.vars_of(R),
                         sample='p%d:pe%d = exact 33-bit product of x%d and y%d (%s x %s, half-word mode %d applied to y), nothing else changes' % (unit, unit, unit, unit, 'signed' if xs else 'unsigned', 'signed' if ys else 'unsigned', hw) if hw == 1 else None)
    st = st0.fork()
    r = ex.call(st, '@k_p2b40', [ip, unit])
    g, _ = c03.diff_goal(regs.snapshot(r[0]), R, R)
    ck.prove('ProductToBus40[p%d]' % unit, inv, z3.And(bv(r[1], 64) == alu.product40(R, unit), *g), vars=c03.vars_of(R), sample='reading p%d applies the product shift (none, >>1, <<1, <<2) to the 33-bit product with sign extension' % unit)
    return ck.export()


def job_prodsum(base, tier, seed):
    E = env()
    ck = core.Check('C04', 'model_checking', tier, seed)
    ex, st0, ctx = E.base()
    regs, ip = ctx['regs'], ctx['interp']
    R = E.R()
    inv = E.inv()
    accs = [('a0', 'a[0]'), ('b1', 'b[1]')] if tier == 'quick' else [(k, alu.ACC[k]) for k in REGN]
    with Abstract(E) as ab:
        for bits in range(16):
            s0, a0, s1_, a1 = bits & 1, (bits >> 1) & 1, (bits >> 2) & 1, (bits >> 3) & 1
            for an, af in accs:
                st = st0.fork()
                n0 = ex.ninstr
                r = ex.call(st, '@k_prodsum', [ip, base, REGN[an], s0, a0, s1_, a1])
                ck.ninstr += ex.ninstr - n0
                ck.nstates += 1
                post = regs.snapshot(r[0])
                pa, pb = ab.PB
                if a0:
                    pa = pa >> 16
                if a1:
                    pb = pb >> 16
                svx = z3.SignExt(32, z3.Concat(R['sv'], z3.BitVecVal(0, 16)))
                c = [z3.BitVecVal(0, 64), R[af], svx, svx | 0x8000][base]
                t = (c - pa) if s0 else (c + pa)
                t = (t - pb) if s1_ else (t + pb)
                res = alu.SX40(alu.B40(t))
                exp = alu.write_acc_sat(R, af, res)
                g = [post[f] == exp[f] for f in post if f not in ('fc0', 'fv', 'fvl') and not post[f].eq(exp[f])]
                reads = [ev for ev in r[0].log if ev[0] == 'P2B']
                g.append(z3.BoolVal(len(reads) == 2 and sorted(ev[2] for ev in reads) == [0, 1]))
                for ev in reads:
                    g += [ev[3][k_] == R[k_] for k_ in ev[3] if not ev[3][k_].eq(R[k_])]
                ck.prove('ProductSum[base %d %s%sp0 %s%sp1 -> %s]' % (base, '-' if s0 else '+', '>>16 ' if a0 else '', '-' if s1_ else '+', '>>16 ' if a1 else '', an), inv + ab.axioms, z3.And(*g), vars=c03.vars_of(R, {'PB40_0': ab.PB[0], 'PB40_1': ab.PB[1]}),
                         sample='accumulate the previous products: %s := sat(base %s p0%s %s p1%s) exactly (p0,p1 = the two product-shifter reads of the pre-state), flags z/m/e/n and limit from that 40-bit value' % (an, '-' if s0 else '+', '>>16' if a0 else '', '-' if s1_ else '+', '>>16' if a1 else '') if (base, bits) in ((1, 0), (3, 10)) else None)
    return ck.export()


def job_shift(an, tier, seed):
    E = env()
    ck = core.Check('C04', 'model_checking', tier, seed)
    ex, st0, ctx = E.base()
    regs, ip = ctx['regs'], ctx['interp']
    R = E.R()
    inv = E.inv()
    v, sv = z3.BitVec('v', 64), z3.BitVec('sv', 16)
    af = alu.ACC[an]
    st = st0.fork()
    n0 = ex.ninstr
    r = ex.call(st, '@k_shift', [ip, v, sv, REGN[an]])
    ck.ninstr += ex.ninstr - n0
    ck.nstates += 1
    g, names = c03.diff_goal(regs.snapshot(r[0]), shift_model(R, v, sv, af), R)
    for lo, hi, lbl in ((0, 39, 'left 0..39'), (0xFFFF - 38, 0xFFFF, 'right 1..39')):
        ck.prove('ShiftBus40[-> %s, %s]' % (an, lbl), inv + [z3.UGE(sv, lo), z3.ULE(sv, hi)], z3.And(*g), vars=c03.vars_of(R, {'v': v, 'sv': sv}),
                 sample='shift any 40-bit value (%s): exact arithmetic/logical shift, carry = last bit out, overflow iff an arithmetic left shift loses significant bits, saturation keeps the original sign; destination %s' % (lbl, an))
    if an == 'a0':
        old = ex.unwind
        ex.unwind = 60
        st = st0.fork()
        r = ex.call(st, '@k_exp', [ip, v])
        ex.unwind = old
        g, _ = c03.diff_goal(regs.snapshot(r[0]), R, R)
        ck.prove('Exp', inv, z3.And(bv(r[1], 16) == exp_model(v), *g), vars={'v': v}, sample='Exp(v) = redundant sign bits of the 40-bit value minus 8 (loop of 39 iterations unrolled, unwinding bound 60 checked)')
    return ck.export()


# ------------------------------------------------------------------------------------------------ wiring
def job_row(i, tier, seed):
    E = env()
    ck = core.Check('C04', 'model_checking', tier, seed)
    row, form = E.rows[i], E.forms[i]
    if row['name'] != form['name']:
        ck.engine_errors.append('decoder.h row %d is %s but executed table has %s' % (i, form['name'], row['name']))
        return ck.export()
    o, e = z3.BitVec('o', 16), z3.BitVec('e', 16)
    R = E.R()
    A = E.inv() + [E.match_pred(row, o)]
    nm = row['name']
    ops = [p for p in form['ops'] if p[0] in ('at', 'const')]
    types = tuple(p[1] for p in ops)
    F = lambda k: forms.field(o, e, ops[k])
    dm0 = E.pre_dmem()
    extra = []
    skip_cv = False
    intercepts, only_fields, late, spec = {}, None, None, None
    over_acc = lambda ty, idx, fn: alu.acc_store(lambda n_: fn(alu.ACC[n_]), idx, forms.ENUMS[ty], R)

    ab = Abstract(E)
    MULP, MULPE = z3.BitVec('MULP_0', 32), z3.BitVec('MULPE_0', 16)
    want_mul = []        # (condition, unit, xs, ys, x value, y value) the row must launch

    def launch(Rin, cond, unit, xs, ys):
        want_mul.append((cond, unit, xs, ys, Rin['x[%d]' % unit], Rin['y[%d]' % unit]))
        R2 = dict(Rin)
        R2['p[%d]' % unit], R2['pe[%d]' % unit] = MULP, MULPE
        return R2

    def mulgeneric(Rin, opn, acc, cond):
        """accumulate the previous product (mac/maa variants), then launch the new multiplication"""
        R1 = Rin
        if opn not in ('Mpy', 'Mpysu'):
            prod = ab.PB[0]
            if opn in ('Maa', 'Maasu'):
                prod = prod >> 16
            res, c, ov = alu.addsub(Rin[acc], prod, False)
            R1 = alu.write_acc_sat(alu.with_cv(Rin, c, ov), acc, res)
        xs, ys = {'Mpy': (1, 1), 'Mac': (1, 1), 'Maa': (1, 1), 'Mpysu': (0, 1), 'Macsu': (0, 1), 'Maasu': (0, 1), 'Macus': (1, 0), 'Macuu': (0, 0)}[opn]
        return launch(R1, cond, 0, xs, ys)

    def over_mul(ty, idx, fn):
        names = forms.ENUMS[ty]
        posts = [(idx == k, fn(n_, idx == k)) for k, n_ in enumerate(names)]
        return c03.ite_posts(posts, R)
    if nm == 'mul_y0_r6':
        Rx = dict(R); Rx['x[0]'] = R['r[6]']
        spec = over_acc('Ax', F(1), lambda acc: over_mul('Mul3', F(0), lambda opn, cnd: mulgeneric(Rx, opn, acc, cnd)))
    elif nm == 'mul_y0' and types == ('Mul2', 'MemImm8', 'Ax'):
        Rx = dict(R); Rx['x[0]'] = z3.Select(dm0, z3.ZeroExt(8, F(1)) + (R['page'] << 8))
        spec = over_acc('Ax', F(2), lambda acc: over_mul('Mul2', F(0), lambda opn, cnd: mulgeneric(Rx, opn, acc, cnd)))
    elif nm == 'mpyi':
        Rx = dict(R); Rx['x[0]'] = z3.SignExt(8, F(0))
        spec = launch(Rx, z3.BoolVal(True), 0, 1, 1)
    elif nm == 'mac_x1to0':
        def f(acc):
            res, c, ov = alu.addsub(R[acc], ab.PB[0], False)
            R1 = alu.write_acc_sat(alu.with_cv(R, c, ov), acc, res)
            R1['x[0]'] = R['x[1]']
            return launch(R1, z3.BoolVal(True), 0, 1, 1)
        spec = over_acc('Ax', F(0), f)
    elif nm in ('shfc', 'shfi'):
        src = alu.acc_sel(R, F(0), forms.ENUMS['Ab'])
        sv = R['sv'] if nm == 'shfc' else z3.SignExt(10, F(2))
        extra = [small_sv(sv)]
        done = over_acc('Ab', F(1), lambda acc: shift_model(R, src, sv, acc))
        if nm == 'shfc':
            cond = alu.cond_pass(R, F(2))
            spec = {k: (done[k] if done[k] is R[k] else z3.If(cond, done[k], R[k])) for k in R}
        else:
            spec = done
    elif nm == 'movs_r6_to':
        extra = [small_sv(R['sv'])]
        spec = over_acc('Ax', F(0), lambda acc: shift_model(R, z3.SignExt(48, R['r[6]']), R['sv'], acc))
    elif nm == 'movs' and types == ('MemImm8', 'Ab'):
        extra = [small_sv(R['sv'])]
        val = z3.Select(dm0, z3.ZeroExt(8, F(0)) + (R['page'] << 8))
        spec = over_acc('Ab', F(1), lambda acc: shift_model(R, z3.SignExt(48, val), R['sv'], acc))
    elif nm in ('moda4', 'moda3'):
        ty = 'Moda4' if nm == 'moda4' else 'Moda3'
        acct = 'Ax' if nm == 'moda4' else 'Bx'
        shifts = {'Shr': 0xFFFF, 'Shr4': 0xFFFC, 'Shl': 1, 'Shl4': 4}
        extra = [z3.Or(*[F(0) == k for k, n_ in enumerate(forms.ENUMS[ty]) if n_ in shifts])]
        cond = alu.cond_pass(R, F(2))

        def f(acc):
            posts = [(F(0) == k, shift_model(R, R[acc], z3.BitVecVal(shifts[n_], 16), acc)) for k, n_ in enumerate(forms.ENUMS[ty]) if n_ in shifts]
            return c03.ite_posts(posts, R)
        done = over_acc(acct, F(1), f)
        spec = {k: (done[k] if done[k] is R[k] else z3.If(cond, done[k], R[k])) for k in R}
    elif nm == 'exp' and types in (('Bx',), ('Bx', 'Ax')):
        val = alu.acc_sel(R, F(0), forms.ENUMS['Bx'])
        spec = dict(R)
        spec['sv'] = exp_model(val)
        if len(types) == 2:
            sx = z3.SignExt(48, spec['sv'])
            spec = alu.acc_store(lambda n_: {**spec, alu.ACC[n_]: sx}, F(1), forms.ENUMS['Ax'], R)
    elif nm == 'exp_r6':
        spec = dict(R)
        spec['sv'] = exp_model(z3.SignExt(32, z3.Concat(R['r[6]'], z3.BitVecVal(0, 16))))
        if types == ('Ax',):
            sx = z3.SignExt(48, spec['sv'])
            spec = alu.acc_store(lambda n_: {**spec, alu.ACC[n_]: sx}, F(0), forms.ENUMS['Ax'], R)
    elif (nm == 'movs' and types == ('Rn', 'StepZIDS', 'Ab')) or (nm == 'exp' and types in (('Rn', 'StepZIDS'), ('Rn', 'StepZIDS', 'Ax'))) or nm == 'norm':
        # [Rn] operand forms: the stepper returns a fresh pre-modified value (C10 decides the stepping), the operand is the
        # data word at the address read; accumulators, flags and sv are compared, the address registers and r-zero flag are not
        only_fields = c03.ACCFLAGS + ('sv',)
        stepfn = [n for n in E.mod.funcs if 'Interpreter11RnAndModifyE' in n]
        if len(stepfn) != 1:
            ck.engine_errors.append('RnAndModify symbol not found')
            return ck.export()
        RNOLD = z3.BitVec('RNOLD_0', 16)

        def stepper(e_, st, a):
            st.log.append(('STEP', list(st.pc), a[1], a[2]))
            return st, RNOLD
        intercepts[stepfn[0]] = stepper
        if nm == 'movs':
            extra = [small_sv(R['sv'])]
            late = lambda val: over_acc('Ab', F(2), lambda acc: shift_model(R, z3.SignExt(48, val), R['sv'], acc))
        elif nm == 'exp':
            def late(val):
                sp = dict(R)
                sp['sv'] = exp_model(z3.SignExt(32, z3.Concat(val, z3.BitVecVal(0, 16))))
                if len(types) == 3:
                    sx = z3.SignExt(48, sp['sv'])
                    sp = alu.acc_store(lambda n_: {**sp, alu.ACC[n_]: sx}, F(2), forms.ENUMS['Ax'], R)
                return sp
        else:
            # norm: one normalisation step while the accumulator is not yet normalised (fn == 0): overflow iff bits 39 and 38
            # differ, carry = the bit shifted out, value <<= 1, flags of the new value; no memory operand
            def f(acc):
                a_ = R[acc]
                ov = z3.Extract(39, 39, a_) != z3.Extract(38, 38, a_)
                res = alu.SX40(alu.B40(a_ << 1))
                R2 = alu.with_cv(R, z3.Extract(39, 39, a_) == 1, ov)
                R2 = alu.write_acc_nosat(R2, acc, res)
                return {k: (R2[k] if R2[k] is R[k] else z3.If(R['fn'] == 0, R2[k], R[k])) for k in R}
            spec = over_acc('Ax', F(0), f)
    elif (nm == 'movs' and types == ('Register', 'Ab')) or nm == 'movsi' or (nm == 'exp' and types in (('Register',), ('Register', 'Ax'))):
        # register operand forms, for the plain 16-bit sources (operand.h Register order: r0..r5, r7, y0, accumulator halves,
        # sv; RnOld: r0..r5, r7, y0) and - exp only - the whole accumulators a0 / a1; p, the status words, pc/sp/lc/ext: C01
        REG = {0: R['r[0]'], 1: R['r[1]'], 2: R['r[2]'], 3: R['r[3]'], 4: R['r[4]'], 5: R['r[5]'], 6: R['r[7]'], 7: R['y[0]'],
               16: z3.Extract(31, 16, R['b[0]']), 17: z3.Extract(31, 16, R['b[1]']), 18: z3.Extract(15, 0, R['b[0]']), 19: z3.Extract(15, 0, R['b[1]']),
               26: z3.Extract(15, 0, R['a[0]']), 27: z3.Extract(15, 0, R['a[1]']), 28: z3.Extract(31, 16, R['a[0]']), 29: z3.Extract(31, 16, R['a[1]']), 31: R['sv']}
        idx = F(0)
        keys = [k_ for k_ in REG if nm != 'movsi' or k_ < 8]
        val = None
        for k_ in keys:
            val = REG[k_] if val is None else z3.If(z3.ZeroExt(16 - idx.size(), idx) == k_, REG[k_], val)
        allowed = [z3.ZeroExt(16 - idx.size(), idx) == k_ for k_ in keys]
        if nm == 'exp':
            wide = z3.If(idx == 24, R['a[0]'], z3.If(idx == 25, R['a[1]'], z3.SignExt(32, z3.Concat(val, z3.BitVecVal(0, 16)))))
            extra = [z3.Or(idx == 24, idx == 25, *allowed)]
            spec = dict(R)
            spec['sv'] = exp_model(wide)
            if len(types) == 2:
                sx = z3.SignExt(48, spec['sv'])
                spec = alu.acc_store(lambda n_: {**spec, alu.ACC[n_]: sx}, F(1), forms.ENUMS['Ax'], R)
        else:
            sv = R['sv'] if nm == 'movs' else z3.SignExt(11, F(2))
            extra = [z3.Or(*allowed), small_sv(sv)]
            spec = over_acc('Ab', F(1), lambda acc: shift_model(R, z3.SignExt(48, val), sv, acc))
    elif nm == 'mov_p1_to':
        spec = over_acc('Ab', F(0), lambda acc: alu.write_acc_sat(R, acc, ab.PB[1]))
    elif nm in ('clrp0', 'clrp1', 'clrp'):
        spec = dict(R)
        for u in ((0,) if nm == 'clrp0' else (1,) if nm == 'clrp1' else (0, 1)):
            spec['p[%d]' % u] = z3.BitVecVal(0, 32)
            spec['pe[%d]' % u] = alu.ZERO16
    else:
        return ck.export()
    extra = extra + ab.axioms
    ex_ = E.base()[0]
    ex_.intercepts.update(intercepts)
    try:
        with ab:
            r = E.run_row(i, o, e, A + extra)
    except (Abort, UnwindBound) as x:
        ck.inconclusive.append('row %d %s: %r' % (i, nm, x))
        return ck.export()
    finally:
        for n_ in intercepts:
            ex_.intercepts.pop(n_, None)
    ck.ninstr += r['ninstr']
    ck.nstates += 1
    if r['st'] is None:
        ck.prove('Wiring[%d %s]' % (i, nm), A + extra, z3.BoolVal(False), vars={'o': o, 'e': e})
        return ck.export()
    post = E.post_regs(r['st'])
    pre_goals = []
    if late is not None:
        reads = [ev for ev in r['st'].log if ev[0] == 'R']
        if len(reads) != 1:
            ck.prove('Wiring[%d %s%s]' % (i, nm, types), A + extra, z3.BoolVal(False), vars={'o': o, 'e': e})
            return ck.export()
        pre_goals.append(z3.BoolVal('RNOLD_0' in str(reads[0][2])))
        spec = late(z3.Select(dm0, reads[0][2]))
    if intercepts:
        steps = [ev for ev in r['st'].log if ev[0] == 'STEP']
        pre_goals.append(z3.BoolVal(len(steps) == 1))
    if only_fields is not None:
        post = {f: post[f] for f in only_fields}
        spec = {f: spec[f] for f in only_fields}
    g, names = c03.diff_goal(post, spec, R)
    g += pre_goals
    g.append(E.post_dmem(r['st']) == dm0)
    g.append(z3.Not(kit.exit_cond(type('X', (), {'exits': r['exits']})())))
    # the abstracted calls happened exactly as the form demands: product reads see the pre-state product registers, and the
    # new multiplication is launched on the right unit with the right sign selection and factors
    for ev in r['st'].log:
        if ev[0] == 'P2B':
            g += [z3.Implies(kit.path_cond(ev[1]), ev[3][k_] == R[k_]) for k_ in ev[3] if not ev[3][k_].eq(R[k_])]
    muls = [ev for ev in r['st'].log if ev[0] == 'MUL']
    launched = [kit.path_cond(ev[1]) for ev in muls]
    g.append(z3.AtMost(*launched, 1) if launched else z3.BoolVal(True))
    for cond, unit, xs, ys, xv, yv in want_mul:
        hits = [z3.And(kit.path_cond(ev[1]), ev[5] == xv, ev[6] == yv) for ev in muls if (ev[2], ev[3], ev[4]) == (unit, xs, ys)]
        g.append(z3.Implies(cond, z3.Or(*hits) if hits else z3.BoolVal(False)))
    if not want_mul:
        g.append(z3.Not(z3.Or(*launched)) if launched else z3.BoolVal(True))
    vars_ = c03.vars_of(R, {'o': o, 'e': e, 'PB40_0': ab.PB[0], 'PB40_1': ab.PB[1]})
    vars_.update({'exp.' + f: spec.get(f, R[f]) for f in names})
    vars_['exp.dmem_unchanged'] = z3.BoolVal(True)
    vars_.update(interp.read_vars(E, r['st']))
    ck.prove('Wiring[%d %s%s]' % (i, nm, types), A + extra, z3.And(*g), vars=vars_, replay=(interp.spec_replayer(E, i, [n_ for n_ in names if not n_.startswith('p')]) if not intercepts and not [ev for ev in r['st'].log if ev[0] in ('MUL', 'P2B')] else None),
             sample='row %d %s%s: post-state == model(pre-state) on all register fields (previous product accumulated before the new multiplication is launched / exact shift / exponent), memory unchanged' % (i, nm, types))
    return ck.export()


# ------------------------------------------------------------------------------------------------ product wiring (event level)
_REF_FORMS = None
SIGNED = {'SX': 1, 'UX': 0, 'SY': 1, 'UY': 0}
BASES = {'BZr': 0, 'BAc': 1, 'BSv': 2, 'BSr': 3}
PW_SUM = ('app', 'mov_sv_app', 'mma', 'mma_mx_xy', 'mma_xy_mx', 'mma_my_my', 'mma_mov', 'sqr_sqr_add3', 'sqr_mpysu_add3a')
PW_MUL = ('mul', 'mul_y0', 'msu', 'msusu', 'mac1')
FLAGS = ('fz', 'fm', 'fe', 'fn', 'fc0', 'fv', 'fvl', 'flm')


def _truth(x, want):
    if is_c(x):
        return z3.BoolVal(bool(x) == bool(want))
    if z3.is_bool(x):
        return x == z3.BoolVal(bool(want))
    return (x != 0) == z3.BoolVal(bool(want))


def job_pw(i, tier, seed):
    """the dual-multiplier / product-sum forms and the multiply forms with memory or register operands, at the level of
    events: which product registers are read and when, which ProductSum configuration the form's constants select, which
    accumulator receives it, and which factors / sign selections each multiplier is launched with afterwards. The
    arithmetic of ProductSum / ProductToBus40 / DoMultiplication themselves is decided by the kernels."""
    E = env()
    ck = core.Check('C04', 'model_checking', tier, seed)
    row, form = E.rows[i], E.forms[i]
    if row['name'] != form['name']:
        ck.engine_errors.append('decoder.h row %d is %s but executed table has %s' % (i, form['name'], row['name']))
        return ck.export()
    nm = row['name']
    o, e = z3.BitVec('o', 16), z3.BitVec('e', 16)
    R = E.R()
    # what the form means (operand positions, sign / base / add-sub / align constants) is read from the frozen reference
    # decoder.h when it has a row with the same name and opcode pattern (oracle R: the hardware-validated table); a row
    # the reference does not know is judged by the current tree's own declaration and that is noted.
    global _REF_FORMS
    if _REF_FORMS is None:
        _REF_FORMS = {}
        for f_ in forms.rows(build.REF):
            _REF_FORMS.setdefault((f_['name'], f_['expected']), f_)
    rform = _REF_FORMS.get((form['name'], form['expected']))
    if rform is None:
        ck.notes.append('row %d %s 0x%04x has no counterpart in the reference table: judged by its own declaration' % (i, nm, form['expected']))
    else:
        form = rform
    ops = [p for p in form['ops'] if p[0] in ('at', 'const')]
    types = tuple(p[1] for p in ops)
    cns = [p[1] for p in form['ops'] if p[0] == 'cn']
    F = lambda k: forms.field(o, e, ops[k])
    ex, st0, ctx = E.base()
    regs = ctx['regs']
    dm0 = E.pre_dmem()
    ab = Abstract(E)
    psn = [n for n in E.mod.funcs if 'Interpreter10ProductSumE' in n]
    if len(psn) != 1:
        ck.engine_errors.append('ProductSum symbol not found: %r' % psn)
        return ck.export()
    PS_ACC = z3.BitVec('PSUM_acc', 64)
    PS_FL = {f: z3.BitVec('PSUM_' + f, 16) for f in FLAGS}
    INPUTS = [('p', 0), ('p', 1), ('pe', 0), ('pe', 1), ('ps', 0), ('ps', 1), ('a', 0), ('a', 1), ('b', 0), ('b', 1), ('sv', None), ('sata', None)]
    key = lambda f, k: f if k is None else '%s[%d]' % (f, k)

    def psum(e_, st, a):
        snap = {key(f, k): regs.get(st, f, k or 0) for f, k in INPUTS}
        st.log.append(('PSUM', list(st.pc), list(a[1:7]), snap))
        accv = bv(a[2], 32) if not is_c(a[2]) else z3.BitVecVal(a[2], 32)
        for an, rn in REGN.items():
            f, k = an[0], int(an[1])
            regs.set(st, f, z3.If(accv == rn, PS_ACC, regs.get(st, f, k)), k)
        for f in FLAGS:
            regs.set(st, f, PS_FL[f])
        return st, None

    # ---- what the form demands
    dest = [k for k, p in enumerate(ops) if p[1] in ('Ax', 'Bx', 'Ab')]
    want_sum = None           # (base, sub0, align0, sub1, align1)
    want_mul = {}             # unit -> (xs, ys, x value or None, y value or None)
    rd = lambda k: ('read', k)
    pre = lambda f: ('pre', f)
    sv_from_read = False
    acc_spec = None
    if nm in PW_SUM:
        if nm.startswith('sqr'):
            want_sum = (1, 0, 0, 0, 1 if nm == 'sqr_mpysu_add3a' else 0)
            if types == ('Ab', 'Ab'):
                src = alu.acc_sel(R, F(0), forms.ENUMS['Ab'])
                hi, lo = z3.Extract(31, 16, src), z3.Extract(15, 0, src)
                want_mul = {0: (1, 1, hi, hi), 1: ((1, 1, lo, lo) if nm == 'sqr_sqr_add3' else (0, 1, lo, hi))}
            else:
                want_mul = {0: (1, 1, rd(0), rd(0)), 1: (1, 1, rd(1), rd(1))}
        else:
            b_ = [c for c in cns if c in BASES]
            sp = [c for c in cns if c in ('Add', 'Sub', 'PP', 'PA')]
            if len(b_) != 1 or len(sp) != 4:
                ck.engine_errors.append('row %d %s: product-sum constants not recognised: %r' % (i, nm, cns))
                return ck.export()
            want_sum = (BASES[b_[0]], int(sp[0] == 'Sub'), int(sp[1] == 'PA'), int(sp[2] == 'Sub'), int(sp[3] == 'PA'))
            sg = [SIGNED[c] for c in cns if c in SIGNED]
            if nm in ('app', 'mov_sv_app'):
                sv_from_read = nm == 'mov_sv_app'
            elif len(sg) != 4:
                ck.engine_errors.append('row %d %s: sign constants not recognised: %r' % (i, nm, cns))
                return ck.export()
            elif nm == 'mma' and 'ArpRn1' not in types and 'ArpRn2' not in types:
                want_mul = {0: (sg[0], sg[1], pre('x[1]'), pre('y[0]')), 1: (sg[2], sg[3], pre('x[0]'), pre('y[1]'))}
            elif nm == 'mma':
                want_mul = {0: (sg[0], sg[1], rd(0), rd(1)), 1: (sg[2], sg[3], rd(2), rd(3))}
            elif nm == 'mma_mx_xy':
                want_mul = {0: (sg[0], sg[1], pre('x[1]'), rd(0)), 1: (sg[2], sg[3], pre('x[0]'), pre('y[1]'))}
            elif nm == 'mma_xy_mx':
                want_mul = {0: (sg[0], sg[1], pre('x[1]'), pre('y[0]')), 1: (sg[2], sg[3], pre('x[0]'), rd(0))}
            elif nm == 'mma_my_my':
                want_mul = {0: (sg[0], sg[1], rd(0), pre('y[0]')), 1: (sg[2], sg[3], rd(1), pre('y[1]'))}
            elif nm == 'mma_mov':
                want_mul = {0: (sg[0], sg[1], pre('x[1]'), pre('y[0]')), 1: (sg[2], sg[3], pre('x[0]'), pre('y[1]'))}
    elif nm in PW_MUL:
        if nm == 'mul' and types == ('Mul3', 'Rn', 'StepZIDS', 'Imm16', 'Ax'):
            mop, fx = 0, (e, rd(0))
        elif nm == 'mul_y0' and types == ('Mul3', 'Rn', 'StepZIDS', 'Ax'):
            mop, fx = 0, (rd(0), pre('y[0]'))
        elif nm == 'mul_y0' and types == ('Mul3', 'Register', 'Ax'):
            mop, fx = 0, (None, pre('y[0]'))
        elif nm == 'mul' and types == ('Mul3', 'R45', 'StepZIDS', 'R0123', 'StepZIDS', 'Ax'):
            mop, fx = 0, (rd(1), rd(0))
        elif nm == 'msu' and types == ('R45', 'StepZIDS', 'R0123', 'StepZIDS', 'Ax'):
            mop, fx = None, (rd(1), rd(0))
        elif nm == 'msu' and types == ('Rn', 'StepZIDS', 'Imm16', 'Ax'):
            mop, fx = None, (e, rd(0))
        elif nm == 'msusu':
            mop, fx = None, (rd(0), pre('y[0]'))
        elif nm == 'mac1':
            mop, fx = None, (rd(0), rd(1))
        else:
            return ck.export()
        acc_spec = (mop, fx)
    else:
        return ck.export()
    if not dest:
        ck.engine_errors.append('row %d %s: no destination accumulator operand' % (i, nm))
        return ck.export()
    dk = dest[-1]
    dnames = forms.ENUMS[ops[dk][1]]
    df = F(dk)
    if is_c(df):
        want_acc = z3.BitVecVal(REGN[dnames[df]], 32)
    else:
        want_acc = z3.BitVecVal(REGN[dnames[-1]], 32)
        for k_ in range(len(dnames) - 2, -1, -1):
            want_acc = z3.If(z3.ZeroExt(16 - df.size(), df) == k_, z3.BitVecVal(REGN[dnames[k_]], 32), want_acc)

    A = E.inv() + [E.match_pred(row, o)] + ab.axioms
    if want_sum is not None:
        ex.intercepts[psn[0]] = psum
    # address generation is C10's subject: the stepper and the offset adder return fresh values here
    addrf = {}
    for tag, pat in (('RNOLD', 'Interpreter11RnAndModifyE'), ('OFFA', 'Interpreter13OffsetAddressE')):
        fn_ = [n for n in E.mod.funcs if pat in n]
        if len(fn_) != 1:
            ck.engine_errors.append('%s symbol not found' % pat)
            return ck.export()

        def fresh(e_, st, a, tag=tag):
            k = len([1 for ev in st.log if ev[0] == tag])
            ret = z3.BitVec('%s_%d' % (tag, k), 16)
            st.log.append((tag, list(st.pc)))
            return st, ret
        addrf[fn_[0]] = fresh
    ex.intercepts.update(addrf)
    try:
        with ab:
            r = E.run_row(i, o, e, A)
    except (Abort, UnwindBound) as x:
        ck.inconclusive.append('row %d %s: %r' % (i, nm, x))
        return ck.export()
    finally:
        ex.intercepts.pop(psn[0], None)
        for n_ in addrf:
            ex.intercepts.pop(n_, None)
    ck.ninstr += r['ninstr']
    ck.nstates += 1
    if r['st'] is None:
        ck.notes.append('row %d %s never returns normally' % (i, nm))
        return ck.export()
    st = r['st']
    log = st.log
    reads = [ev for ev in log if ev[0] == 'R']
    writes_before = lambda ev: [w for w in log[:log.index(ev)] if w[0] == 'W']

    def value(spec_):
        if spec_ is None:
            return None
        if isinstance(spec_, tuple) and spec_[0] == 'read':
            if spec_[1] >= len(reads):
                return False
            return z3.Select(dm0, reads[spec_[1]][2])
        if isinstance(spec_, tuple) and spec_[0] == 'pre':
            return R[spec_[1]]
        return spec_
    normal = z3.Not(kit.exit_cond(type('X', (), {'exits': r['exits']})()))
    g = []
    post = E.post_regs(st)
    muls = [ev for ev in log if ev[0] == 'MUL']
    p2bs = [ev for ev in log if ev[0] == 'P2B']
    sums = [ev for ev in log if ev[0] == 'PSUM']
    what = []
    if want_sum is not None:
        what.append('ProductSum(base %d, %sp0%s, %sp1%s) -> named accumulator, on the pre-state products' % (want_sum[0], '-' if want_sum[1] else '+', '>>16' if want_sum[2] else '', '-' if want_sum[3] else '+', '>>16' if want_sum[4] else ''))
        g.append(z3.BoolVal(len(sums) == 1))
        for ev in sums:
            a = ev[2]
            pc_ = kit.path_cond(ev[1])
            g.append(z3.Implies(normal, pc_))
            g.append((bv(a[0], 32) if not is_c(a[0]) else z3.BitVecVal(a[0], 32)) == want_sum[0])
            g.append((bv(a[1], 32) if not is_c(a[1]) else z3.BitVecVal(a[1], 32)) == want_acc)
            g += [_truth(a[2 + q], want_sum[1 + q]) for q in range(4)]
            for k_, v_ in ev[3].items():
                if k_ == 'sv' and sv_from_read:
                    g.append(z3.BoolVal(len(reads) == 1) if len(reads) != 1 else v_ == z3.Select(dm0, reads[0][2]))
                elif not v_.eq(R[k_]):
                    g.append(v_ == R[k_])
        # nothing after the sum touches the accumulator it wrote or the flags
        for an, rn in REGN.items():
            g.append(z3.Implies(want_acc == rn, post[alu.ACC[an]] == PS_ACC))
        g += [post[f] == PS_FL[f] for f in FLAGS]
        g.append(z3.BoolVal(not p2bs))
    else:
        mop, fx = acc_spec
        unit = 1 if nm == 'mac1' else 0
        names = forms.ENUMS['Mul3']

        def one(acc):
            if mop is None:
                res, c, ov = alu.addsub(R[acc], ab.PB[unit], nm != 'mac1')
                return alu.write_acc_sat(alu.with_cv(R, c, ov), acc, res), None
            posts, sgs = [], []
            for k_, opn in enumerate(names):
                R1 = R
                if opn not in ('Mpy', 'Mpysu'):
                    prod = ab.PB[0] >> 16 if opn in ('Maa', 'Maasu') else ab.PB[0]
                    res, c, ov = alu.addsub(R[acc], prod, False)
                    R1 = alu.write_acc_sat(alu.with_cv(R, c, ov), acc, res)
                posts.append((F(mop) == k_, R1))
            return c03.ite_posts(posts, R), None
        spec = alu.acc_store(lambda n_: one(alu.ACC[n_])[0], df, dnames, R)
        for f in FLAGS + ('a[0]', 'a[1]', 'b[0]', 'b[1]'):
            if not post[f].eq(spec[f]):
                g.append(post[f] == spec[f])
        for ev in p2bs:
            g.append(z3.BoolVal(is_c(ev[2]) and ev[2] == unit))
            g += [z3.Implies(kit.path_cond(ev[1]), ev[3][k_] == R[k_]) for k_ in ev[3] if not ev[3][k_].eq(R[k_])]
        if mop is None:
            sg = {'msu': (1, 1), 'msusu': (0, 1), 'mac1': (1, 1)}[nm]
            want_mul = {unit: (sg[0], sg[1], fx[0], fx[1])}
            what.append('acc := sat(acc %s p%d) with the pre-state product, then multiplier %d launched %s x %s' % ('+' if nm == 'mac1' else '-', unit, unit, 'sx' if sg[0] else 'ux', 'sy' if sg[1] else 'uy'))
        else:
            sgn = {'Mpy': (1, 1), 'Mac': (1, 1), 'Maa': (1, 1), 'Mpysu': (0, 1), 'Macsu': (0, 1), 'Maasu': (0, 1), 'Macus': (1, 0), 'Macuu': (0, 0)}
            what.append('Mul3 operation: accumulate the pre-state p0 (mac/maa variants) into the named accumulator, then launch multiplier 0 with the sign selection of the operation')
            # sign selection depends on the (symbolic) operation: one launch, signs as the operation says
            g.append(z3.BoolVal(len(muls) >= 1))
            for k_, opn in enumerate(names):
                hits = [kit.path_cond(ev[1]) for ev in muls if (ev[2], ev[3], ev[4]) == (0,) + sgn[opn]]
                g.append(z3.Implies(z3.And(normal, F(mop) == k_), z3.Or(*hits) if hits else z3.BoolVal(False)))
            g.append(z3.AtMost(*[kit.path_cond(ev[1]) for ev in muls], 1))
            for ev in muls:
                for got, wv in ((ev[5], value(fx[0])), (ev[6], value(fx[1]))):
                    if wv is False:
                        g.append(z3.BoolVal(False))
                    elif wv is not None:
                        g.append(z3.Implies(kit.path_cond(ev[1]), got == wv))
            want_mul = {}
    # launches demanded by the form: each multiplier exactly once, with the form's sign selection and factors
    if want_sum is not None or acc_spec[0] is None:
        g.append(z3.BoolVal(len(muls) == len(want_mul)))
        for u, (xs, ys, xv, yv) in want_mul.items():
            evs = [ev for ev in muls if is_c(ev[2]) and ev[2] == u]
            if len(evs) != 1:
                g.append(z3.BoolVal(False))
                continue
            ev = evs[0]
            g.append(z3.BoolVal((ev[3], ev[4]) == (xs, ys)))
            g.append(z3.Implies(normal, kit.path_cond(ev[1])))
            for got, wv in ((ev[5], value(xv)), (ev[6], value(yv))):
                if wv is False:
                    g.append(z3.BoolVal(False))
                elif wv is not None:
                    g.append(got == wv)
            if want_sum is not None:
                g.append(z3.BoolVal(log.index(ev) > log.index(sums[0])) if sums else z3.BoolVal(False))
        what.append('launches: ' + ', '.join('unit %d %s x %s' % (u, 'sx' if w[0] else 'ux', 'sy' if w[1] else 'uy') for u, w in sorted(want_mul.items())) if want_mul else 'no multiplier launched')
    vars_ = c03.vars_of(R, {'o': o, 'e': e, 'PB40_0': ab.PB[0], 'PB40_1': ab.PB[1]})
    vars_.update(interp.read_vars(E, st))
    ck.prove('ProductWiring[%d %s%s]' % (i, nm, types), A + [normal], z3.And(*g), vars=vars_,
             sample=('row %d %s%s: ' % (i, nm, types) + '; '.join(what)) if i % 7 == 0 else None)
    return ck.export()


def _dispatch(fn, args):
    return fn(*args)


def job_val(i, seed):
    return interp.validate_row(env(), i, seed, 'C04', 'model_checking')


def run(tier, seed):
    ck = core.Check('C04', 'model_checking', tier, seed)
    E = env()
    ck.funcs.update(['Interpreter::DoMultiplication', 'ProductToBus40', 'ProductSum', 'ShiftBus40', 'Exp', 'MulGeneric', 'mul_y0_r6', 'mul_y0(Mul2,MemImm8,Ax)', 'mpyi', 'mac_x1to0', 'shfc', 'shfi',
                     'movs_r6_to', 'movs(MemImm8,Ab)', 'moda4/moda3 (shr shr4 shl shl4)', 'exp(Bx)', 'exp(Bx,Ax)', 'exp_r6 (2)', 'mov_p1_to', 'clrp0/clrp1/clrp', 'app (14 rows)', 'mov_sv_app (10)', 'mma (55)', 'mma_mx_xy', 'mma_xy_mx', 'mma_my_my (12)', 'mma_mov (8)', 'sqr_sqr_add3 (2)', 'sqr_mpysu_add3a', 'mul (2)', 'mul_y0 (3)', 'msu (2)', 'msusu', 'mac1'])
    ck.assumptions += ['pre-state satisfies Inv', 'shifter model applies to shift amounts -39..39; larger amounts (boundary flags not pinned by the statement) are covered by the reference comparison C01',
                       'ProductSum: result, z/m/e/n flags and saturation are checked against the model; its combined carry/overflow flags are covered by C01 only',
                       'compositional cut: inside ProductSum and the instruction rows, ProductToBus40 is a fresh sign-extended 40-bit value per unit (proved to be read on the pre-state product registers) and DoMultiplication writes fresh product words (proved to be launched with the unit/sign selection/factors the form demands); both functions are proved against the exact-product model as kernels, half-word mode by exhaustive case split',
                       'ProductWiring[row] (app, mov_sv_app, every mma* form, sqr*, mul/mul_y0/msu/msusu/mac1 with memory or register operands): event-level - ProductSum is called once, on the pre-state product registers (mov_sv_app: after sv was loaded from the word read), with the base / add-sub / align configuration and destination the form declares; each multiplier is then launched exactly once with the declared sign selection and with the factors the form routes to it (pre-state x/y, swapped x, the n-th memory word read, the second word, halves of the source accumulator); nothing after the sum touches its accumulator or the flags. What a form declares is read from the frozen reference decoder.h (same name and opcode pattern). Address generation (RnAndModify / OffsetAddress) returns fresh values there (C10 decides it); the value of a Register source operand in mul_y0(Register) is left to C01',
                       'movs [Rn], exp [Rn] (2 forms), norm: the stepper is abstracted to a fresh pre-modified value (C10), the operand is the data word at the address read; accumulators, flags and sv are compared against the shifter / exponent / normalisation-step model', 'movs <register>, movsi, exp <register> (2 forms): modelled for the plain 16-bit register sources (and a0 / a1 for exp); p, status-word, pc/sp/lc/ext sources, cbs and the vtr forms: covered by C01 rather than this model']
    ck.bounds += ['no bound on values; Exp loop unwinding 60 (39 iterations needed, bound checked)', 'quick tier: ProductSum kernel on destinations a0 and b1 (thorough: all four)']
    ck.stubs += E.tabulated
    fam = ('mul_y0_r6', 'mul_y0', 'mpyi', 'mac_x1to0', 'shfc', 'shfi', 'movs_r6_to', 'movs', 'moda4', 'moda3', 'exp', 'exp_r6', 'mov_p1_to', 'clrp0', 'clrp1', 'clrp', 'norm', 'movsi')
    rows = [r['i'] for r in E.rows if r['name'] in fam]
    kj = [(job_mul, (u, tier, seed)) for u in (0, 1)] + [(job_prodsum, (b_, tier, seed)) for b_ in range(4)] + [(job_shift, (an, tier, seed)) for an in REGN]
    pw = [r['i'] for r in E.rows if r['name'] in PW_SUM + PW_MUL]
    res = core.pmap(_dispatch, kj) + core.pmap(job_row, [(i, tier, seed) for i in rows]) + core.pmap(job_pw, [(i, tier, seed) for i in pw]) + core.pmap(job_val, [(i, seed) for i in rows[::3]])
    for r in res:
        if '__error__' in r:
            ck.engine_errors.append(r['__error__'])
        else:
            ck.absorb(r)
    return ck.finish('multiplier, product shifter, product sum, barrel shifter and exponent decided against the model; simple-operand rows wired to it')
