"""C04 — multiplier products and barrel-shifter results follow exact arithmetic.
Kernels: the real DoMultiplication / ProductToBus40 / ProductSum / ShiftBus40 / Exp against spec/alu.py + the shifter
and exponent models below (S); wiring of the simple-operand rows of the multiply / shift / exponent families."""
import z3
from engine import build, kit, core
from engine.kit import Ptr, bv, is_c
from engine.llsym import DEAD, Abort, UnwindBound
from checks import interp, c03
from spec import alu, forms

env = c03.env
REGN = {'a0': 0, 'a1': 4, 'b0': 8, 'b1': 12}


# ------------------------------------------------------------------------------------------------ models
def shift_model(R, v64, sv16, acc):
    """barrel shifter for |sv| < 40 (statement of C04): exact shift of the 40-bit value, arithmetic or logical per the
    shift mode, carry = last bit shifted out, overflow when an arithmetic left shift loses significant bits, then
    flags and 32-bit saturation keeping the original sign."""
    v40 = z3.Extract(39, 0, v64)
    V = z3.ZeroExt(40, v40)                 # 80-bit workspace
    left = z3.Extract(15, 15, sv16) == 0
    n = z3.ZeroExt(64, z3.If(left, sv16, -sv16))            # shift distance, 80-bit
    arith = R['s'] == 0
    # left
    L = V << n
    l_res = z3.Extract(39, 0, L)
    l_carry = z3.Extract(40, 40, L) == 1
    sx = z3.SignExt(40, v40)
    l_ov = z3.Extract(79, 39, sx << n) != z3.If(z3.Extract(39, 39, l_res) == 1, z3.BitVecVal((1 << 41) - 1, 41), z3.BitVecVal(0, 41))
    # right
    r_carry = z3.Extract(0, 0, z3.LShR(V, n - 1)) == 1
    r_res = z3.If(arith, z3.Extract(39, 0, sx >> n), z3.Extract(39, 0, z3.LShR(V, n)))
    res = alu.SX40(z3.If(left, l_res, r_res))
    R2 = dict(R)
    R2['fc0'] = alu.b16(z3.If(left, l_carry, r_carry))
    fv = z3.If(arith, z3.If(left, alu.b16(l_ov), alu.ZERO16), R['fv'])
    R2['fv'] = fv
    R2['fvl'] = z3.If(z3.And(arith, left, l_ov), alu.ONE16, R['fvl'])
    R2 = alu.flags(R2, res)
    satc = z3.And(arith, R['sata'] == 0, z3.Or(fv == 1, z3.Not(alu.fits32(res))))
    R2['flm'] = z3.If(satc, alu.ONE16, R['flm'])
    R2[acc] = z3.If(satc, z3.If(z3.Extract(39, 39, v64) == 1, z3.BitVecVal(0xFFFFFFFF80000000, 64), z3.BitVecVal(0x7FFFFFFF, 64)), res)
    return R2


def small_sv(sv16):
    return z3.Or(z3.ULT(sv16, 40), z3.UGT(sv16, 0xFFFF - 39))        # -39 .. 39


def exp_model(v64):
    """left-shift count that would normalise the 40-bit value = (number of redundant sign bits) - 8, as a 16-bit word"""
    sign = z3.Extract(39, 39, v64)
    out = z3.BitVecVal((39 - 8) & 0xFFFF, 16)              # all 39 lower bits equal the sign
    for j in range(0, 39):                                # highest differing bit j wins -> iterate upwards, later overrides
        out = z3.If(z3.Extract(j, j, v64) != sign, z3.BitVecVal((38 - j - 8) & 0xFFFF, 16), out)
    return out


# ------------------------------------------------------------------------------------------------ kernels


class Abstract:
    """compositional cut (DESIGN C04 'multipliers abstracted'): inside a caller, ProductToBus40 returns a fresh
    sign-extended 40-bit value per unit and DoMultiplication writes fresh product words; both record what they were
    called with. The two functions themselves are proved against the model as kernels."""

    def __init__(s, E):
        s.E = E
        s.ex, s.st0, s.ctx = E.base()
        s.PB = [z3.BitVec('PB40_%d' % u, 64) for u in (0, 1)]
        s.axioms = [alu.SX40(alu.B40(v)) == v for v in s.PB]
        s.calls = []
        p2b = [n for n in E.mod.funcs if 'Interpreter14ProductToBus40E' in n]
        dom = [n for n in E.mod.funcs if 'Interpreter16DoMultiplicationE' in n]
        if len(p2b) != 1 or len(dom) != 1:
            raise KeyError('ProductToBus40/DoMultiplication symbols not found: %r %r' % (p2b, dom))
        s.P2B, s.DOMUL = p2b[0], dom[0]

    def __enter__(s):
        regs = s.ctx['regs']
        rl = s.E.rl

        def p2b(e, st, a):
            u = a[1]
            snap = {f: regs.get(st, f, i) for f in ('p', 'pe', 'ps') for i in (0, 1)}
            st.log.append(('P2B', list(st.pc), u, {('%s[%d]' % (f, i)): regs.get(st, f, i) for f in ('p', 'pe', 'ps') for i in (0, 1)}))
            if is_c(u):
                return st, s.PB[u & 1]
            return st, z3.If(bv(u, 16) == 0, s.PB[0], s.PB[1])

        def domul(e, st, a):
            u, xs, ys = a[1], a[2], a[3]
            if not (is_c(u) and is_c(xs) and is_c(ys)):
                raise Abort('symbolic DoMultiplication arguments')
            k = len([1 for ev in st.log if ev[0] == 'MUL'])
            P, PE = z3.BitVec('MULP_%d' % k, 32), z3.BitVec('MULPE_%d' % k, 16)
            st.log.append(('MUL', list(st.pc), u, xs, ys, regs.get(st, 'x', u), regs.get(st, 'y', u), regs.get(st, 'hwm')))
            regs.set(st, 'p', P, u)
            regs.set(st, 'pe', PE, u)
            return st, None
        s.ex.intercepts[s.P2B] = p2b
        s.ex.intercepts[s.DOMUL] = domul
        return s

    def __exit__(s, *a):
        s.ex.intercepts.pop(s.P2B, None)
        s.ex.intercepts.pop(s.DOMUL, None)


def job_mul(unit, tier, seed):
    E = env()
    ck = core.Check('C04', 'model_checking', tier, seed)
    ex, st0, ctx = E.base()
    regs, ip = ctx['regs'], ctx['interp']
    R = E.R()
    inv = E.inv()
    for xs in (0, 1):
        for ys in (0, 1):
            st = st0.fork()
            n0 = ex.ninstr
            r = ex.call(st, '@k_domul', [ip, unit, xs, ys])
            ck.ninstr += ex.ninstr - n0
            ck.nstates += 1
            post = regs.snapshot(r[0])
            p, pe = alu.multiply(R, unit, bool(xs), bool(ys))
            exp = dict(R)
            exp['p[%d]' % unit] = p
            exp['pe[%d]' % unit] = pe
            g, _ = c03.diff_goal(post, exp, R)
            for hw in range(4):      # Inv: hwm <= 3, so the split is exhaustive
                ck.prove('DoMultiplication[unit %d %s x %s hwm %d]' % (unit, 'sx' if xs else 'ux', 'sy' if ys else 'uy', hw), inv + [R['hwm'] == hw], z3.And(*g), vars=c03.vars_of(R),
                         sample='p%d:pe%d = exact 33-bit product of x%d and y%d (%s x %s, half-word mode %d applied to y), nothing else changes' % (unit, unit, unit, unit, 'signed' if xs else 'unsigned', 'signed' if ys else 'unsigned', hw) if hw == 1 else None)
    st = st0.fork()
    r = ex.call(st, '@k_p2b40', [ip, unit])
    g, _ = c03.diff_goal(regs.snapshot(r[0]), R, R)
    ck.prove('ProductToBus40[p%d]' % unit, inv, z3.And(bv(r[1], 64) == alu.product40(R, unit), *g), vars=c03.vars_of(R), sample='reading p%d applies the product shift (none, >>1, <<1, <<2) to the 33-bit product with sign extension' % unit)
    return ck.export()


def job_prodsum(base, tier, seed):
    E = env()
    ck = core.Check('C04', 'model_checking', tier, seed)
    ex, st0, ctx = E.base()
    regs, ip = ctx['regs'], ctx['interp']
    R = E.R()
    inv = E.inv()
    accs = [('a0', 'a[0]'), ('b1', 'b[1]')] if tier == 'quick' else [(k, alu.ACC[k]) for k in REGN]
    with Abstract(E) as ab:
        for bits in range(16):
            s0, a0, s1_, a1 = bits & 1, (bits >> 1) & 1, (bits >> 2) & 1, (bits >> 3) & 1
            for an, af in accs:
                st = st0.fork()
                n0 = ex.ninstr
                r = ex.call(st, '@k_prodsum', [ip, base, REGN[an], s0, a0, s1_, a1])
                ck.ninstr += ex.ninstr - n0
                ck.nstates += 1
                post = regs.snapshot(r[0])
                pa, pb = ab.PB
                if a0:
                    pa = pa >> 16
                if a1:
                    pb = pb >> 16
                svx = z3.SignExt(32, z3.Concat(R['sv'], z3.BitVecVal(0, 16)))
                c = [z3.BitVecVal(0, 64), R[af], svx, svx | 0x8000][base]
                t = (c - pa) if s0 else (c + pa)
                t = (t - pb) if s1_ else (t + pb)
                res = alu.SX40(alu.B40(t))
                exp = alu.write_acc_sat(R, af, res)
                g = [post[f] == exp[f] for f in post if f not in ('fc0', 'fv', 'fvl') and not post[f].eq(exp[f])]
                reads = [ev for ev in r[0].log if ev[0] == 'P2B']
                g.append(z3.BoolVal(len(reads) == 2 and sorted(ev[2] for ev in reads) == [0, 1]))
                for ev in reads:
                    g += [ev[3][k_] == R[k_] for k_ in ev[3] if not ev[3][k_].eq(R[k_])]
                ck.prove('ProductSum[base %d %s%sp0 %s%sp1 -> %s]' % (base, '-' if s0 else '+', '>>16 ' if a0 else '', '-' if s1_ else '+', '>>16 ' if a1 else '', an), inv + ab.axioms, z3.And(*g), vars=c03.vars_of(R, {'PB40_0': ab.PB[0], 'PB40_1': ab.PB[1]}),
                         sample='accumulate the previous products: %s := sat(base %s p0%s %s p1%s) exactly (p0,p1 = the two product-shifter reads of the pre-state), flags z/m/e/n and limit from that 40-bit value' % (an, '-' if s0 else '+', '>>16' if a0 else '', '-' if s1_ else '+', '>>16' if a1 else '') if (base, bits) in ((1, 0), (3, 10)) else None)
    return ck.export()


def job_shift(an, tier, seed):
    E = env()
    ck = core.Check('C04', 'model_checking', tier, seed)
    ex, st0, ctx = E.base()
    regs, ip = ctx['regs'], ctx['interp']
    R = E.R()
    inv = E.inv()
    v, sv = z3.BitVec('v', 64), z3.BitVec('sv', 16)
    af = alu.ACC[an]
    st = st0.fork()
    n0 = ex.ninstr
    r = ex.call(st, '@k_shift', [ip, v, sv, REGN[an]])
    ck.ninstr += ex.ninstr - n0
    ck.nstates += 1
    g, names = c03.diff_goal(regs.snapshot(r[0]), shift_model(R, v, sv, af), R)
    for lo, hi, lbl in ((0, 39, 'left 0..39'), (0xFFFF - 38, 0xFFFF, 'right 1..39')):
        ck.prove('ShiftBus40[-> %s, %s]' % (an, lbl), inv + [z3.UGE(sv, lo), z3.ULE(sv, hi)], z3.And(*g), vars=c03.vars_of(R, {'v': v, 'sv': sv}),
                 sample='shift any 40-bit value (%s): exact arithmetic/logical shift, carry = last bit out, overflow iff an arithmetic left shift loses significant bits, saturation keeps the original sign; destination %s' % (lbl, an))
    if an == 'a0':
        old = ex.unwind
        ex.unwind = 60
        st = st0.fork()
        r = ex.call(st, '@k_exp', [ip, v])
        ex.unwind = old
        g, _ = c03.diff_goal(regs.snapshot(r[0]), R, R)
        ck.prove('Exp', inv, z3.And(bv(r[1], 16) == exp_model(v), *g), vars={'v': v}, sample='Exp(v) = redundant sign bits of the 40-bit value minus 8 (loop of 39 iterations unrolled, unwinding bound 60 checked)')
    return ck.export()


# ------------------------------------------------------------------------------------------------ wiring
def job_row(i, tier, seed):
    E = env()
    ck = core.Check('C04', 'model_checking', tier, seed)
    row, form = E.rows[i], E.forms[i]
    if row['name'] != form['name']:
        ck.engine_errors.append('decoder.h row %d is %s but executed table has %s' % (i, form['name'], row['name']))
        return ck.export()
    o, e = z3.BitVec('o', 16), z3.BitVec('e', 16)
    R = E.R()
    A = E.inv() + [E.match_pred(row, o)]
    nm = row['name']
    ops = [p for p in form['ops'] if p[0] in ('at', 'const')]
    types = tuple(p[1] for p in ops)
    F = lambda k: forms.field(o, e, ops[k])
    dm0 = E.pre_dmem()
    extra = []
    skip_cv = False
    over_acc = lambda ty, idx, fn: alu.acc_store(lambda n_: fn(alu.ACC[n_]), idx, forms.ENUMS[ty], R)

    ab = Abstract(E)
    MULP, MULPE = z3.BitVec('MULP_0', 32), z3.BitVec('MULPE_0', 16)
    want_mul = []        # (condition, unit, xs, ys, x value, y value) the row must launch

    def launch(Rin, cond, unit, xs, ys):
        want_mul.append((cond, unit, xs, ys, Rin['x[%d]' % unit], Rin['y[%d]' % unit]))
        R2 = dict(Rin)
        R2['p[%d]' % unit], R2['pe[%d]' % unit] = MULP, MULPE
        return R2

    def mulgeneric(Rin, opn, acc, cond):
        """accumulate the previous product (mac/maa variants), then launch the new multiplication"""
        R1 = Rin
        if opn not in ('Mpy', 'Mpysu'):
            prod = ab.PB[0]
            if opn in ('Maa', 'Maasu'):
                prod = prod >> 16
            res, c, ov = alu.addsub(Rin[acc], prod, False)
            R1 = alu.write_acc_sat(alu.with_cv(Rin, c, ov), acc, res)
        xs, ys = {'Mpy': (1, 1), 'Mac': (1, 1), 'Maa': (1, 1), 'Mpysu': (0, 1), 'Macsu': (0, 1), 'Maasu': (0, 1), 'Macus': (1, 0), 'Macuu': (0, 0)}[opn]
        return launch(R1, cond, 0, xs, ys)

    def over_mul(ty, idx, fn):
        names = forms.ENUMS[ty]
        posts = [(idx == k, fn(n_, idx == k)) for k, n_ in enumerate(names)]
        return c03.ite_posts(posts, R)
    if nm == 'mul_y0_r6':
        Rx = dict(R); Rx['x[0]'] = R['r[6]']
        spec = over_acc('Ax', F(1), lambda acc: over_mul('Mul3', F(0), lambda opn, cnd: mulgeneric(Rx, opn, acc, cnd)))
    elif nm == 'mul_y0' and types == ('Mul2', 'MemImm8', 'Ax'):
        Rx = dict(R); Rx['x[0]'] = z3.Select(dm0, z3.ZeroExt(8, F(1)) + (R['page'] << 8))
        spec = over_acc('Ax', F(2), lambda acc: over_mul('Mul2', F(0), lambda opn, cnd: mulgeneric(Rx, opn, acc, cnd)))
    elif nm == 'mpyi':
        Rx = dict(R); Rx['x[0]'] = z3.SignExt(8, F(0))
        spec = launch(Rx, z3.BoolVal(True), 0, 1, 1)
    elif nm == 'mac_x1to0':
        def f(acc):
            res, c, ov = alu.addsub(R[acc], ab.PB[0], False)
            R1 = alu.write_acc_sat(alu.with_cv(R, c, ov), acc, res)
            R1['x[0]'] = R['x[1]']
            return launch(R1, z3.BoolVal(True), 0, 1, 1)
        spec = over_acc('Ax', F(0), f)
    elif nm in ('shfc', 'shfi'):
        src = alu.acc_sel(R, F(0), forms.ENUMS['Ab'])
        sv = R['sv'] if nm == 'shfc' else z3.SignExt(10, F(2))
        extra = [small_sv(sv)]
        done = over_acc('Ab', F(1), lambda acc: shift_model(R, src, sv, acc))
        if nm == 'shfc':
            cond = alu.cond_pass(R, F(2))
            spec = {k: (done[k] if done[k] is R[k] else z3.If(cond, done[k], R[k])) for k in R}
        else:
            spec = done
    elif nm == 'movs_r6_to':
        extra = [small_sv(R['sv'])]
        spec = over_acc('Ax', F(0), lambda acc: shift_model(R, z3.SignExt(48, R['r[6]']), R['sv'], acc))
    elif nm == 'movs' and types == ('MemImm8', 'Ab'):
        extra = [small_sv(R['sv'])]
        val = z3.Select(dm0, z3.ZeroExt(8, F(0)) + (R['page'] << 8))
        spec = over_acc('Ab', F(1), lambda acc: shift_model(R, z3.SignExt(48, val), R['sv'], acc))
    elif nm in ('moda4', 'moda3'):
        ty = 'Moda4' if nm == 'moda4' else 'Moda3'
        acct = 'Ax' if nm == 'moda4' else 'Bx'
        shifts = {'Shr': 0xFFFF, 'Shr4': 0xFFFC, 'Shl': 1, 'Shl4': 4}
        extra = [z3.Or(*[F(0) == k for k, n_ in enumerate(forms.ENUMS[ty]) if n_ in shifts])]
        cond = alu.cond_pass(R, F(2))

        def f(acc):
            posts = [(F(0) == k, shift_model(R, R[acc], z3.BitVecVal(shifts[n_], 16), acc)) for k, n_ in enumerate(forms.ENUMS[ty]) if n_ in shifts]
            return c03.ite_posts(posts, R)
        done = over_acc(acct, F(1), f)
        spec = {k: (done[k] if done[k] is R[k] else z3.If(cond, done[k], R[k])) for k in R}
    elif nm == 'exp' and types in (('Bx',), ('Bx', 'Ax')):
        val = alu.acc_sel(R, F(0), forms.ENUMS['Bx'])
        spec = dict(R)
        spec['sv'] = exp_model(val)
        if len(types) == 2:
            sx = z3.SignExt(48, spec['sv'])
            spec = alu.acc_store(lambda n_: {**spec, alu.ACC[n_]: sx}, F(1), forms.ENUMS['Ax'], R)
    elif nm == 'exp_r6':
        spec = dict(R)
        spec['sv'] = exp_model(z3.SignExt(32, z3.Concat(R['r[6]'], z3.BitVecVal(0, 16))))
        if types == ('Ax',):
            sx = z3.SignExt(48, spec['sv'])
            spec = alu.acc_store(lambda n_: {**spec, alu.ACC[n_]: sx}, F(0), forms.ENUMS['Ax'], R)
    elif nm == 'mov_p1_to':
        spec = over_acc('Ab', F(0), lambda acc: alu.write_acc_sat(R, acc, ab.PB[1]))
    elif nm in ('clrp0', 'clrp1', 'clrp'):
        spec = dict(R)
        for u in ((0,) if nm == 'clrp0' else (1,) if nm == 'clrp1' else (0, 1)):
            spec['p[%d]' % u] = z3.BitVecVal(0, 32)
            spec['pe[%d]' % u] = alu.ZERO16
    else:
        return ck.export()
    extra = extra + ab.axioms
    try:
        with ab:
            r = E.run_row(i, o, e, A + extra)
    except (Abort, UnwindBound) as x:
        ck.inconclusive.append('row %d %s: %r' % (i, nm, x))
        return ck.export()
    ck.ninstr += r['ninstr']
    ck.nstates += 1
    if r['st'] is None:
        ck.prove('Wiring[%d %s]' % (i, nm), A + extra, z3.BoolVal(False), vars={'o': o, 'e': e})
        return ck.export()
    post = E.post_regs(r['st'])
    g, names = c03.diff_goal(post, spec, R)
    g.append(E.post_dmem(r['st']) == dm0)
    g.append(z3.Not(kit.exit_cond(type('X', (), {'exits': r['exits']})())))
    # the abstracted calls happened exactly as the form demands: product reads see the pre-state product registers, and the
    # new multiplication is launched on the right unit with the right sign selection and factors
    for ev in r['st'].log:
        if ev[0] == 'P2B':
            g += [z3.Implies(kit.path_cond(ev[1]), ev[3][k_] == R[k_]) for k_ in ev[3] if not ev[3][k_].eq(R[k_])]
    muls = [ev for ev in r['st'].log if ev[0] == 'MUL']
    launched = [kit.path_cond(ev[1]) for ev in muls]
    g.append(z3.AtMost(*launched, 1) if launched else z3.BoolVal(True))
    for cond, unit, xs, ys, xv, yv in want_mul:
        hits = [z3.And(kit.path_cond(ev[1]), ev[5] == xv, ev[6] == yv) for ev in muls if (ev[2], ev[3], ev[4]) == (unit, xs, ys)]
        g.append(z3.Implies(cond, z3.Or(*hits) if hits else z3.BoolVal(False)))
    if not want_mul:
        g.append(z3.Not(z3.Or(*launched)) if launched else z3.BoolVal(True))
    vars_ = c03.vars_of(R, {'o': o, 'e': e, 'PB40_0': ab.PB[0], 'PB40_1': ab.PB[1]})
    vars_.update({'exp.' + f: spec.get(f, R[f]) for f in names})
    vars_['exp.dmem_unchanged'] = z3.BoolVal(True)
    vars_.update(interp.read_vars(E, r['st']))
    ck.prove('Wiring[%d %s%s]' % (i, nm, types), A + extra, z3.And(*g), vars=vars_, replay=(interp.spec_replayer(E, i, [n_ for n_ in names if not n_.startswith('p')]) if not [ev for ev in r['st'].log if ev[0] in ('MUL', 'P2B')] else None),
             sample='row %d %s%s: post-state == model(pre-state) on all register fields (previous product accumulated before the new multiplication is launched / exact shift / exponent), memory unchanged' % (i, nm, types))
    return ck.export()


def _dispatch(fn, args):
    return fn(*args)


def job_val(i, seed):
    return interp.validate_row(env(), i, seed, 'C04', 'model_checking')


def run(tier, seed):
    ck = core.Check('C04', 'model_checking', tier, seed)
    E = env()
    ck.funcs.update(['Interpreter::DoMultiplication', 'ProductToBus40', 'ProductSum', 'ShiftBus40', 'Exp', 'MulGeneric', 'mul_y0_r6', 'mul_y0(Mul2,MemImm8,Ax)', 'mpyi', 'mac_x1to0', 'shfc', 'shfi',
                     'movs_r6_to', 'movs(MemImm8,Ab)', 'moda4/moda3 (shr shr4 shl shl4)', 'exp(Bx)', 'exp(Bx,Ax)', 'exp_r6 (2)', 'mov_p1_to', 'clrp0/clrp1/clrp'])
    ck.assumptions += ['pre-state satisfies Inv', 'shifter model applies to shift amounts -39..39; larger amounts (boundary flags not pinned by the statement) are covered by the reference comparison C01',
                       'ProductSum: result, z/m/e/n flags and saturation are checked against the model; its combined carry/overflow flags are covered by C01 only',
                       'compositional cut: inside ProductSum and the instruction rows, ProductToBus40 is a fresh sign-extended 40-bit value per unit (proved to be read on the pre-state product registers) and DoMultiplication writes fresh product words (proved to be launched with the unit/sign selection/factors the form demands); both functions are proved against the exact-product model as kernels, half-word mode by exhaustive case split',
                       'rows whose operands come through Register / [Rn] / ar-arp addressing (mul, msu, mma*, sqr*, norm, movs(Rn), movsi, exp(Rn), exp(Register)) are covered by C01 and C10 rather than this model']
    ck.bounds += ['no bound on values; Exp loop unwinding 60 (39 iterations needed, bound checked)', 'quick tier: ProductSum kernel on destinations a0 and b1 (thorough: all four)']
    ck.stubs += E.tabulated
    fam = ('mul_y0_r6', 'mul_y0', 'mpyi', 'mac_x1to0', 'shfc', 'shfi', 'movs_r6_to', 'movs', 'moda4', 'moda3', 'exp', 'exp_r6', 'mov_p1_to', 'clrp0', 'clrp1', 'clrp')
    rows = [r['i'] for r in E.rows if r['name'] in fam]
    kj = [(job_mul, (u, tier, seed)) for u in (0, 1)] + [(job_prodsum, (b_, tier, seed)) for b_ in range(4)] + [(job_shift, (an, tier, seed)) for an in REGN]
    res = core.pmap(_dispatch, kj) + core.pmap(job_row, [(i, tier, seed) for i in rows]) + core.pmap(job_val, [(i, seed) for i in rows[::3]])
    for r in res:
        if '__error__' in r:
            ck.engine_errors.append(r['__error__'])
        else:
            ck.absorb(r)
    return ck.finish('multiplier, product shifter, product sum, barrel shifter and exponent decided against the model; simple-operand rows wired to it')
