"""C14 — APBP mailboxes and semaphores follow the documented handshake.
Real code: every Apbp method (src/apbp.cpp, incl. DataChannel and the mutex-guarded bodies) executed symbolically from
an arbitrary mailbox/semaphore state satisfying J: signal == ((semaphore & ~mask) != 0); oracle: apbp.md (S)."""
import z3, random
from engine import build, kit, core, native
from engine.kit import Ptr, bv

CH = ['ready', 'data', 'disable_interrupt']
SEM = ['semaphore', 'semaphore_mask', 'semaphore_master_signal']


class Env:
    def __init__(s):
        ll, s.hash = build.compile_ir('h_apbp.cpp')
        s.mod = build.load_module(ll)
        L = kit.layout()
        s.dc, s.impl = L['DataChannel'], L['Impl']
        s.twin = None

    def names(s):
        return ['ch%d.%s' % (c, f) for c in range(3) for f in CH] + SEM

    def mk(s):
        ex, st = kit.new_exec(s.mod)
        impl = kit.Obj(ex, st, s.impl, 'apbp_impl', prefix='s', only=SEM)
        ap = ex.new_region(st, 8, 'apbp')
        ex.store(st, Ptr(ap, 0), 8, impl.ptr)
        s_ = {}
        dco, dcs = s.impl['data_channels'][0], s.dc['_size'][0]
        for c in range(3):
            for f in CH:
                off, sz, _, _ = s.dc[f]
                v = z3.BitVec('ch%d.%s' % (c, f), 8 * sz)
                ex.store(st, Ptr(impl.rid, dco + c * dcs + off), sz, v)
                s_['ch%d.%s' % (c, f)] = v
            # handler present: std::function::_M_manager (offset 16) non-null
            ex.store(st, Ptr(impl.rid, dco + c * dcs + s.dc['handler'][0] + 16), 8, Ptr('F', 1))
        ex.store(st, Ptr(impl.rid, s.impl['semaphore_handler'][0] + 16), 8, Ptr('F', 1))
        for f in SEM:
            s_[f] = impl.vars[f]
        # zero the mutex storage (never inspected: pthread_mutex_* are stubs)
        for nm, lay, base in [('mutex', s.dc, dco + c * dcs) for c in range(3)] + [('semaphore_mutex', s.impl, 0)]:
            ex.fill(st, Ptr(impl.rid, base + lay[nm][0]), lay[nm][1], 0)

        def handler(e, st_, a):
            p = a[0]
            if p.o == s.impl['semaphore_handler'][0]:
                who = 3
            else:
                who = (p.o - dco - s.dc['handler'][0]) // dcs
            st_.log.append(('H%d' % who, list(st_.pc)))
            return st_, None
        for n in s.mod.funcs:
            if n.endswith('functionIFvvEEclEv'):
                ex.intercepts[n] = handler
        ex.intercepts['@__libc_single_threaded'] = None
        return ex, st, Ptr(ap, 0), impl, s_

    def read(s, ex, st, impl):
        out = {}
        dco, dcs = s.impl['data_channels'][0], s.dc['_size'][0]
        for c in range(3):
            for f in CH:
                off, sz, _, _ = s.dc[f]
                out['ch%d.%s' % (c, f)] = bv(ex.load(st, Ptr(impl.rid, dco + c * dcs + off), sz), 8 * sz)
        for f in SEM:
            out[f] = impl.get(st, f)
        return out

    def run_native(s, state, op, args):
        import ctypes
        if s.twin is None:
            s.twin = native.Twin(build.compile_so('h_apbp.cpp'))
        tw = s.twin
        dco, dcs = s.impl['data_channels'][0], s.dc['_size'][0]

        def body():
            a = tw.fn('aw_new', ctypes.c_void_p, [])()
            impl = tw.fn('aw_impl', ctypes.c_void_p, [ctypes.c_void_p])(a)
            for c in range(3):
                for f in CH:
                    off, sz, _, _ = s.dc[f]
                    ctypes.memmove(impl + dco + c * dcs + off, int(state['ch%d.%s' % (c, f)]).to_bytes(sz, 'little'), sz)
            for f in SEM:
                native.poke(impl, s.impl, f, state[f])
            tw.fn('aw_ev_clear', None, [])()
            f_ = tw.fn('ap_' + op, ctypes.c_uint32, [ctypes.c_void_p] + [ctypes.c_uint32] * len(args))
            ret = f_(a, *args) & 0xFFFF
            out = {}
            for c in range(3):
                for f in CH:
                    off, sz, _, _ = s.dc[f]
                    out['ch%d.%s' % (c, f)] = int.from_bytes(ctypes.string_at(impl + dco + c * dcs + off, sz), 'little')
            for f in SEM:
                out[f] = native.peek(impl, s.impl, f)
            ev = tw.fn('aw_ev', ctypes.c_int, [ctypes.c_int])
            out['events'] = [ev(i) for i in range(4)]
            out['ret'] = ret
            return out
        return native.in_child(body)


def J(v):
    return (v['semaphore_master_signal'] != 0) == ((v['semaphore'] & ~v['semaphore_mask']) != 0)


def run(tier, seed):
    ck = core.Check('C14', 'model_checking', tier, seed)
    env = Env()
    ck.funcs.update('Teakra::Apbp::' + n for n in ('SendData', 'RecvData', 'PeekData', 'IsDataReady', 'GetDisableInterrupt', 'SetDisableInterrupt',
                                                   'SetSemaphore', 'ClearSemaphore', 'GetSemaphore', 'MaskSemaphore', 'GetSemaphoreMask', 'IsSemaphoreSignaled', 'Reset'))
    ck.funcs.update(['Teakra::DataChannel::Send/Recv/Peek/IsReady/GetDisableInterrupt/SetDisableInterrupt/Reset', 'std::lock_guard ctor/dtor (real libstdc++ code down to pthread_mutex_lock/unlock stubs)'])
    ck.assumptions += ['pre-state satisfies J: signal == ((semaphore & ~mask) != 0) and bool bytes in {0,1}; J is re-established by every operation (obligation), so it holds along every history starting from Reset',
                       'handlers installed (as Teakra::Impl does); handler std::function call modelled as an event', 'channel index in {0,1,2} (enumerated)']
    ck.stubs += ['pthread_mutex_lock/unlock -> 0', 'std::function<void()>::operator() -> handler event tagged by which std::function object it is']
    ck.bounds += ['one operation from an arbitrary state (all 16-bit data/semaphore/mask values, all flag combinations); sequences by one-step induction on J (paper)']
    val = z3.BitVec('arg', 16)
    one8 = lambda x: z3.ULE(x, 1)

    def setup():
        ex, st, ap, impl, v = env.mk()
        A = [J(v), one8(v['semaphore_master_signal'])] + [one8(v['ch%d.ready' % c]) for c in range(3)]
        return ex, st, ap, impl, v, A

    def finish(name, ex, st0, r, impl, v, A, exp, ret_exp, events_exp, op, args, sample):
        """events_exp: {who: Bool 'must fire'} - exactly those fire (once)."""
        st1, ret = r
        ck.ninstr += ex.ninstr
        ck.nstates += 1
        post = env.read(ex, st1, impl)
        d, _ = kit.differs(post, exp)
        goals = [z3.Not(d), z3.Not(kit.exit_cond(ex)), J(post)]
        if ret_exp is not None:
            rbits = 16 if not z3.is_bool(ret_exp) else 1
            if z3.is_bool(ret_exp):
                goals.append((bv(ret, 8) != 0) == ret_exp if not z3.is_bool(ret) else ret == ret_exp)
            else:
                goals.append(bv(ret, 16) == ret_exp)
        vars_ = dict(v)
        vars_['arg'] = val
        for w in range(4):
            got = kit.any_event(st1, 'H%d' % w)
            must, may = events_exp.get(w, (z3.BoolVal(False), z3.BoolVal(False)))
            goals.append(z3.Implies(must, got))
            goals.append(z3.Implies(got, z3.Or(must, may)))
            goals.append(z3.ULE(kit.count_events(st1, 'H%d' % w), 1))
            vars_['must_fire%d' % w] = must
            vars_['may_fire%d' % w] = z3.Or(must, may)
        for k_, x in exp.items():
            vars_['exp.' + k_] = x
        if ret_exp is not None:
            vars_['exp.ret'] = ret_exp

        def rp(inputs):
            state = {n: inputs[n] for n in env.names()}
            o = env.run_native(state, op, [a if isinstance(a, int) else inputs['arg'] for a in args])
            if o[0] != 'ok':
                return True, {'native': o}
            o = o[1]
            bad = [n for n in env.names() if o[n] != inputs['exp.' + n]]
            if 'exp.ret' in inputs and (o['ret'] & 0xFFFF) != int(inputs['exp.ret']):
                bad.append('ret')
            for w in range(4):
                if inputs['must_fire%d' % w] and o['events'][w] < 1:
                    bad.append('handler %d did not fire' % w)
                if o['events'][w] and not inputs['may_fire%d' % w]:
                    bad.append('handler %d fired' % w)
            jn = (o['semaphore_master_signal'] != 0) == ((o['semaphore'] & ~o['semaphore_mask'] & 0xFFFF) != 0)
            if not jn:
                bad.append('J broken: signal=%d semaphore=%#x mask=%#x' % (o['semaphore_master_signal'], o['semaphore'], o['semaphore_mask']))
            return bool(bad), {'native': o, 'why': bad}
        ck.prove(name, A, z3.And(*goals), vars=vars_, replay=rp, sample=sample)

    F, T = z3.BoolVal(False), z3.BoolVal(True)
    for c in range(3):
        p = 'ch%d.' % c
        # Send
        ex, st, ap, impl, v, A = setup()
        r = ex.call(st, '@ap_send', [ap, c, val])
        exp = dict(v); exp[p + 'ready'] = z3.BitVecVal(1, 8); exp[p + 'data'] = val
        finish('SendData[%d]' % c, ex, st, r, impl, v, A, exp, None, {c: (v[p + 'disable_interrupt'] == 0, F)}, 'send', [c, 'arg'],
               'SendData(%d, d): ready:=1, data:=d, handler %d fires exactly once iff its disable word is 0, nothing else changes' % (c, c))
        # Recv
        ex, st, ap, impl, v, A = setup()
        r = ex.call(st, '@ap_recv', [ap, c])
        exp = dict(v); exp[p + 'ready'] = z3.BitVecVal(0, 8)
        finish('RecvData[%d]' % c, ex, st, r, impl, v, A, exp, v[p + 'data'], {}, 'recv', [c], 'RecvData(%d) returns the last data and clears ready; no handler' % c)
        for nm, fn, rexp in (('PeekData', 'peek', v[p + 'data']), ('IsDataReady', 'ready', None), ('GetDisableInterrupt', 'getdis', None)):
            ex, st, ap, impl, v, A = setup()
            r = ex.call(st, '@ap_' + fn, [ap, c])
            rexp = {'peek': v[p + 'data'], 'ready': v[p + 'ready'] != 0, 'getdis': v[p + 'disable_interrupt']}[fn]
            finish('%s[%d]' % (nm, c), ex, st, r, impl, v, A, dict(v), rexp, {}, fn, [c], '%s(%d) is a pure read' % (nm, c))
        ex, st, ap, impl, v, A = setup()
        r = ex.call(st, '@ap_setdis', [ap, c, val])
        exp = dict(v); exp[p + 'disable_interrupt'] = val
        finish('SetDisableInterrupt[%d]' % c, ex, st, r, impl, v, A, exp, None, {}, 'setdis', [c, 'arg'], 'only the disable word changes')

    def sig(sem, mask):
        return z3.If((sem & ~mask) != 0, z3.BitVecVal(1, 8), z3.BitVecVal(0, 8))
    # SetSemaphore
    ex, st, ap, impl, v, A = setup()
    r = ex.call(st, '@ap_setsem', [ap, val])
    exp = dict(v); exp['semaphore'] = v['semaphore'] | val; exp['semaphore_master_signal'] = sig(exp['semaphore'], v['semaphore_mask'])
    rises = z3.And(v['semaphore_master_signal'] == 0, exp['semaphore_master_signal'] == 1)
    stays1 = z3.And(v['semaphore_master_signal'] != 0, exp['semaphore_master_signal'] == 1)
    finish('SetSemaphore', ex, st, r, impl, v, A, exp, None, {3: (rises, stays1)}, 'setsem', ['arg'],
           'SetSemaphore(b): semaphore |= b; signal == ((semaphore & ~mask) != 0); handler fires when the signal rises, never while it stays 0')
    ex, st, ap, impl, v, A = setup()
    r = ex.call(st, '@ap_clearsem', [ap, val])
    exp = dict(v); exp['semaphore'] = v['semaphore'] & ~val; exp['semaphore_master_signal'] = sig(exp['semaphore'], v['semaphore_mask'])
    finish('ClearSemaphore', ex, st, r, impl, v, A, exp, None, {}, 'clearsem', ['arg'], 'ClearSemaphore(b): semaphore &= ~b; signal recomputed; no handler')
    ex, st, ap, impl, v, A = setup()
    r = ex.call(st, '@ap_mask', [ap, val])
    exp = dict(v); exp['semaphore_mask'] = val; exp['semaphore_master_signal'] = sig(v['semaphore'], val)
    rises = z3.And(v['semaphore_master_signal'] == 0, exp['semaphore_master_signal'] == 1)
    stays1 = z3.And(v['semaphore_master_signal'] != 0, exp['semaphore_master_signal'] == 1)
    finish('MaskSemaphore', ex, st, r, impl, v, A, exp, None, {3: (rises, stays1)}, 'mask', ['arg'],
           'MaskSemaphore(m): mask := m; the signal follows immediately (apbp.md) and the handler fires if it rises')
    for nm, fn, rexp in (('GetSemaphore', 'getsem', 'semaphore'), ('GetSemaphoreMask', 'getmask', 'semaphore_mask'), ('IsSemaphoreSignaled', 'signaled', None)):
        ex, st, ap, impl, v, A = setup()
        r = ex.call(st, '@ap_' + fn, [ap])
        finish(nm, ex, st, r, impl, v, A, dict(v), v[rexp] if rexp else (v['semaphore_master_signal'] != 0), {}, fn, [], nm + ' is a pure read')
    # Reset: all modelled state except handlers/disable words -> initial; result independent of pre-state
    ex, st, ap, impl, v, A = setup()
    r = ex.call(st, '@ap_reset', [ap])
    exp = {n: z3.BitVecVal(0, x.size()) for n, x in v.items()}
    for c in range(3):
        exp['ch%d.disable_interrupt' % c] = v['ch%d.disable_interrupt' % c]   # C17 finding, not part of C14
    finish('Reset', ex, st, r, impl, v, [], exp, None, {}, 'reset', [], 'Reset clears ready/data/semaphore/mask/signal (the disable words are examined by C17)')

    # translator validation
    rnd = random.Random(seed)
    ops = [('send', 2), ('recv', 1), ('peek', 1), ('ready', 1), ('setdis', 2), ('setsem', 1), ('clearsem', 1), ('mask', 1), ('getsem', 0), ('signaled', 0)]
    for i in range(30 if tier == 'quick' else 150):
        state = {}
        for c in range(3):
            state['ch%d.ready' % c] = rnd.randrange(2); state['ch%d.data' % c] = rnd.randrange(65536); state['ch%d.disable_interrupt' % c] = rnd.choice([0, 0, 1, 0x100])
        state['semaphore'] = rnd.choice([0, rnd.randrange(65536)]); state['semaphore_mask'] = rnd.choice([0, 0xFFFF, rnd.randrange(65536)])
        state['semaphore_master_signal'] = int((state['semaphore'] & ~state['semaphore_mask'] & 0xFFFF) != 0)
        op, na = rnd.choice(ops)
        args = ([rnd.randrange(3)] if op in ('send', 'recv', 'peek', 'ready', 'setdis') else []) + ([rnd.randrange(65536)] if op in ('send', 'setdis', 'setsem', 'clearsem', 'mask') else [])
        ex, st, ap, impl, v = env.mk()
        dco, dcs = env.impl['data_channels'][0], env.dc['_size'][0]
        for c in range(3):
            for f in CH:
                off, sz, _, _ = env.dc[f]
                ex.store(st, Ptr(impl.rid, dco + c * dcs + off), sz, state['ch%d.%s' % (c, f)])
        for f in SEM:
            impl.set(st, f, state[f])
        r = ex.call(st, '@ap_' + op, [ap] + args)
        got = env.read(ex, r[0], impl)
        got = {k_: z3.simplify(x).as_long() for k_, x in got.items()}
        ret = r[1]
        if z3.is_expr(ret):
            ret = z3.simplify(ret)
            ret = (1 if z3.is_true(ret) else 0) if z3.is_bool(ret) else ret.as_long()
        nat = env.run_native(state, op, args)
        evs = [len([e for e in r[0].log if e[0] == 'H%d' % w]) for w in range(4)]
        if nat[0] != 'ok' or any(nat[1][n] != got[n] for n in env.names()) or nat[1]['events'] != evs or (ret is not None and (nat[1]['ret'] & 0xFFFF) != (ret & 0xFFFF)):
            ck.engine_errors.append('translator validation mismatch: %s%r state=%r exec=%r/%r/%r native=%r' % (op, args, state, got, evs, ret, nat))
        else:
            ck.validated += 1
    return ck.finish('every Apbp operation decided against the apbp.md handshake from an arbitrary state satisfying J')
