"""C12 — MMIO registers hold what was written and do not alias one another.
The real MMIORegion closure table (built by executing the real Teakra::Impl constructor inside the executor) is driven
through MMIORegion::Write/Read for every one of the 0x800 offsets with a symbolic value, from a state whose peripheral
data fields and per-cell backing words are symbolic. Oracle: the register tables of the repository's *.md files (S)."""
import z3, random
from engine import build, kit, core
from engine.kit import Ptr, bv, is_c
from engine.llsym import DEAD, Abort, UnwindBound
from checks import graph

_S = {}


def overlay(G):
    """make the peripheral data state arbitrary: fresh variables over the data fields of the constructed components and
    over every MMIO cell's backing word; returns (ex, st, ctx, assumptions)"""
    if 'ov' in _S:
        return _S['ov']
    ex, st0, ctx = G.build_impl()
    st = st0.fork()
    L = G.L
    impl = ctx['impl'].r
    A = []
    names = {}

    locs = {}

    def sym(region, off, sz, name):
        v = z3.BitVec(name, 8 * sz)
        ex.store(st, Ptr(region, off), sz, v)
        names[name] = v
        locs[name] = (region, off, sz)
        return v
    for t in range(2):
        base = G.off['timer'] + t * L['Timer']['_size'][0]
        for f, (off, sz, cnt, stride) in L['Timer'].items():
            if f != '_size' and sz <= 8:
                sym(impl, base + off, sz, 'timer%d.%s' % (t, f))
        A += [names['timer%d.scale' % t] == 0]
    for f, (off, sz, cnt, stride) in L['MemoryInterfaceUnit'].items():
        if f != '_size':
            for i in range(cnt):
                sym(impl, G.off['miu'] + off + i * stride, sz, 'miu.%s%s' % (f, '[%d]' % i if cnt > 1 else ''))
    for f in ('vector_low', 'vector_high', 'vector_context_switch'):
        off, sz, cnt, stride = L['ICU'][f]
        for i in range(cnt):
            sym(impl, G.off['icu'] + off + i * stride, sz, 'icu.%s[%d]' % (f, i))
    for f in ('request', 'vectored_enabled'):
        off, sz, cnt, stride = L['ICU'][f]
        A.append(z3.ULT(sym(impl, G.off['icu'] + off, sz, 'icu.' + f), 1 << 16))
    off, sz, cnt, stride = L['ICU']['enabled']
    for i in range(3):
        A.append(z3.ULT(sym(impl, G.off['icu'] + off + i * stride, sz, 'icu.enabled[%d]' % i), 1 << 16))
    D = L['Dma']
    sym(impl, G.off['dma'] + D['enable_channel'][0], 2, 'dma.enable_channel')
    A.append(z3.ULT(sym(impl, G.off['dma'] + D['active_channel'][0], 2, 'dma.active_channel'), 8))
    for f, (off, sz, cnt, stride) in D.items():
        if f.startswith('ch.'):
            for c in range(8):
                sym(impl, G.off['dma'] + off + c * stride, sz, 'dma.ch%d.%s' % (c, f[3:]))
    Ah = L['Ahbm']
    sym(impl, G.off['ahbm'] + Ah['busy_flag'][0], 2, 'ahbm.busy_flag')
    for f in ('unit_size', 'burst_size', 'direction', 'dma_channel', 'write_burst_start'):
        off, sz, cnt, stride = Ah['ch.' + f]
        for c in range(3):
            sym(impl, G.off['ahbm'] + off + c * stride, sz, 'ahbm.ch%d.%s' % (c, f))
    B = L['Btdmp']
    for b in range(2):
        base = G.off['btdmp'] + b * B['_size'][0]
        for f in ('transmit_clock_config', 'transmit_enable'):
            sym(impl, base + B[f][0], 2, 'btdmp%d.%s' % (b, f))
        # hidden timing / status state of the audio port (no register writes it directly): arbitrary, within the class invariant
        tp = sym(impl, base + B['transmit_period'][0], B['transmit_period'][1], 'btdmp%d.transmit_period' % b)
        tt = sym(impl, base + B['transmit_timer'][0], B['transmit_timer'][1], 'btdmp%d.transmit_timer' % b)
        te = sym(impl, base + B['transmit_empty'][0], B['transmit_empty'][1], 'btdmp%d.transmit_empty' % b)
        tf = sym(impl, base + B['transmit_full'][0], B['transmit_full'][1], 'btdmp%d.transmit_full' % b)
        A += [tp == 4096, z3.ULT(tt, tp), te == 1, tf == 0]          # the queue of the constructed graph is empty
    # the two Apbp::Impl heap objects
    DC, AI = L['DataChannel'], L['Impl']
    for nm in ('apbp_from_cpu', 'apbp_from_dsp'):
        p = ex.load(st, Ptr(impl, G.off[nm]), 8)
        for c in range(3):
            cb = AI['data_channels'][0] + c * DC['_size'][0]
            A.append(z3.ULE(sym(p.r, p.o + cb + DC['ready'][0], 1, '%s.ch%d.ready' % (nm, c)), 1))
            sym(p.r, p.o + cb + DC['data'][0], 2, '%s.ch%d.data' % (nm, c))
            A.append(z3.ULE(sym(p.r, p.o + cb + DC['disable_interrupt'][0], 2, '%s.ch%d.disable' % (nm, c)), 1))
        se = sym(p.r, p.o + AI['semaphore'][0], 2, nm + '.semaphore')
        ma = sym(p.r, p.o + AI['semaphore_mask'][0], 2, nm + '.mask')
        sg = sym(p.r, p.o + AI['semaphore_master_signal'][0], 1, nm + '.signal')
        A += [z3.ULE(sg, 1), (sg != 0) == ((se & ~ma) != 0)]
    # per-cell backing words: the shared_ptr<u16> control blocks made by std::make_shared<u16>(0)
    nstor = 0
    for rid, reg in list(st.mem.items()):
        if reg.name.startswith('heap') and reg.size is not None and 18 <= reg.size <= 32 and reg.arr is None:
            c = reg.cells.get(16)
            if c is not None and c[0] == 2 and is_c(c[1]) and c[1] == 0 and 0 in reg.cells and isinstance(reg.cells[0][1], Ptr):
                sym(rid, 16, 2, 'cellword%d' % nstor)
                nstor += 1
    st.pc += A
    _S['locs'] = locs
    _S['ov'] = (ex, st, ctx, A, names, nstor)
    return _S['ov']


# ------------------------------------------------------------------------------------------------ expected read-back
def field_locations(G):
    overlay(G)
    return {n: l for n, l in _S['locs'].items() if not n.startswith('cellword')}


def expectation(a):
    """-> (kind, parameter) from the repository's register documentation (timer.md, apbp.md, ahbm.md, miu.md, dma.md,
    icu.md, btdmp.md, mmio.md); everything not listed is an unbound cell = plain storage"""
    if a == 0x01A:
        return ('const', 0xC902)
    if a == 0x18C:
        return ('const', 0xFFFF)
    if a in (0x20, 0x30):
        return ('mask', 0xFBFF)                 # RES reads 0
    if a in (0x22, 0x32, 0x0D0, 0x202, 0x204, 0x2CA, 0x34A):
        return ('const', 0)
    if a in (0x0C2, 0x0C6, 0x0CA, 0x0D2, 0x0E0, 0x200, 0x2C6, 0x346):
        return ('ro', None)
    if a == 0x0CC:
        return ('or_old', None)
    if a == 0x0D6:
        return ('overlay', (1 << 5) | (1 << 6) | (1 << 7) | (1 << 8) | (1 << 9) | (1 << 12) | (1 << 13))
    if a == 0x0D8:
        return ('overlay', 0xFE00)
    if a in (0x2C2, 0x342):
        return ('overlay', (1 << 3) | (1 << 4))
    if a == 0x1BE:
        return ('mask', 7)
    return ('plain', None)


COUPLED = {}        # written offset -> set of offsets whose read-back it may change (documented couplings)


def _c(a, bs):
    COUPLED.setdefault(a, set()).update(bs)


for t in (0, 1):
    _c(0x20 + 0x10 * t, {0x28 + 0x10 * t, 0x2A + 0x10 * t})          # timer restart -> counter mirror
    _c(0x22 + 0x10 * t, {0x28 + 0x10 * t, 0x2A + 0x10 * t, 0x200})   # event tick -> counter mirror; the tick that reaches 0 raises the timer IRQ (pending bit)
_c(0x1BE, set(range(0x1C0, 0x1E0, 2)))                               # DMA channel window select
_c(0x202, {0x200}); _c(0x204, {0x200})                               # ICU acknowledge / trigger -> pending
for i in range(3):
    _c(0x0C0 + 4 * i, {0x0D6, 0x0D8})                                # reply written -> data-ready status
_c(0x0CE, {0x0D6, 0x0D8, 0x200}); _c(0x0D0, {0x0D2, 0x0D6, 0x0D8})          # semaphore mask / acknowledge -> S bit, GET_SEMAPHORE
for b in (0, 0x80):
    _c(0x2C6 + b, {0x2C2 + b}); _c(0x2CA + b, {0x2C2 + b})           # FIFO push / flush -> full/empty status


def job(lo, hi, tier, seed):
    G = graph.get()
    ex, st0, ctx, A, names, nstor = overlay(G)
    ck = core.Check('C12', 'model_checking', tier, seed)
    v = z3.BitVec('v', 16)
    impl = ctx['impl']
    out = {'w': {}, 'r': {}}
    for a in range(lo, hi):
        kind, par = expectation(a)
        A2 = list(A)
        if a == 0x1DE:
            A2.append(v != 0x40C0)                # writing 0x40C0 starts the transfer (memory + IRQ 15): C13
        ex.exits, ex.oblig = [], []
        pre_st = st0.fork()
        try:
            rp = ex.call(pre_st, '@ti_mmio_read', [impl, a])
            pre = bv(rp[1], 16)
            s1 = st0.fork()
            s1.pc += [c for c in A2 if c not in A]
            ex.exits = []
            ex.call(s1, '@ti_mmio_write', [impl, a, v])
            wexits = list(ex.exits)
            ex.load_trace = set()
            r = ex.call(s1, '@ti_mmio_read', [impl, a])
            trace = ex.load_trace
            ex.load_trace = None
        except (Abort, UnwindBound) as x:
            ex.load_trace = None
            ck.inconclusive.append('offset %#05x: %s' % (a, str(x)[:120]))
            continue
        ck.ninstr += 0
        ck.nstates += 1
        got = bv(r[1], 16)
        want = {'plain': v, 'const': z3.BitVecVal(par or 0, 16), 'mask': v & (par or 0), 'ro': pre, 'or_old': pre | v,
                'overlay': (v & ~z3.BitVecVal(par or 0, 16)) | (pre & (par or 0))}[kind]
        aborts = kit.exit_cond(type('X', (), {'exits': wexits})(), ('assert', 'abort', 'throw'))
        uaf = [x for x in ex.exits + wexits if x[1] == 'uaf']
        bad_exits = kit.exit_cond(type('X', (), {'exits': [x for x in wexits if x[1] in ('trap', 'ub')]})())
        ck.prove('ReadBack[%#05x]' % a, A2, z3.And(z3.Or(aborts, got == want), z3.Not(bad_exits), kit.obligations(ex)), vars={'v': v}, witness=(a % 64 == 0),
                 sample=('offset %#05x (%s): Read after Write(v) == %s' % (a, kind, {'plain': 'v', 'const': hex(par or 0), 'mask': 'v & %#06x' % (par or 0), 'ro': 'the value before the write', 'or_old': 'old | v',
                                                                                'overlay': 'v with the status bits %#06x taken from the peripheral' % (par or 0)}[kind])) if a in (0x20, 0x24, 0x0CC, 0x0D6, 0x1C8, 0x2C, 0x400) else None)
        if uaf:
            ck.prove('NoDeadStackUse[%#05x]' % a, A2, z3.BoolVal(False), vars={'v': v}, witness=False, sample='cell %#05x: its closures touch no stack slot of a function that has returned' % a)
        # footprints: what the write changed, what the read consulted
        changed = set()
        for rid, reg in s1.mem.items():
            old = st0.mem.get(rid)
            if old is reg or old is None or reg.arr is not None:
                continue
            for o_, c_ in reg.cells.items():
                oc = old.cells.get(o_)
                if oc is None or oc[0] != c_[0] or not (oc[1] is c_[1] or (z3.is_expr(oc[1]) and z3.is_expr(c_[1]) and oc[1].eq(c_[1])) or (is_c(oc[1]) and is_c(c_[1]) and oc[1] == c_[1])):
                    for k_ in range(c_[0]):
                        changed.add((rid, o_ + k_))
        out['w'][a] = changed
        rd = set()
        for rid, o_, n_ in trace:
            if not st0.mem[rid].name.startswith('alloca') if rid in st0.mem else False:
                for k_ in range(n_):
                    rd.add((rid, o_ + k_))
        out['r'][a] = rd
    res = ck.export()
    res['foot'] = out
    return res


def job_pairs(pairs, tier, seed):
    G = graph.get()
    ex, st0, ctx, A, names, nstor = overlay(G)
    ck = core.Check('C12', 'model_checking', tier, seed)
    v = z3.BitVec('v', 16)
    impl = ctx['impl']
    for a, b in pairs:
        try:
            pre = bv(ex.call(st0.fork(), '@ti_mmio_read', [impl, b])[1], 16)
            s1 = st0.fork()
            extra = [v != 0x40C0] if a == 0x1DE else []
            s1.pc += extra
            ex.exits = []
            ex.call(s1, '@ti_mmio_write', [impl, a, v])
            aborts = kit.exit_cond(ex, ('assert', 'abort', 'throw'))
            post = bv(ex.call(s1, '@ti_mmio_read', [impl, b])[1], 16)
        except (Abort, UnwindBound) as x:
            ck.inconclusive.append('pair %#05x/%#05x: %s' % (a, b, str(x)[:100]))
            continue
        ck.nstates += 1
        allowed = b in COUPLED.get(a, ())
        if allowed:
            ck.identical('DocumentedCoupling[write %#05x -> read %#05x]' % (a, b), sample='documented coupling: a write to %#05x may change the read-back of %#05x' % (a, b))
        else:
            ck.prove('NoAlias[write %#05x, read %#05x]' % (a, b), A + extra, z3.Or(aborts, post == pre), vars={'v': v}, witness=False,
                     sample='the state written by %#05x overlaps the state read by %#05x, yet the read-back of %#05x is unchanged for every value and state' % (a, b, b))
    return ck.export()


def job_window(tier, seed):
    """each of the eight DMA channels has its own copy of every window register"""
    G = graph.get()
    ex, st0, ctx, A, names, nstor = overlay(G)
    ck = core.Check('C12', 'model_checking', tier, seed)
    v = z3.BitVec('v', 16)
    impl = ctx['impl']
    for a in range(0x1C0, 0x1E0, 2):
        s1 = st0.fork()
        extra = [v != 0x40C0] if a == 0x1DE else []
        s1.pc += extra
        ex.call(s1, '@ti_mmio_write', [impl, a, v])
        g = []
        D = G.L['Dma']
        for f, (off, sz, cnt, stride) in D.items():
            if not f.startswith('ch.'):
                continue
            for c in range(8):
                now = bv(ex.load(s1, Ptr(impl.r, G.off['dma'] + off + c * stride), sz), 8 * sz)
                g.append(z3.Implies(names['dma.active_channel'] != c, now == names['dma.ch%d.%s' % (c, f[3:])]))
        ck.prove('DmaWindow[%#05x]' % a, A + extra, z3.And(*g), vars={'v': v, 'active_channel': names['dma.active_channel']},
                 sample='a write through window register %#05x leaves every field of the seven channels that are not selected unchanged' % a if a == 0x1C8 else None)
    # independent copies as the program sees them: select channel c1, write v1, select another channel c2, write v2 to the
    # same window register, select c1 again: the read-back is v1's (on the register's writable bits), for all c1 != c2 mod 8
    c1, c2, v1, v2 = z3.BitVec('c1', 16), z3.BitVec('c2', 16), z3.BitVec('v1', 16), z3.BitVec('v2', 16)
    for a in range(0x1C0, 0x1E0, 2):
        kind, par = expectation(a)
        extra = [(c1 & 7) != (c2 & 7)] + ([v1 != 0x40C0, v2 != 0x40C0] if a == 0x1DE else [])
        s1 = st0.fork()
        s1.pc += extra
        try:
            ex.exits = []
            ex.call(s1, '@ti_mmio_write', [impl, 0x1BE, c1])
            pre = bv(ex.call(s1, '@ti_mmio_read', [impl, a])[1], 16)
            ex.call(s1, '@ti_mmio_write', [impl, a, v1])
            ex.call(s1, '@ti_mmio_write', [impl, 0x1BE, c2])
            ex.call(s1, '@ti_mmio_write', [impl, a, v2])
            ex.call(s1, '@ti_mmio_write', [impl, 0x1BE, c1])
            aborts = kit.exit_cond(ex, ('assert', 'abort', 'throw'))
            got = bv(ex.call(s1, '@ti_mmio_read', [impl, a])[1], 16)
        except (Abort, UnwindBound) as x:
            ck.inconclusive.append('window switch %#05x: %s' % (a, str(x)[:100]))
            continue
        ck.nstates += 1
        want = {'plain': v1, 'const': z3.BitVecVal(par or 0, 16), 'mask': v1 & (par or 0), 'ro': pre, 'or_old': pre | v1,
                'overlay': (v1 & ~z3.BitVecVal(par or 0, 16)) | (pre & (par or 0))}[kind]
        # documented per-channel fields (Appendix B / dma.md): 0x1DA holds SRC[3:0] DST[7:4] DWM[10]; its undocumented bits
        # live in the cell's single backing word and are not claimed to be per channel
        dm_ = {0x1DA: 0x04FF}.get(a, 0xFFFF)
        ck.prove('DmaWindow.switch[%#05x]' % a, A + extra, z3.Or(aborts, (got & dm_) == (want & dm_)), vars={'c1': c1, 'c2': c2, 'v1': v1, 'v2': v2},
                 sample='select channel c1, write v1 to %#05x, select c2 != c1, write v2, select c1 again: %#05x reads v1 (on its writable bits) for all 16-bit c1, c2, v1, v2' % (a, a) if a in (0x1C8, 0x1DA) else None)
    return ck.export()


def job_paths(tier, seed):
    """both access paths reach MMIORegion::Write/Read of the same cell: DSP data access at the window base, host accessor at any mirror"""
    G = graph.get()
    ex, st0, ctx, A, names, nstor = overlay(G)
    ck = core.Check('C12', 'model_checking', tier, seed)
    a, v = z3.BitVec('addr', 16), z3.BitVec('v', 16)
    mm = [n for n in G.mod.funcs if 'MMIORegion5WriteEtt' in n or 'MMIORegion4ReadEt' in n]

    def ev(kind):
        def f(e, st, args):
            st.log.append((kind, list(st.pc)) + tuple(args[1:]))
            return st, z3.BitVec('mmio_value', 16) if kind == 'MR' else None
        return f
    for n in mm:
        ex.intercepts[n] = ev('MW' if 'Write' in n else 'MR')
    try:
        base = names['miu.mmio_base']
        s1 = st0.fork()
        inwin = z3.And(z3.UGE(a, base), z3.ULT(z3.ZeroExt(16, a), z3.ZeroExt(16, base) + 0x800))
        s1.pc += [inwin, names['miu.z_page'] == 0]
        ex.exits = []
        ex.call(s1, '@ti_dwrite', [ctx['impl'], a, v, False])
        evs = [e for e in s1.log if e[0] == 'MW']
        ck.prove('Path.DspDataWrite', A + [inwin, names['miu.z_page'] == 0], z3.And(z3.BoolVal(len(evs) == 1), kit.path_cond(evs[0][1]), bv(evs[0][2], 16) == ((a - base) & 0x7FF), bv(evs[0][3], 16) == v) if evs else z3.BoolVal(False),
                 vars={'addr': a, 'v': v, 'base': base}, sample='Teakra::Impl: a DSP data write inside the window at the configured base is MMIORegion::Write((addr-base) & 0x7FF, v)')
        s2 = st0.fork()
        ex.call(s2, '@ti_host_mmio_write', [ctx['impl'], a, v])
        evs = [e for e in s2.log if e[0] == 'MW']
        ck.prove('Path.HostMMIOWrite', A, z3.And(z3.BoolVal(len(evs) == 1), bv(evs[0][2], 16) == (a & 0x7FF), bv(evs[0][3], 16) == v) if evs else z3.BoolVal(False), vars={'addr': a, 'v': v},
                 sample='host MMIOWrite at any 0x800 mirror is MMIORegion::Write(addr & 0x7FF, v)')
    finally:
        for n in mm:
            ex.intercepts.pop(n, None)
    return ck.export()


def job_irq_wiring(tier, seed):
    """which IRQ number each peripheral raises (C07 wiring clause): invoke each installed handler closure with ICU::Trigger observed"""
    G = graph.get()
    ex, st0, ctx, A, names, nstor = overlay(G)
    ck = core.Check('C12', 'model_checking', tier, seed)
    L = G.L
    trig = [n for n in G.mod.funcs if 'ICU7TriggerEt' in n]

    def obs(e, st, args):
        st.log.append(('TRIG', list(st.pc), args[1]))
        return st, None
    for n in trig:
        ex.intercepts[n] = obs
    impl = ctx['impl'].r
    try:
        want = []
        for t, irq in ((0, 0xA), (1, 0x9)):
            want.append(('timer%d' % t, Ptr(impl, G.off['timer'] + t * L['Timer']['_size'][0] + L['Timer']['interrupt_handler'][0]), irq))
        for b in (0, 1):
            want.append(('btdmp%d' % b, Ptr(impl, G.off['btdmp'] + b * L['Btdmp']['_size'][0] + L['Btdmp']['interrupt_handler'][0]), 0xB))
        want.append(('dma', Ptr(impl, G.off['dma'] + L['Dma']['interrupt_handler'][0]), 0xF))
        p = ex.load(st0, Ptr(impl, G.off['apbp_from_cpu']), 8)
        for c in range(3):
            want.append(('apbp_from_cpu data %d' % c, Ptr(p.r, p.o + L['Impl']['data_channels'][0] + c * L['DataChannel']['_size'][0] + L['DataChannel']['handler'][0]), 0xE))
        want.append(('apbp_from_cpu semaphore', Ptr(p.r, p.o + L['Impl']['semaphore_handler'][0]), 0xE))
        for name, fp, irq in want:
            s1 = st0.fork()
            ex.call(s1, '@ti_call_handler', [fp])
            evs = [e for e in s1.log if e[0] == 'TRIG']
            ok = len(evs) == 1 and is_c(evs[0][2]) and evs[0][2] == (1 << irq)
            ck.prove('IrqWiring[%s]' % name, [], z3.BoolVal(bool(ok)), witness=False, sample='the %s interrupt closure installed by Teakra::Impl triggers exactly IRQ %#x' % (name, irq))
    finally:
        for n in trig:
            ex.intercepts.pop(n, None)
    return ck.export()


def _dispatch(fn, args):
    return fn(*args)


def run(tier, seed):
    ck = core.Check('C12', 'model_checking', tier, seed)
    G = graph.get()
    ex, st0, ctx, A, names, nstor = overlay(G)
    ck.notes.append('Teakra::Impl built inside the executor: %d IR instructions, %d heap/stack regions, %.1f s; %d cell backing words and %d peripheral fields made symbolic' % (ctx['ctor_instr'], ctx['regions'], ctx['ctor_s'], nstor, len(names) - nstor))
    ck.ninstr += ctx['ctor_instr']
    ck.funcs.update(['Teakra::Teakra::Impl::Impl (whole constructor incl. MMIORegion::MMIORegion, std::function/std::bind/shared_ptr/vector internals)', 'MMIORegion::Read', 'MMIORegion::Write', 'Cell / BitFieldCell / RefCell closures',
                     'the peripheral setters/getters bound in mmio.cpp (Timer, Apbp, Ahbm, MIU, Dma, ICU, Btdmp)', 'MemoryInterface::DataWrite / MMIOWrite (path obligations)'])
    ck.assumptions += ['state = the constructed object graph with every peripheral data field and every cell backing word replaced by a fresh variable (constrained only by type ranges, timer scale == 0, DMA window index < 8, the APBP signal invariant): one write/read step from any such state; sequences by induction',
                       'expected read-back per offset transcribed from the repository *.md register tables (checks/c12.py expectation()); unlisted offsets are plain storage',
                       'a write that hits a deliberate ASSERT (e.g. timer restart with an undefined count mode) is excused', 'writing 0x40C0 to the DMA start register is excluded here (C13)',
                       'aliasing: candidates are the (written, read) offset pairs whose state footprints intersect (footprints measured on the symbolic run); each candidate that is not a documented coupling is decided by SMT; pairs with disjoint footprints cannot influence each other']
    ck.bounds += ['all 0x800 offsets x all 16-bit values; no bound']
    step = 128
    res = core.pmap(job, [(lo, min(lo + step, 0x800), tier, seed) for lo in range(0, 0x800, step)])
    W, Rd = {}, {}
    for r in res:
        if '__error__' in r:
            ck.engine_errors.append(r['__error__'])
            continue
        W.update(r['foot']['w'])
        Rd.update(r['foot']['r'])
        ck.absorb(r)
    # candidate alias pairs
    inv = {}
    for b, cells in Rd.items():
        for c in cells:
            inv.setdefault(c, set()).add(b)
    pairs = set()
    for a, cells in W.items():
        for c in cells:
            for b in inv.get(c, ()):
                if a != b:
                    pairs.add((a, b))
    pairs = sorted(pairs)
    ck.notes.append('%d (write, read) offset pairs have intersecting state footprints out of %d possible' % (len(pairs), 0x800 * 0x7FF))
    chunks = [pairs[i::16] for i in range(16)]
    jobs = [(job_pairs, (c, tier, seed)) for c in chunks if c] + [(job_window, (tier, seed)), (job_paths, (tier, seed)), (job_irq_wiring, (tier, seed))]
    for r in core.pmap(_dispatch, jobs):
        if '__error__' in r:
            ck.engine_errors.append(r['__error__'])
        else:
            ck.absorb(r)
    # translator validation: concrete write/read sequences on the constructed (un-overlaid) graph vs the real library
    import ctypes
    from engine import native
    tw = native.Twin(build.compile_so('h_teakra.cpp'))
    rnd = random.Random(seed)
    seqs = []
    for it in range(6 if tier == 'quick' else 30):
        seqs.append([(rnd.choice([0x20, 0x24, 0x28, 0x2C, 0xC0, 0xCC, 0xCE, 0xD4, 0xD6, 0xE2, 0x10E, 0x114, 0x11E, 0x184, 0x1BE, 0x1C8, 0x1DA, 0x200, 0x204, 0x206, 0x212, 0x214, 0x2A2, 0x2BE, 0x2C2, 0x2C6, rnd.randrange(0, 0x800, 2)]), rnd.randrange(65536)) for _ in range(6)])

    def nat_one(seq):
        def f():
            t = tw.fn('tn_new', ctypes.c_void_p, [])()
            wr = tw.fn('ti_mmio_write', None, [ctypes.c_void_p, ctypes.c_uint16, ctypes.c_uint16])
            rd = tw.fn('ti_mmio_read', ctypes.c_uint16, [ctypes.c_void_p, ctypes.c_uint16])
            tw.fn('ti_reset', None, [ctypes.c_void_p])(t)
            row = []
            for a_, v_ in seq:
                wr(t, a_, v_)
                row.append(rd(t, a_))
            return row
        return f
    bex, bst, bctx = G.build_impl()
    for seq in seqs:
        # the library aborts (UNREACHABLE / unimplemented register values) on some writes: a native abort must be matched
        # by an abort exit in the executor on the same sequence, a native read-back by the same values
        n = native.in_child(nat_one(seq), timeout=120)
        s1 = bst.fork()
        bex.exits = []
        got, dead = [], False
        r0 = bex.call(s1, '@ti_reset', [bctx['impl']])
        for a_, v_ in seq:
            r_ = bex.call(s1, '@ti_mmio_write', [bctx['impl'], a_, v_])
            if r_ is None or r_ is DEAD:
                dead = True
                break
            r_ = bex.call(s1, '@ti_mmio_read', [bctx['impl'], a_])
            if r_ is None or r_ is DEAD:
                dead = True
                break
            r_ = r_[1]
            got.append(r_ if is_c(r_) else z3.simplify(bv(r_, 16)).as_long())
        if n[0] == 'ok' and not dead and got == n[1]:
            ck.validated += 1
        elif n[0] == 'signal' and dead and any(x[1] in ('abort', 'assert') for x in bex.exits):
            ck.validated += 1
        else:
            ck.engine_errors.append('translator validation mismatch MMIO sequence %r: exec %r dead=%r exits=%r native %r' % (seq, got, dead, [x[1:] for x in bex.exits], n))
    bex.exits = []
    return ck.finish('read-back for all 0x800 offsets, footprint-based non-aliasing, DMA window independence, access paths, IRQ wiring')
