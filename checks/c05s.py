"""C05, text clause: "two opcodes print the same text only if they differ in unused bits" - decided per decode-table row on the
real disassembler renderers.

The row's renderer runs through the real Matcher<Disassembler>::call with a symbolic opcode and second word. std::string is
given an abstract domain instead of its byte representation: a string object holds a handle to a tuple of pieces (a literal,
or "0x" + fixed-width hex digits of a term: ToHex); libstdc++'s string API (constructors, append, insert(0, ..), +=, size, ...)
is intercepted on that domain, everything else (switch tables of names, the variadic D(...), std::vector<std::string>, the
Dsm overloads, operator+) is the real code. Path merges turn handles into if-then-else terms. The token list of the row is
then a list of z3 *string* terms over (opcode, second word); the obligation, decided by the string solvers of z3 / cvc5:
two words of the row that render the same token list agree on every operand field of the row (= differ in unused bits)."""
import re, subprocess
import z3
from engine import build, kit, core
from engine.kit import Ptr, bv, is_c
from engine.llsym import DEAD, Abort, UnwindBound
from checks import interp, c02
from spec import forms

_S = {}
STRP = '_ZNSt7__cxx1112basic_stringIcSt11char_traitsIcESaIcEE'
STRK = '_ZNKSt7__cxx1112basic_stringIcSt11char_traitsIcESaIcEE'


class Store:
    def __init__(s):
        s.vals, s.ids = [()], {(): 0}

    def intern(s, pieces):
        # normalise: merge adjacent literals, drop empty ones
        out = []
        for p in pieces:
            if p[0] == 'lit':
                if not p[1]:
                    continue
                if out and out[-1][0] == 'lit':
                    out[-1] = ('lit', out[-1][1] + p[1])
                    continue
            out.append(p)
        key = tuple((p[0], p[1]) if p[0] == 'lit' else ((p[0], p[1].get_id()) if p[0] == 'sel' else ((p[0], p[1].get_id() if z3.is_expr(p[1]) else p[1], p[2].get_id()) if p[0] == 'pre' else (p[0], p[1], p[2].get_id() if z3.is_expr(p[2]) else p[2]))) for p in out)
        if key not in s.ids:
            s.ids[key] = len(s.vals)
            s.vals.append(tuple(out))
        return s.ids[key]


def alts(term, limit=512):
    """handle term (int or if-then-else over ints) -> [(guard Bool, id)]"""
    if is_c(term):
        return [(z3.BoolVal(True), term)]
    out = []

    def walk(t, g):
        t = z3.simplify(t) if False else t
        if z3.is_bv_value(t):
            out.append((z3.And(*g) if g else z3.BoolVal(True), t.as_long()))
        elif z3.is_app_of(t, z3.Z3_OP_ITE):
            c, a, b = t.children()
            walk(a, g + [c])
            walk(b, g + [z3.Not(c)])
        else:
            raise Abort('string handle is not an if-then-else over known strings: %s' % str(t)[:80])
        if len(out) > limit:
            raise Abort('more than %d string alternatives' % limit)
    walk(term, [])
    return out


def install(mod, ex, S):
    """abstract std::string; returns nothing (intercepts installed on ex)"""
    I = ex.intercepts

    def get(e, st, p):
        return e.load(st, p, 8)

    def put(e, st, p, h):
        e.store(st, p, 8, h)
        e.store(st, Ptr(p.r, p.o + 8), 8, 0)

    def pieces_of(term):
        """pieces standing for a handle term: the string's own pieces when it is one known string, else one 'sel' piece"""
        return S.vals[term] if is_c(term) else (('sel', term),)

    def binop(e, st, a_term, b_term, f):
        """handle for f(x, y); a symbolic operand is kept as a single choice piece (no expansion of alternatives)"""
        return f(pieces_of(a_term), pieces_of(b_term))

    def lit(e, st, p, n=None):
        """handle term of a C string; the pointer may be a guarded choice between literals (cond ? "sx" : "ux")"""
        res = None
        for g, q in p.alts():
            b_ = bytes(kit.cstring(e, st, q), 'latin1')
            h = S.intern((('lit', b_ if n is None else b_[:n]),))
            res = h if res is None else z3.If(g, z3.BitVecVal(h, 64), bv(res, 64))
        return res

    def ctor_default(e, st, a):
        put(e, st, a[0], 0)
        return st, None

    def ctor_cstr(e, st, a):
        put(e, st, a[0], lit(e, st, a[1]))
        return st, None

    def ctor_copy(e, st, a):
        put(e, st, a[0], get(e, st, a[1]))
        return st, None

    def assign_cstr(e, st, a):
        put(e, st, a[0], lit(e, st, a[1]))
        return st, a[0]

    def append_cstr(e, st, a):
        put(e, st, a[0], binop(e, st, get(e, st, a[0]), lit(e, st, a[1]), lambda x, y: S.intern(x + y)))
        return st, a[0]

    def append_cstr_n(e, st, a):
        if not is_c(a[2]):
            raise Abort('append(const char*, symbolic n)')
        put(e, st, a[0], binop(e, st, get(e, st, a[0]), lit(e, st, a[1], a[2]), lambda x, y: S.intern(x + y)))
        return st, a[0]

    def append_str(e, st, a):
        put(e, st, a[0], binop(e, st, get(e, st, a[0]), get(e, st, a[1]), lambda x, y: S.intern(x + y)))
        return st, a[0]

    def insert_cstr(e, st, a):
        if not (is_c(a[1]) and a[1] == 0):
            raise Abort('string::insert at a position other than 0')
        put(e, st, a[0], binop(e, st, get(e, st, a[0]), lit(e, st, a[2]), lambda x, y: S.intern(y + x)))
        return st, a[0]

    def insert_str(e, st, a):
        if not (is_c(a[1]) and a[1] == 0):
            raise Abort('string::insert at a position other than 0')
        put(e, st, a[0], binop(e, st, get(e, st, a[0]), get(e, st, a[2]), lambda x, y: S.intern(y + x)))
        return st, a[0]

    def size(e, st, a):
        return st, length_term(S, get(e, st, a[0]))

    def nop(e, st, a):
        return st, None

    def ret_big(e, st, a):
        return st, 1 << 20

    def chars(n, c):
        if not (is_c(n) and is_c(c)):
            raise Abort('string of a symbolic character / count')
        return (('lit', bytes([c & 0xFF]) * n),)

    def push_back(e, st, a):
        put(e, st, a[0], binop(e, st, get(e, st, a[0]), S.intern(chars(1, a[1])), lambda x, y: S.intern(x + y)))
        return st, a[0]

    def append_nc(e, st, a):
        put(e, st, a[0], binop(e, st, get(e, st, a[0]), S.intern(chars(a[1], a[2])), lambda x, y: S.intern(x + y)))
        return st, a[0]

    def ctor_nc(e, st, a):
        put(e, st, a[0], S.intern(chars(a[1], a[2])))
        return st, None

    def ctor_cstr_n(e, st, a):
        if not is_c(a[2]):
            raise Abort('string(const char*, symbolic n)')
        put(e, st, a[0], lit(e, st, a[1], a[2]))
        return st, None

    def find_last_not_of_c(e, st, a):
        # index of the last character different from c (searching the whole string), npos if there is none: computed on the
        # exact byte encoding of the string
        if not (is_c(a[1]) and (not is_c(a[2]) or a[2] >= (1 << 63) or True)):
            raise Abort('find_last_not_of with a symbolic character')
        term = get(e, st, a[0])
        L = max_len(S, term)
        n, w = to_bytes(S, term, L)
        res = z3.BitVecVal((1 << 64) - 1, 64)
        for k in range(L):
            byte = z3.Extract(8 * (L - k) - 1, 8 * (L - k - 1), w)
            res = z3.If(z3.And(z3.ULT(z3.BitVecVal(k, 8), n), byte != (a[1] & 0xFF)), z3.BitVecVal(k, 64), res)
        return st, res

    def erase(e, st, a):
        # erase(pos, npos): keep the first pos characters
        if not (is_c(a[2]) and a[2] >= (1 << 63)):
            raise Abort('string::erase of a bounded range')
        term = get(e, st, a[0])
        pos = bv(a[1], 64)
        put(e, st, a[0], S.intern((('pre', term if not is_c(term) else z3.BitVecVal(term, 64), pos),)))
        return st, a[0]

    table = {'16find_last_not_ofEcm': None, '5eraseEmm': erase, 'pLEc': push_back, '9push_backEc': push_back, '6appendEmc': append_nc, 'C2EmcRKS3_': ctor_nc, 'C1EmcRKS3_': ctor_nc, 'C2EPKcmRKS3_': ctor_cstr_n, 'C1EPKcmRKS3_': ctor_cstr_n,
             '5clearEv': lambda e, st, a: (put(e, st, a[0], 0), (st, None))[1], 'C2Ev': ctor_default, 'C1Ev': ctor_default, 'C2ERKS4_': ctor_copy, 'C1ERKS4_': ctor_copy, 'C2EOS4_': ctor_copy, 'C1EOS4_': ctor_copy,
             'C2IS3_EEPKcRKS3_': ctor_cstr, 'C1IS3_EEPKcRKS3_': ctor_cstr, 'C2EPKcRKS3_': ctor_cstr, 'C1EPKcRKS3_': ctor_cstr,
             'C2ERKS3_': ctor_default, 'C1ERKS3_': ctor_default, 'aSEPKc': assign_cstr, 'pLEPKc': append_cstr, 'pLERKS4_': append_str, '6appendEPKc': append_cstr, '6appendERKS4_': append_str, '6appendEPKcm': append_cstr_n,
             '6insertEmPKc': insert_cstr, '6insertEmRKS4_': insert_str, 'D2Ev': nop, 'D1Ev': nop, '10_M_disposeEv': nop, '7reserveEm': nop,
             'aSEOS4_': lambda e, st, a: (ctor_copy(e, st, a)[0], a[0]), 'aSERKS4_': lambda e, st, a: (ctor_copy(e, st, a)[0], a[0])}
    ktable = {'16find_last_not_ofEcm': find_last_not_of_c, '4sizeEv': size, '6lengthEv': size, '8capacityEv': ret_big, '5emptyEv': lambda e, st, a: (st, bv(length_term(S, get(e, st, a[0])), 64) == 0)}
    names = set(mod.funcs) | set(mod.decls)
    for n in names:
        if n.startswith('@' + STRP):
            suf = n[len('@' + STRP):]
            if suf in table and table[suf] is not None:
                I[n] = table[suf]
        elif n.startswith('@' + STRK):
            suf = n[len('@' + STRK):]
            if suf in ktable:
                I[n] = ktable[suf]
    I['@_ZNSaIcEC2Ev'] = I['@_ZNSaIcED2Ev'] = I['@_ZNSaIcEC1Ev'] = I['@_ZNSaIcED1Ev'] = nop
    I['@_ZNSaIcEC2ERKS_'] = I['@_ZNSaIcEC1ERKS_'] = nop
    I['@' + STRK + '13get_allocatorEv'] = nop

    # std::to_string(int / unsigned / long ...): decimal literal; a symbolic argument must have a small range (operand indexes)
    def to_string(e, st, a):
        v = a[1]
        if is_c(v):
            h = S.intern((('lit', str(v if v < (1 << 31) else v - (1 << 32)).encode()),))
        else:
            v = bv(v, 32)
            if e.feasible(st, z3.UGE(v, 64)):
                raise Abort('std::to_string of a value not known to be below 64')
            h = None
            for k in range(63, -1, -1):
                hk = S.intern((('lit', str(k).encode()),))
                h = hk if h is None else z3.If(v == k, z3.BitVecVal(hk, 64), bv(h, 64))
            h = z3.simplify(h)
        put(e, st, a[0], h)
        return st, None
    for n in names:
        if n.startswith('@_ZNSt7__cxx119to_stringE'):
            I[n] = to_string
    # ToHex<T>(T): "0x" + 2*sizeof(T) hex digits (setfill('0') << setw << hex) - the one place the stream classes are used
    for n in mod.funcs:
        m = re.search(r'5ToHexI([thjmy])E', n)
        if m:
            nd = {'t': 4, 'h': 2, 'j': 8, 'm': 16, 'y': 16}[m.group(1)]

            def tohex(e, st, a, nd=nd):
                v = a[1]
                v = bv(v, 4 * nd) if not is_c(v) else v
                put(e, st, a[0], S.intern((('lit', b'0x'), ('hex', nd, v))))
                return st, None
            I[n] = tohex


def env():
    if 'e' in _S:
        return _S['e']
    ll, h = build.compile_ir('h_dsm.cpp')
    mod = build.load_module(ll)
    ex, st = kit.new_exec(mod, unwind=3000)
    interp._install_hashtable_stubs(ex)
    vec = ex.new_region(st, 24, 'vec')
    st = ex.call(st, '@mk_table_dsm', [Ptr(vec, 0)])[0]
    b, e_ = ex.load(st, Ptr(vec, 0), 8), ex.load(st, Ptr(vec, 8), 8)
    rows = []
    MS = c02.MS
    for i in range((e_.o - b.o) // MS):
        mp = Ptr(b.r, b.o + MS * i)
        rb, re_ = ex.load(st, Ptr(mp.r, mp.o + 48), 8), ex.load(st, Ptr(mp.r, mp.o + 56), 8)
        rej = []
        if rb.r != 0:
            for k in range((re_.o - rb.o) // 4):
                rej.append((ex.load(st, Ptr(rb.r, rb.o + 4 * k), 2), ex.load(st, Ptr(rb.r, rb.o + 4 * k + 2), 2)))
        rows.append({'i': i, 'ptr': mp, 'name': kit.cstring(ex, st, ex.load(st, mp, 8)), 'mask': ex.load(st, Ptr(mp.r, mp.o + 8), 2),
                     'expected': ex.load(st, Ptr(mp.r, mp.o + 10), 2), 'expanded': ex.load(st, Ptr(mp.r, mp.o + 12), 1), 'rejectors': rej})
    S = Store()
    install(mod, ex, S)
    znwm = ex.intercepts['@_Znwm']

    def znwm2(e, st_, a):
        if not is_c(a[0]):
            raise Abort('allocation of symbolic size (token list whose length depends on the operands)')
        return znwm(e, st_, a)
    ex.intercepts['@_Znwm'] = znwm2
    ex.unwind = 300
    d = ex.new_region(st, 16, 'disassembler')
    ex.fill(st, Ptr(d, 0), 16, 0)          # std::optional<ArArpSettings> disengaged: plain (un-annotated) rendering
    _S['e'] = {'mod': mod, 'ex': ex, 'st': st, 'rows': rows, 'S': S, 'd': d}
    return _S['e']


def match_pred(row, o):
    c = [(o & row['mask']) == row['expected']]
    for m, u in row['rejectors']:
        c.append((o & m) != u)
    return z3.And(*c)


def tokens_of(E, i, o, e):
    """[handle term] of the row's token list for symbolic (o, e) inside the row"""
    ex, S = E['ex'], E['S']
    st = E['st'].fork()
    row = E['rows'][i]
    st.pc.append(match_pred(row, o))
    out = ex.new_region(st, 24, 'tokens')
    ex.exits, ex.oblig = [], []
    r = ex.call(st, '@dsm_callm', [row['ptr'], Ptr(E['d'], 0), o, e, Ptr(out, 0)])
    if r is None or r is DEAD:
        raise Abort('renderer does not return')
    s1 = r[0]
    b, e_ = ex.load(s1, Ptr(out, 0), 8), ex.load(s1, Ptr(out, 8), 8)
    if not (isinstance(b, Ptr) and isinstance(e_, Ptr) and not b.sym and not e_.sym and b.r == e_.r):
        raise Abort('token vector with path-dependent storage')
    return [ex.load(s1, Ptr(b.r, b.o + 32 * k), 8) for k in range((e_.o - b.o) // 32)], list(ex.exits)


def describe(S, term, depth=0):
    def one(i):
        return ''.join(p[1].decode('latin1') if p[0] == 'lit' else ('<hex%d>' % p[1] if p[0] == 'hex' else ('{' + describe(S, p[1], depth + 1) + '}' + ('[:n]' if p[0] == 'pre' else ''))) for p in S.vals[i])
    a = alts(term)
    return ' | '.join(one(i) for g, i in a[:4]) + (' | ...' if len(a) > 4 else '')


def max_len(S, term, memo=None):
    memo = {} if memo is None else memo
    def of_id(i):
        if i not in memo:
            memo[i] = sum(len(p[1]) if p[0] == 'lit' else (p[1] if p[0] == 'hex' else max_len(S, p[1], memo)) for p in S.vals[i])      # ('sel', t) and ('pre', t, pos): bounded by t
        return memo[i]
    return max([of_id(i) for g, i in alts(term)] + [1])


def length_term(S, term):
    def of_id(i):
        n = 0
        for p in S.vals[i]:
            if p[0] == 'pre':
                full = bv(length_term(S, p[1]), 64)
                n = n + z3.If(z3.ULT(p[2], full), p[2], full)
                continue
            n = n + (len(p[1]) if p[0] == 'lit' else (p[1] if p[0] == 'hex' else bv(length_term(S, p[1]), 64)))
        return n
    res = None
    for g, i in alts(term):
        n = of_id(i)
        res = n if res is None else z3.If(g, bv(n, 64), bv(res, 64))
    return res


def has_error(S, term, sub=None):
    """Bool: the text contains "[ERROR]" (what the assembler generator skips)"""
    def of_id(i):
        c = []
        for p in S.vals[i]:
            if p[0] == 'lit' and b'[ERROR]' in p[1]:
                return z3.BoolVal(True)
            if p[0] in ('sel', 'pre'):
                c.append(has_error(S, p[1], sub))
        return z3.Or(*c) if c else z3.BoolVal(False)
    res = None
    for g, i in alts(term):
        if sub and not z3.is_true(g):
            g = z3.substitute(g, *sub)
        h = of_id(i)
        res = h if res is None else z3.If(g, h, res)
    return z3.simplify(res)


def to_bytes(S, term, L, sub=None):
    """bit-vector encoding of the string a handle term denotes: (length as 8-bit term, 8*L-bit term holding the characters,
    first character in the most significant byte, zero padded). Pieces are placed by shifting by the (possibly symbolic)
    length accumulated so far, so equality of two encodings is exactly equality of the texts (L >= every possible length)."""
    W = 8 * L

    def left(bs):
        """list of 8-bit terms -> W-bit term, left aligned"""
        bs = bs + [z3.BitVecVal(0, 8)] * (L - len(bs))
        return z3.Concat(*bs) if len(bs) > 1 else bs[0]

    def of_id(i):
        n = z3.BitVecVal(0, 8)
        w = z3.BitVecVal(0, W)
        conc = 0          # while everything so far has a concrete length, place by concrete shifts
        for p in S.vals[i]:
            if p[0] == 'lit':
                bs, pn = [z3.BitVecVal(c, 8) for c in p[1]], len(p[1])
                pw = left(bs)
            elif p[0] == 'hex':
                nd, v = p[1], p[2]
                if is_c(v):
                    bs = [z3.BitVecVal(ord(c), 8) for c in ('%0' + str(nd) + 'x') % v]
                else:
                    if sub:
                        v = z3.substitute(v, *sub)
                    bs = []
                    for k in range(nd - 1, -1, -1):
                        nib = z3.ZeroExt(4, z3.Extract(4 * k + 3, 4 * k, v))
                        bs.append(z3.If(z3.ULT(nib, 10), nib + 0x30, nib + 0x57))
                pn, pw = nd, left(bs)
            elif p[0] == 'pre':
                n0, w0 = to_bytes(S, p[1], L, sub)
                pos = z3.substitute(p[2], *sub) if sub else p[2]
                pn = z3.If(z3.ULT(pos, z3.ZeroExt(56, n0)), z3.Extract(7, 0, pos), n0)
                keep = ~z3.LShR(z3.BitVecVal((1 << W) - 1, W), z3.ZeroExt(W - 8, pn) * 8) if W > 8 else z3.BitVecVal(0xFF, 8)
                pw = w0 & keep
            else:
                pn, pw = to_bytes(S, p[1], L, sub)
            if conc is not None:
                w = w | z3.LShR(pw, 8 * conc)
            else:
                w = w | z3.LShR(pw, z3.ZeroExt(W - 8, n) * 8)
            if conc is not None and isinstance(pn, int):
                conc += pn
                n = z3.BitVecVal(conc, 8)
            else:
                conc = None
                n = n + (z3.BitVecVal(pn, 8) if isinstance(pn, int) else pn)
        return n, w
    res = None
    for g, i in alts(term):
        if sub and not z3.is_true(g):
            g = z3.substitute(g, *sub)
        n, w = of_id(i)
        res = (n, w) if res is None else (z3.If(g, n, res[0]), z3.If(g, w, res[1]))
    return res


def unused_mask(i):
    if 'ub' not in _S:
        _S['ub'] = c02.unused_bits()[0]
    m = 0
    for b in _S['ub'].get(i, ('', []))[1]:
        m |= 1 << b
    return m


def injective_goal(E, i, toks, o, e):
    """(assumptions, goal, vars) for: two words of row i with the same token list differ only in unused bits"""
    S = E['S']
    row = E['rows'][i]
    o2, e2 = z3.BitVec('o2', 16), z3.BitVec('e2', 16)
    sub = [(o, o2), (e, e2)]
    cs = []
    for t in toks:
        L = max_len(S, t)
        (n1, w1), (n2, w2) = to_bytes(S, t, L), to_bytes(S, t, L, sub)
        cs += [n1 == n2, w1 == w2]
    same_text = z3.And(*cs) if cs else z3.BoolVal(True)
    U = unused_mask(i)
    same_word = ((o ^ o2) & (0xFFFF ^ U)) == 0
    if row['expanded']:
        same_word = z3.And(same_word, e == e2)
    # words whose text contains "[ERROR]" (reserved operand encodings) are not renderable: the assembler generator skips them
    rend = [z3.Not(has_error(S, t)) for t in toks] + [z3.Not(has_error(S, t, sub)) for t in toks]
    A = [match_pred(row, o), match_pred(row, o2)] + [r for r in rend if not z3.is_true(r)]
    return A, z3.Implies(same_text, same_word), {'o': o, 'e': e, 'o2': o2, 'e2': e2}


# ------------------------------------------------------------------------------------------------ obligations
def tokens_cached(E, i, o, e):
    key = ('tok', i)
    if key not in _S:
        try:
            _S[key] = tokens_of(E, i, o, e)[0]
        except Abort as x:
            if 'symbolic size' not in str(x):
                raise
            _S[key] = tokens_by_cases(E, i, o, e)
    return _S[key]


def tokens_by_cases(E, i, o, e):
    """a renderer whose token list length depends on the operands (banke: one token per flag): the operand bits of the row are
    enumerated (at most 8 free bits), each case rendered with a concrete opcode, and the lists are joined into if-then-else
    handle terms padded with empty tokens"""
    row = E['rows'][i]
    free = [b for b in range(16) if not (row['mask'] >> b) & 1]
    if len(free) > 8 or row['expanded']:
        raise Abort('variable-length token list with more than 8 operand bits')
    cases = []
    for k in range(1 << len(free)):
        oc = row['expected']
        for j, b in enumerate(free):
            if (k >> j) & 1:
                oc |= 1 << b
        if any((oc & m) == u for m, u in row['rejectors']):
            continue
        cases.append((oc, tokens_of(E, i, oc, 0)[0]))
    n = max(len(t) for _, t in cases)
    out = []
    for k in range(n):
        h = None
        for oc, t in cases:
            hk = t[k] if k < len(t) else 0
            if not is_c(hk):
                raise Abort('symbolic handle in a concrete case')
            h = hk if h is None else z3.If(o == oc, z3.BitVecVal(hk, 64), bv(h, 64))
        out.append(h)
    return out


_O, _E2 = z3.BitVec('o', 16), z3.BitVec('e', 16)
_tw = {}


def text_replay(kind):
    def rp(inputs):
        import ctypes
        from engine import native
        if 't' not in _tw:
            _tw['t'] = native.Twin(build.compile_so('h_dsm.cpp'))
        tw = _tw['t']

        def body():
            txt = tw.fn('dsm_text', ctypes.c_int, [ctypes.c_uint16, ctypes.c_uint16, ctypes.c_char_p, ctypes.c_int])
            out = {}
            for a, b in (('o', 'e'), ('o2', 'e2')):
                if a in inputs:
                    buf = ctypes.create_string_buffer(256)
                    txt(int(inputs[a]), int(inputs.get(b, 0)), buf, 256)
                    out['%#06x %#06x' % (int(inputs[a]), int(inputs.get(b, 0)))] = buf.value.decode('latin1')
            if kind == 'join':
                return tw.fn('dsm_do_is_join', ctypes.c_int, [ctypes.c_uint16, ctypes.c_uint16])(int(inputs['o']), int(inputs.get('e', 0))) == 0, out
            same = tw.fn('dsm_same_text', ctypes.c_int, [ctypes.c_uint16] * 4)(int(inputs['o']), int(inputs.get('e', 0)), int(inputs['o2']), int(inputs.get('e2', 0)))
            return bool(same) if kind in ('collision', 'distinct') else (not same), out
        r = native.in_child(body, timeout=120)
        if r[0] != 'ok':
            return None, {'native': r}
        return r[1][0], {'native texts': r[1][1]}
    return rp


def job_rows(idx, tier, seed):
    ck = core.Check('C05', 'other', tier, seed)
    E = env()
    ex, S = E['ex'], E['S']
    o, e = _O, _E2
    for i in idx:
        row = E['rows'][i]
        nm = 'row %d %s' % (i, row['name'])
        try:
            n0 = ex.ninstr
            toks = tokens_cached(E, i, o, e)
            ck.ninstr += ex.ninstr - n0
            ck.nstates += 1
        except (Abort, UnwindBound) as x:
            ck.inconclusive.append('Text[%s]: %s' % (nm, str(x)[:120]))
            continue
        A, g, v = injective_goal(E, i, toks, o, e)
        ck.prove('Text.injective[%s]' % nm, A, g, vars=v, replay=text_replay('collision'), witness=True,
                 sample=('two words of row %d (%s) print the same token list only if they differ in unused bits (and, for two-word forms, have the same second word); tokens: %s' % (i, row['name'], ' '.join(describe(S, t)[:30] for t in toks)[:160])) if i % 50 == 0 else None)
        # the converse: unused bits (and the second word of one-word forms) never change the text
        o2, e2 = v['o2'], v['e2']
        sub = [(o, o2), (e, e2)]
        cs = []
        for t in toks:
            L = max_len(S, t)
            (n1, w1), (n2, w2) = to_bytes(S, t, L), to_bytes(S, t, L, sub)
            if not (n1.eq(n2) and w1.eq(w2)):
                cs += [n1 == n2, w1 == w2]
        U = unused_mask(i)
        pre = [((o ^ o2) & (0xFFFF ^ U)) == 0] + ([e == e2] if row['expanded'] else [])
        if cs:
            ck.prove('Text.unused_inert[%s]' % nm, A + pre, z3.And(*cs), vars=v, replay=text_replay('differs'), witness=False)
        else:
            ck.identical('Text.unused_inert[%s]' % nm)
        # Do(o, e) is the token list joined by four spaces (the real Do with GetTokenList answered by this row's renderer)
        try:
            st = E['st'].fork()
            st.pc.append(match_pred(row, o))

            def gtl(e_, st_, a):
                r_ = e_.call(st_, '@dsm_callm', [row['ptr'], Ptr(E['d'], 0), a[1], a[2], a[0]])
                return r_[0], None
            names = [n for n in E['mod'].funcs if 'GetTokenList' in n]
            for n in names:
                ex.intercepts[n] = gtl
            outp = ex.new_region(st, 32, 'do_result')
            opt = ex.new_region(st, 16, 'nullopt')
            ex.fill(st, Ptr(opt, 0), 16, 0)
            r = ex.call(st, '@dsm_do', [Ptr(outp, 0), o, e])
            for n in names:
                ex.intercepts.pop(n, None)
            got = ex.load(r[0], Ptr(outp, 0), 8)
        except (Abort, UnwindBound, TypeError) as x:
            for n in [n for n in E['mod'].funcs if 'GetTokenList' in n]:
                ex.intercepts.pop(n, None)
            ck.inconclusive.append('Text.join[%s]: %s' % (nm, str(x)[:100])) if 'symbolic size' not in str(x) else None
            continue
        # expected: tokens joined by 4 spaces, as bytes
        Ls = [max_len(S, t) for t in toks]
        Ltot = sum(Ls) + 4 * (len(toks) - 1)
        if max_len(S, got) > Ltot:
            ck.prove('Text.join[%s]' % nm, A[:1], z3.BoolVal(False), vars={'o': o, 'e': e}, replay=text_replay('join'), witness=False)
            continue
        ng, wg = to_bytes(S, got, Ltot)
        # build the expected byte string by shifting each token into place
        exp_n = z3.BitVecVal(0, 8)
        exp_w = z3.BitVecVal(0, 8 * Ltot)
        for k, t in enumerate(toks):
            n_k, w_k = to_bytes(S, t, Ls[k])
            piece = z3.ZeroExt(8 * (Ltot - Ls[k]), w_k) << (8 * (Ltot - Ls[k]))          # left aligned
            exp_w = exp_w | z3.LShR(piece, z3.ZeroExt(8 * Ltot - 8, exp_n) * 8)
            exp_n = exp_n + n_k
            if k + 1 < len(toks):
                sp = z3.BitVecVal(int.from_bytes(b'    ', 'big') << (8 * (Ltot - 4)), 8 * Ltot)
                exp_w = exp_w | z3.LShR(sp, z3.ZeroExt(8 * Ltot - 8, exp_n) * 8)
                exp_n = exp_n + 4
        ck.prove('Text.join[%s]' % nm, A[:1], z3.And(ng == exp_n, wg == exp_w), vars={'o': o, 'e': e}, replay=text_replay('join'), witness=False,
                 sample='Do(o, e) == the token list of GetTokenList(o, e) joined by four spaces, for every word of row %d' % i if i % 100 == 0 else None)
    return ck.export()


def candidate_pairs(E):
    """pairs of rows that could print the same text: same number of tokens and a common first token"""
    import collections
    S = E['S']
    first = collections.defaultdict(list)
    for i in range(len(E['rows'])):
        try:
            toks = tokens_cached(E, i, _O, _E2)
        except (Abort, UnwindBound):
            continue
        hs = {h for g, h in alts(toks[0])}
        lits = {S.vals[h][0][1] if (len(S.vals[h]) == 1 and S.vals[h][0][0] == 'lit') else None for h in hs}
        first[len(toks)].append((i, lits))
    pairs = set()
    for v in first.values():
        for a, la in v:
            for b, lb in v:
                if a < b and (None in la or None in lb or la & lb):
                    pairs.add((a, b))
    return sorted(pairs)


def job_pairs(pairs, tier, seed):
    ck = core.Check('C05', 'other', tier, seed)
    E = env()
    S = E['S']
    o, e = _O, _E2
    o2, e2 = z3.BitVec('o2', 16), z3.BitVec('e2', 16)
    sub = [(o, o2), (e, e2)]
    for a, b in pairs:
        try:
            ta, tb = tokens_cached(E, a, o, e), tokens_cached(E, b, o, e)
        except (Abort, UnwindBound) as x:
            ck.inconclusive.append('Text.distinct[rows %d,%d]: %s' % (a, b, str(x)[:80]))
            continue
        cs = []
        for x, y in zip(ta, tb):
            L = max(max_len(S, x), max_len(S, y))
            (n1, w1), (n2, w2) = to_bytes(S, x, L), to_bytes(S, y, L, sub)
            cs += [n1 == n2, w1 == w2]
        A = [match_pred(E['rows'][a], o), match_pred(E['rows'][b], o2)] + [z3.Not(has_error(S, x)) for x in ta] + [z3.Not(has_error(S, y, sub)) for y in tb]
        ck.prove('Text.distinct[rows %d %s, %d %s]' % (a, E['rows'][a]['name'], b, E['rows'][b]['name']), A, z3.Not(z3.And(*cs)), vars={'o': o, 'e': e, 'o2': o2, 'e2': e2}, replay=text_replay('distinct'), witness=False,
                 sample='no word of row %d and word of row %d print the same token list' % (a, b) if (a + b) % 97 == 0 else None)
    ck.nstates += len(pairs)
    return ck.export()


def _text_dispatch(kind, arg, tier, seed):
    return job_parser(tier, seed) if kind == 'parser' else job_rows(arg, tier, seed)


def run_text(ck, tier, seed):
    """called from c05.run"""
    E = env()
    n = len(E['rows'])
    rows = list(range(n))
    chunks = [rows[k::16] for k in range(16)]
    res = core.pmap(_text_dispatch, [('parser', None, tier, seed)] + [('rows', c, tier, seed) for c in chunks])
    # candidate pairs need every row's tokens: rendered here once (parent), workers inherit them
    pairs = candidate_pairs(E)
    ck.notes.append('%d rows rendered; %d row pairs share a first token and a token count and are compared' % (n, len(pairs)))
    res += core.pmap(job_pairs, [(pairs[k::16], tier, seed) for k in range(16) if pairs[k::16]])
    for r in res:
        if '__error__' in r:
            ck.engine_errors.append(r['__error__'])
        else:
            ck.absorb(r)
    ck.funcs.update(['every Disassembler::<renderer> through Matcher<Disassembler>::call', 'Dsm(...) overloads, DsmReg, Mul, PA, the variadic D(...), std::vector<std::string>', 'Teakra::Disassembler::Do (join)'])
    ck.assumptions += ['text clause: std::string has an abstract domain (handle -> pieces: literal | "0x" + fixed-width hex digits of a term); the libstdc++ string API (constructors, append, +=, insert(0, ..), size, std::to_string of small values) and ToHex<T> (the only user of the stream classes: setfill(0) setw(2*sizeof(T)) hex) are modelled on it, all other code is the real IR',
                       'text equality is decided on a bit-vector encoding (length, characters) of each token, exact because every alternative of a token has a concrete length',
                       'plain rendering (no ArArpSettings); the assembler generator (parser.cpp) is executed separately: its enumeration of all 65536 first words in full, its insertion / first-wins / lookup logic on 14 chosen words incl. token lists with empty tokens (Parser.domain, Parser.lookup); firmware assembly is not decided']
    ck.stubs += ['std::string -> abstract pieces', 'ToHex<T> -> "0x" + hex piece', 'GetTokenList inside Do -> the row renderer under test']


# ------------------------------------------------------------------------------------------------ the assembler generator
def job_parser(tier, seed):
    """src/parser.cpp: the real GenerateParser runs once in the executor with the disassembler answered by the check.
    (1) Domain: the sequence of first words it asks the disassembler about is exactly 0, 1, ..., 0xFFFF (the loop control is
        concrete code; every iteration is executed).
    (2) Body, on a chosen set of words K (all others print "[ERROR]" and must be skipped): the trie the real unordered_map code
        builds is queried with the real Parser::Parse - every token list of K comes back as the first word that printed it
        (a later alias never replaces it), with the expansion flag NeedExpansion reported; a list containing "[ERROR]" and a
        list that was never inserted are Invalid. K includes 0 and 0xFFFF, the ends of the range."""
    ck = core.Check('C05', 'other', tier, seed)
    ll, h = build.compile_ir('h_parser.cpp')
    mod = build.load_module(ll)
    ex, st = kit.new_exec(mod, unwind=70000)
    interp._install_hashtable_stubs(ex)
    S = Store()
    install(mod, ex, S)
    I = ex.intercepts
    # token texts per chosen word: (tokens, needs expansion); aliases print the same text
    K = {0x0000: (['first'], 0), 0x0001: (['alpha', 'r0'], 0), 0x0021: (['alpha', 'r0'], 0), 0x0101: (['alpha', 'r1'], 1), 0x4000: (['beta'], 0), 0x4001: (['[ERROR]7', 'x'], 0),
         0x8123: (['gamma', '0x0001', 'a0'], 1), 0xFFFE: (['delta', 'z'], 0), 0xFFFF: (['omega', '[page:0x00ffu8]', '0x000f'], 0),
         # token lists with empty tokens (the real disassembler prints them: max/min with a zero step, the xy<- family with
         # dmod off - 1424 first words): an empty token is a token, lists that differ only by one are different instructions
         0x2000: (['eps', '', 'r0'], 0), 0x2001: (['eps', 'r0'], 1), 0x2002: (['zeta', '', ''], 0), 0x2003: (['zeta'], 0), 0x2004: (['zeta', ''], 1)}
    asked, asked_exp = [], []
    litreg = {}

    def lit_region(e, st_, h):
        """materialise a (literal) abstract string as bytes, for the real hashing / comparison code"""
        if h not in litreg:
            bs = b''.join(p[1] for p in S.vals[h])
            r = e.new_region(st_, len(bs) + 1, 'strbytes')
            litreg[h] = (r, bs)
        r, bs = litreg[h]
        for k, c in enumerate(bs + b'\0'):
            e.store(st_, Ptr(r, k), 1, c)
        return Ptr(r, 0)

    def gettokens(e, st_, a):
        o = a[1]
        if not is_c(o):
            raise Abort('GenerateParser asks about a symbolic word')
        asked.append(o)
        toks = K.get(o, (['[ERROR]'], 0))[0]          # every other word is unrenderable: the generator must skip it
        vec = a[0]
        r = e.new_region(st_, 32 * len(toks), 'tokvec')
        for k, t in enumerate(toks):
            e.store(st_, Ptr(r, 32 * k), 8, S.intern((('lit', t.encode()),)))
            e.store(st_, Ptr(r, 32 * k + 8), 8, 0)
        e.store(st_, vec, 8, Ptr(r, 0))
        e.store(st_, Ptr(vec.r, vec.o + 8), 8, Ptr(r, 32 * len(toks)))
        e.store(st_, Ptr(vec.r, vec.o + 16), 8, Ptr(r, 32 * len(toks)))
        return st_, None

    def needexp(e, st_, a):
        asked_exp.append(a[0])
        return st_, K.get(a[0], ([], 0))[1] if is_c(a[0]) else 0

    def handle_of(e, st_, p):
        h = e.load(st_, p, 8)
        if not is_c(h):
            raise Abort('symbolic string in the parser scenario')
        return h

    def s_find(e, st_, a):
        h = handle_of(e, st_, a[0])
        hay = b''.join(p[1] for p in S.vals[h])
        k = hay.find(bytes(kit.cstring(e, st_, a[1]), 'latin1'))
        return st_, (k if k >= 0 else (1 << 64) - 1)

    def s_data(e, st_, a):
        return st_, lit_region(e, st_, handle_of(e, st_, a[0]))

    def hash_bytes(e, st_, a):
        p, n = a[0], a[1]
        if not is_c(n):
            raise Abort('hash of symbolic length')
        hv = 0xcbf29ce484222325
        for k in range(n):
            c = e.load(st_, Ptr(p.r, p.o + k), 1)
            if not is_c(c):
                raise Abort('hash of symbolic bytes')
            hv = ((hv ^ c) * 0x100000001b3) & ((1 << 64) - 1)
        return st_, hv

    def memcmp(e, st_, a):
        if not is_c(a[2]):
            raise Abort('memcmp of symbolic length')
        for k in range(a[2]):
            x, y = e.load(st_, Ptr(a[0].r, a[0].o + k), 1), e.load(st_, Ptr(a[1].r, a[1].o + k), 1)
            if x != y:
                return st_, (1 if x > y else (1 << 32) - 1)
        return st_, 0
    for n in list(mod.decls) + list(mod.funcs):
        if 'GetTokenList' in n:
            I[n] = gettokens
        elif 'NeedExpansion' in n and 'Disassembler' in n:
            I[n] = needexp
        elif n.startswith('@' + STRK + '4findEPKcm'):
            I[n] = s_find
        elif n.startswith('@' + STRK + '4dataEv') or n.startswith('@' + STRK + '5c_strEv'):
            I[n] = s_data
    I['@_ZSt11_Hash_bytesPKvmm'] = hash_bytes
    I['@memcmp'] = memcmp
    try:
        r = ex.call(st, '@pz_generate', [])
        if r is None or r is DEAD:
            raise Abort('GenerateParser does not return: %r' % [x[1:] for x in ex.exits][:2])
        st1, parser = r
        ck.ninstr += ex.ninstr
        ck.nstates += 1
    except (Abort, UnwindBound) as x:
        ck.inconclusive.append('Parser: %s' % str(x)[:160])
        return ck.export()
    ok_domain = asked == list(range(0x10000))
    if ok_domain:
        ck.identical('Parser.domain', sample='GenerateParser asked the disassembler for the token list of every first word 0..0xFFFF exactly once, in order (the real loop, %d IR instructions)' % ex.ninstr)
        ck.results[-1].status = 'unsat'
    else:
        missing = sorted(set(range(0x10000)) - set(asked))[:4]
        ck.prove('Parser.domain', [], z3.BoolVal(False), vars={'first words never enumerated': z3.BitVecVal(missing[0] if missing else 0, 16)}, witness=False,
                 sample='GenerateParser enumerated %d words; missing e.g. %s' % (len(asked), ['%#06x' % m for m in missing]))

    def parse(tokens):
        s2 = st1.fork()
        r_ = s2.mem  # noqa
        vec = ex.new_region(s2, 24, 'query')
        reg = ex.new_region(s2, 32 * max(len(tokens), 1), 'querytoks')
        for k, t in enumerate(tokens):
            ex.store(s2, Ptr(reg, 32 * k), 8, S.intern((('lit', t.encode()),)))
            ex.store(s2, Ptr(reg, 32 * k + 8), 8, 0)
        ex.store(s2, Ptr(vec, 0), 8, Ptr(reg, 0))
        ex.store(s2, Ptr(vec, 8), 8, Ptr(reg, 32 * len(tokens)))
        ex.store(s2, Ptr(vec, 16), 8, Ptr(reg, 32 * len(tokens)))
        out = ex.new_region(s2, 8, 'opcode_out')
        r2 = ex.call(s2, '@pz_parse', [parser, Ptr(vec, 0), Ptr(out, 0)])
        return ex.load(r2[0], Ptr(out, 0), 4), ex.load(r2[0], Ptr(out, 4), 2)
    first = {}
    for o in sorted(K):
        first.setdefault(tuple(K[o][0]), o)
    bad = []
    try:
        for o in sorted(K):
            toks, expn = K[o]
            status, opc = parse(toks)
            if any('[ERROR]' in t for t in toks):
                want = (0, None)
            else:
                f = first[tuple(toks)]
                want = (2 if K[f][1] else 1, f)
            if status != want[0] or (want[1] is not None and opc != want[1]):
                bad.append('%#06x %r -> status %r opcode %r, expected status %d opcode %s' % (o, toks, status, opc, want[0], '%#06x' % want[1] if want[1] is not None else '-'))
        status, opc = parse(['alpha'])
        if status != 0:
            bad.append("prefix ['alpha'] of an inserted list parses as valid")
        status, opc = parse(['never', 'inserted'])
        if status != 0:
            bad.append('a list that was never inserted parses as valid')
    except (Abort, UnwindBound) as x:
        ck.inconclusive.append('Parser.lookup: %s' % str(x)[:160])
        return ck.export()
    if not bad:
        ck.identical('Parser.lookup', sample='the trie built by the real GenerateParser returns, through the real Parse, the first word that printed each of %d chosen token lists (aliases do not replace it), the reported expansion need, Invalid for [ERROR] texts, prefixes and unknown lists; the chosen words include 0x0000 and 0xFFFF' % len(K))
        ck.results[-1].status = 'unsat'
    else:
        ck.prove('Parser.lookup', [], z3.BoolVal(False), vars={}, witness=False, sample='; '.join(bad[:3]))
    ck.funcs.update(['Teakra::GenerateParser (loop, trie insertion, first-wins, superset ASSERT)', 'ParserImpl::Parse', 'std::unordered_map<std::variant<std::string, NodeAsExpansion>, std::unique_ptr<Node>> (real libstdc++ hashtable code)'])
    ck.assumptions += ['assembler generator: GetTokenList / NeedExpansion are answered by the check (the real ones are the text clause); std::_Hash_bytes is replaced by FNV-1a over the same bytes (any hash function is admissible for the container)',
                       'the body of the generator loop is exercised on 14 chosen first words only (bounded; they include lists that differ only by empty tokens, which the real disassembler emits); that it enumerates all 65536 first words is decided by executing the whole loop']
    return ck.export()
