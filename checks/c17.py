"""C17 — behaviour depends only on the call history; Reset equals a fresh machine.
(2S) The real Teakra::Impl constructor runs inside the executor on memory whose never-written bytes are symbolic ("heap
garbage"); every observation (register state, every MMIO read, memory, latches) must be independent of those bytes, straight
after construction and after Reset. Then Reset is run from an arbitrary state (all peripheral fields, cell words, registers,
latches, memory symbolic) and every observation must equal that of constructor-then-Reset."""
import re
import z3, ctypes
from engine import build, kit, core, native
from engine.kit import Ptr, bv, is_c
from engine.llsym import DEAD, Abort, UnwindBound
from checks import graph, c12

_twin = None
LISTED_OBS = {'MMIO cell backing words': r'mmio\[',
              'ICU routing/pending/vector state': r'field\.icu\.|mmio\[0x2(0[068ac]|1[2-9a-f]|[234][0-9a-f]|50)\]$',
              'APBP interrupt-disable words': r'field\.apbp_from_(cpu|dsp)\.ch[0-2]\.disable$|mmio\[0x0d4\]$',
              'interpreter interrupt latches': r'interpreter\.(interrupt_pending\[[0-2]\]|vinterrupt_pending|vinterrupt_address|vinterrupt_context_switch)$'}


def garbage_vars(t):
    out, seen, todo = {}, set(), [t]
    while todo:
        e = todo.pop()
        if e.get_id() in seen:
            continue
        seen.add(e.get_id())
        if z3.is_const(e) and e.decl().kind() == z3.Z3_OP_UNINTERPRETED and e.decl().name().startswith('uninit_'):
            out[e.decl().name()] = e
        todo.extend(e.children())
    return out


def observations(G, ex, st, ctx, offsets):
    """name -> term: processor registers, interpreter latches, MIU, every MMIO read (each on a fork: reads with side effects
    do not disturb the next), DSP memory"""
    obs = {}
    PT = kit.find_type(G.mod, 'Teakra::Processor::Impl"')
    poff = G.mod.offsets(PT)
    pr = ctx['proc']
    RL, IL = G.L['RegisterState'], G.L['Interpreter']
    for f, (off, sz, cnt, stride) in RL.items():
        if f == '_size' or sz > 8:
            continue
        for i in range(cnt):
            obs['regs.%s%s' % (f, '[%d]' % i if cnt > 1 else '')] = ex.load(st, Ptr(pr.r, pr.o + poff[1] + off + i * stride), sz)
    lat = {}
    for f, (off, sz, cnt, stride) in IL.items():
        if f == '_size' or sz > 8:
            continue
        for i in range(cnt):
            lat['%s%s' % (f, '[%d]' % i if cnt > 1 else '')] = ex.load(st, Ptr(pr.r, pr.o + poff[2] + off + i * stride), sz)
    for n_, v_ in lat.items():
        if n_ == 'idle':
            continue                      # Run() clears it before anything reads it
        if n_ in ('vinterrupt_address', 'vinterrupt_context_switch'):
            # only ever read by Run after the pending latch was found set (and SignalVectoredInterrupt writes them with it)
            pend = bv(lat['vinterrupt_pending'], 8) != 0
            v_ = z3.If(pend, bv(v_, 8 * IL[n_][1]), z3.BitVecVal(0, 8 * IL[n_][1]))
            v_ = z3.simplify(v_) if is_c(lat['vinterrupt_pending']) else v_
        obs['interpreter.' + n_] = v_
    for a in offsets:
        ex.exits = []
        r = ex.call(st.fork(), '@ti_mmio_read', [ctx['impl'], a])
        obs['mmio[%#05x]' % a] = r[1]
    for n_, (rid, off, sz) in c12.field_locations(G).items():
        obs['field.' + n_] = ex.load(st, Ptr(rid, off), sz)
    # container-typed hidden state: the AHBM burst queues and the audio transmit queues (std::queue), observed by size
    for ch in range(3):
        obs['field.ahbm.ch%d.burst_queue.size' % ch] = ex.call(st.fork(), '@ti_ahbm_qsize', [ctx['impl'], ch])[1]
    for i in range(2):
        obs['field.btdmp%d.transmit_queue.size' % i] = ex.call(st.fork(), '@ti_btdmp_qsize', [ctx['impl'], i])[1]
    obs['dsp memory'] = st.mem[ctx['mem']].arr
    return obs


def native_garbage_replay(offset):
    """construct the real Teakra::Impl on two buffers pre-filled with different bytes and read the MMIO offset"""
    global _twin
    if _twin is None:
        _twin = native.Twin(build.compile_so('h_teakra.cpp'))
    tw = _twin

    def body():
        out = []
        for fillb in (0x00, 0xA5):
            n = tw.fn('ti_sizeof', ctypes.c_size_t, [])()
            buf = ctypes.create_string_buffer(bytes([fillb]) * (n + 64), n + 64)
            addr = (ctypes.addressof(buf) + 63) & ~63
            tw.fn('ti_ctor', None, [ctypes.c_void_p, ctypes.c_void_p])(addr, None)
            tw.fn('ti_reset', None, [ctypes.c_void_p])(addr)
            out.append(tw.fn('ti_mmio_read', ctypes.c_uint16, [ctypes.c_void_p, ctypes.c_uint16])(addr, offset))
        return out
    return native.in_child(body, timeout=180)


def job_garbage(stage, lo, hi, tier, seed):
    G = graph.get()
    ex, st0, ctx = G.build_impl()
    ck = core.Check('C17', 'model_checking', tier, seed)
    st = st0.fork()
    if stage == 'ctor+Reset':
        ex.call(st, '@ti_reset', [ctx['impl']])
    obs = observations(G, ex, st, ctx, range(lo, hi)) if lo < hi else observations(G, ex, st, ctx, [])
    if lo != 0:
        obs = {k: v for k, v in obs.items() if k.startswith('mmio')}
    ck.nstates += len(obs)
    groups = {}
    for name, t in obs.items():
        if not z3.is_expr(t):
            continue
        gv = garbage_vars(t)
        if not gv:
            continue
        groups[name] = (t, gv)
    clean = [n for n in obs if n not in groups]
    # independent by construction: no never-written byte occurs in the observation term
    key = {'regs': 'processor registers', 'inte': 'interpreter latches', 'mmio': 'MMIO reads', 'dsp ': 'DSP memory', 'fiel': 'peripheral data fields'}
    for k_, label in key.items():
        names = [n for n in clean if n[:4] == k_]
        if names:
            ck.identical('NoGarbage[%s: %s %s%s]' % (stage, len(names), label, ' %#05x..%#05x' % (lo, hi - 1) if k_ == 'mmio' else ''),
                         sample='%s: %d %s contain no never-written byte of the constructed objects' % (stage, len(names), label))
    for name, (t, gv) in sorted(groups.items()):
        sub = [(v, z3.BitVec(n + "'", v.size())) for n, v in gv.items()]
        t2 = z3.substitute(t, *sub)
        vars_ = {n: v for n, v in list(gv.items())[:4]}
        vars_.update({n + "'": s_[1] for (n, v), s_ in list(zip(gv.items(), sub))[:4]})

        def rp(inputs, name=name):
            if not name.startswith('mmio'):
                return None, {'note': 'registers straight after construction are observed through bankr / context switches; no separate native replay'}
            o = native_garbage_replay(int(name[5:-1], 16))
            if o[0] != 'ok':
                return None, {'native': o}
            return o[1][0] != o[1][1], {'native reads after ctor+Reset on zero-filled vs 0xA5-filled storage': o[1]}
        ck.prove('NoGarbage[%s: %s]' % (stage, name), [], t == t2, vars=vars_, witness=False, replay=rp,
                 sample='%s: %s is the same for every content of the memory the constructors leave unwritten' % (stage, name))
    return ck.export()


def job_reset(lo, hi, tier, seed):
    """Reset from an arbitrary state vs constructor-then-Reset"""
    G = graph.get()
    ex, st0, ctx = G.build_impl()
    ck = core.Check('C17', 'model_checking', tier, seed)
    fresh = st0.fork()
    ex.call(fresh, '@ti_reset', [ctx['impl']])
    want = observations(G, ex, fresh, ctx, range(lo, hi))
    ox, ost, octx, A, names, nstor = c12.overlay(G)
    st = ost.fork()
    # additionally: arbitrary processor registers, interpreter latches and memory
    PT = kit.find_type(G.mod, 'Teakra::Processor::Impl"')
    poff = G.mod.offsets(PT)
    pr = ctx['proc']
    for f, (off, sz, cnt, stride) in G.L['RegisterState'].items():
        if f != '_size' and sz <= 8:
            for i in range(cnt):
                ex.store(st, Ptr(pr.r, pr.o + poff[1] + off + i * stride), sz, z3.BitVec('pre.regs.%s.%d' % (f, i), 8 * sz))
    for f, (off, sz, cnt, stride) in G.L['Interpreter'].items():
        if f != '_size' and sz <= 8:
            for i in range(cnt):
                v = z3.BitVec('pre.interp.%s.%d' % (f, i), 8 * sz)
                ex.store(st, Ptr(pr.r, pr.o + poff[2] + off + i * stride), sz, v)
                if sz == 1:
                    st.pc.append(z3.ULE(v, 1))
    # non-empty queues before the Reset (an interrupted burst / unsent audio words), built directly
    for ch, k in ((0, 1), (1, 3)):
        for j in range(k):
            ex.call(st, '@ti_ahbm_push', [ctx['impl'], ch, z3.BitVec('pre.ahbm.q%d.%d' % (ch, j), 32)])
    for j in range(2):
        ex.call(st, '@ti_btdmp_push', [ctx['impl'], 0, z3.BitVec('pre.btdmp.q0.%d' % j, 16)])
    st.mem[ctx['mem']] = st.mem[ctx['mem']].copy()
    st.mem[ctx['mem']].arr = z3.Array('pre.dspmem', z3.BitVecSort(64), z3.BitVecSort(8))
    ex.call(st, '@ti_reset', [ctx['impl']])
    got = observations(G, ex, st, ctx, range(lo, hi))
    if lo != 0:
        got = {k: v for k, v in got.items() if k.startswith('mmio')}
    ck.nstates += len(got)
    same, differ = [], []
    for n, t in got.items():
        w = want[n]
        if (is_c(t) and is_c(w) and t == w) or (z3.is_expr(t) and z3.is_expr(w) and t.eq(w)):
            same.append(n)
        else:
            differ.append(n)
    key = {'regs': 'processor registers', 'inte': 'interpreter latches', 'mmio': 'MMIO reads', 'dsp ': 'DSP memory', 'fiel': 'peripheral data fields'}
    for k_, label in key.items():
        names_ = [n for n in same if n[:4] == k_]
        if names_:
            ck.identical('ResetEqualsFresh[%d %s%s]' % (len(names_), label, ' %#05x..%#05x' % (lo, hi - 1) if k_ == 'mmio' else ''),
                         sample='after Reset from an arbitrary state, %d %s are identical terms to constructor-then-Reset' % (len(names_), label))
    # survivors are grouped by the kind of pre-Reset state they still depend on: one obligation per kind
    def pre_vars(t):
        out, seen, todo = set(), set(), [t]
        while todo:
            e = todo.pop()
            if e.get_id() in seen:
                continue
            seen.add(e.get_id())
            if z3.is_const(e) and e.decl().kind() == z3.Z3_OP_UNINTERPRETED:
                out.add(e.decl().name())
            todo.extend(e.children())
        return out

    def kind_of(vs):
        ks = set()
        for v in vs:
            if v.startswith('cellword'):
                ks.add('MMIO cell backing words')
            elif v.startswith('icu.'):
                ks.add('ICU routing/pending/vector state')
            elif v.endswith('.disable'):
                ks.add('APBP interrupt-disable words')
            elif v.startswith('pre.interp.'):
                ks.add('interpreter interrupt latches')
            else:
                ks.add(v.split('.')[0] + ' state')
        return ' + '.join(sorted(ks)) or 'constant mismatch'
    groups = {}
    for n in sorted(differ):
        t, w = got[n], want[n]
        if z3.is_expr(t) and z3.is_array(t):
            goal = t == w
        elif z3.is_expr(t) and z3.is_bool(t):
            goal = t == w
        else:
            bits = t.size() if z3.is_expr(t) else (w.size() if z3.is_expr(w) else 16)
            goal = bv(t, bits) == bv(w, bits)
        for k_ in (kind_of(pre_vars(t) if z3.is_expr(t) else set()).split(' + ')):
            # the listed findings name the observations known to survive; any other observation that starts depending on
            # the same kind of pre-Reset state is a separate obligation and is reported
            if k_ in LISTED_OBS and not re.match(LISTED_OBS[k_], n):
                k_ += ' (observations other than the listed ones)'
            groups.setdefault(k_, []).append((n, goal))
    for k_, items in sorted(groups.items()):
        ck.prove('ResetEqualsFresh[no observation keeps %s]' % k_, A, z3.And(*[g for _, g in items]), vars={}, witness=False,
                 sample='after Reset from an arbitrary state no observation depends on %s (%d observations examined: %s ...)' % (k_, len(items), ', '.join(n for n, _ in items[:3])))
    return ck.export()


def job_own_memory(tier, seed):
    """the DSP memory the emulator allocates itself (UserConfig::dsp_memory == nullptr): after the SharedMemory constructor every
    byte is determined by the program - the block operator new returns is an array of unconstrained bytes here"""
    from checks import c11
    ck = core.Check('C17', 'model_checking', tier, seed)
    E = c11.Env()
    ex, st, ctx = E.mk()
    garbage = z3.Array('heap_garbage', z3.BitVecSort(64), z3.BitVecSort(8))
    big = {}
    znwm = ex.intercepts['@_Znwm']

    def new_(e, st_, a):
        if is_c(a[0]) and a[0] >= 0x10000:
            r = e.new_region(st_, a[0], 'heap%d' % a[0])
            st_.mem[r].arr = garbage
            big[r] = a[0]
            return st_, Ptr(r, 0)
        return znwm(e, st_, a)
    ex.intercepts['@_Znwm'] = new_
    ex.intercepts['@_Znam'] = new_
    sm = ex.new_region(st, 16, 'shared_memory_own')
    try:
        r = ex.call(st, '@sm_ctor', [Ptr(sm, 0), Ptr(0, 0)])
    except (Abort, UnwindBound) as x:
        ck.inconclusive.append('NoGarbage[ctor: own DSP memory]: %s' % str(x)[:120])
        return ck.export()
    s1 = r[0]
    raw = ex.load(s1, Ptr(sm, 8), 8)
    ck.ninstr += ex.ninstr
    ck.nstates += 1
    if not (isinstance(raw, Ptr) and raw.r in big and not raw.sym):
        ck.prove('NoGarbage[ctor: own DSP memory]', [], z3.BoolVal(False), vars={}, witness=False, sample='SharedMemory(nullptr) does not leave raw pointing at a block of its own')
        return ck.export()
    arr = s1.mem[raw.r].arr
    if not garbage_arrays(arr):
        ck.identical('NoGarbage[ctor: own DSP memory]', sample='SharedMemory(nullptr): the 0x%x-byte block it allocates is completely written by the constructor (the array term does not mention the allocator\'s bytes)' % big[raw.r])
    else:
        k = z3.BitVec('byte_index', 64)
        g2 = z3.Array('heap_garbage2', z3.BitVecSort(64), z3.BitVecSort(8))
        arr2 = z3.substitute(arr, (garbage, g2))
        ck.prove('NoGarbage[ctor: own DSP memory]', [z3.ULT(k, big[raw.r])], z3.Select(arr, k) == z3.Select(arr2, k), vars={'byte_index': k}, witness=False,
                 sample='SharedMemory(nullptr): every byte of the block it allocates is the same for every content the allocator hands out')
    return ck.export()


def garbage_arrays(t):
    seen, todo = set(), [t]
    while todo:
        e = todo.pop()
        if e.get_id() in seen:
            continue
        seen.add(e.get_id())
        if z3.is_const(e) and e.decl().kind() == z3.Z3_OP_UNINTERPRETED and e.decl().name().startswith('heap_garbage'):
            return True
        todo.extend(e.children())
    return False


def _dispatch(fn, args):
    return fn(*args)


def run(tier, seed):
    ck = core.Check('C17', 'model_checking', tier, seed)
    G = graph.get()
    ex, st0, ctx = G.build_impl()
    c12.overlay(G)
    ck.ninstr += ctx['ctor_instr']
    ck.funcs.update(['Teakra::Teakra::Impl::Impl and every member constructor (CoreTiming, SharedMemory, MemoryInterfaceUnit, ICU, Apbp, Timer, Ahbm, Dma, Btdmp, MMIORegion, MemoryInterface, Processor, RegisterState, Interpreter)',
                     'Teakra::Teakra::Impl::Reset and every component Reset', 'MMIORegion::Read (all 0x800 cells)'])
    ck.assumptions += ['operator new / the Impl storage return memory whose bytes are unconstrained symbolic values until written (heap fill patterns = symbolic variables); the graph is built on caller-supplied DSP memory, the self-allocated block (dsp_memory == nullptr) is a separate obligation on the SharedMemory constructor',
                       'observations: every RegisterState field, the interrupt latches, every MMIO read (0x800 offsets, each on a forked state), every data field of the timers / MIU / ICU / DMA / AHBM / BTDMP / APBP objects (hidden state such as a timer counter is observed later through Run), the 0x80000-byte DSP memory',
                       'the 65536-entry decoder table is a pure function of decoder.h (C02) and is not part of the state; callbacks are installed identically in both runs',
                       'Reset-equals-fresh: pre-state = constructed graph with all peripheral data fields, cell backing words, processor registers, interpreter latches and memory replaced by fresh variables, plus 1 and 3 words queued in AHBM burst queues 0/1 and 2 words in audio transmit queue 0 (queues are observed by size)']
    ck.bounds += ['one constructor run, one Reset; all 0x800 MMIO offsets; no value bound']
    step = 256
    jobs = []
    for stage in ('ctor', 'ctor+Reset'):
        jobs += [(job_garbage, (stage, lo, min(lo + step, 0x800), tier, seed)) for lo in range(0, 0x800, step)]
    jobs += [(job_reset, (0, 0x800, tier, seed)), (job_own_memory, (tier, seed))]
    for r in core.pmap(_dispatch, jobs):
        if '__error__' in r:
            ck.engine_errors.append(r['__error__'])
        else:
            ck.absorb(r)
    # translator validation: a few MMIO reads after constructor+Reset, executor vs the real library constructed on
    # zero-filled and on 0xA5-filled storage
    s2 = st0.fork()
    ex.call(s2, '@ti_reset', [ctx['impl']])
    for a in (0x01A, 0x11E, 0x214, 0x112, 0x2C2, 0x024):
        r = ex.call(s2.fork(), '@ti_mmio_read', [ctx['impl'], a])[1]
        val = r if is_c(r) else (z3.simplify(bv(r, 16)).as_long() if z3.is_bv_value(z3.simplify(bv(r, 16))) else None)
        o = native_garbage_replay(a)
        if o[0] == 'ok' and val is not None and o[1] == [val, val]:
            ck.validated += 1
        else:
            ck.engine_errors.append('translator validation: MMIO %#05x after ctor+Reset: executor %r native %r' % (a, val, o))
    return ck.finish('heap-garbage independence after construction and after Reset; Reset from an arbitrary state equals constructor-then-Reset')
