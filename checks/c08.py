"""C08 — calls, returns, stack push/pop and context switches restore state exactly.
Two-instruction compositions through the real decode table (row A, then row B on A's symbolic post-state) from an
arbitrary well-formed state: call;ret / push X;pop X / cntx_s;cntx_r / banke twice / bankr twice / interrupt entry;reti."""
import z3
from engine import build, kit, core
from engine.kit import Ptr, bv, is_c
from engine.llsym import DEAD, Abort, UnwindBound
from checks import interp, c03
from spec import alu, forms

env = c03.env
REGNAMES = ['a0', 'a0l', 'a0h', 'a0e', 'a1', 'a1l', 'a1h', 'a1e', 'b0', 'b0l', 'b0h', 'b0e', 'b1', 'b1l', 'b1h', 'b1e', 'r0', 'r1', 'r2', 'r3', 'r4', 'r5', 'r6', 'r7',
            'y0', 'p', 'pc', 'sp', 'sv', 'lc', 'ar0', 'ar1', 'arp0', 'arp1', 'arp2', 'arp3', 'ext0', 'ext1', 'ext2', 'ext3', 'stt0', 'stt1', 'stt2', 'st0', 'st1', 'st2',
            'cfgi', 'cfgj', 'mod0', 'mod1', 'mod2', 'mod3', 'undefine']
REGISTER = ['r0', 'r1', 'r2', 'r3', 'r4', 'r5', 'r7', 'y0', 'st0', 'st1', 'st2', 'p', 'pc', 'sp', 'cfgi', 'cfgj', 'b0h', 'b1h', 'b0l', 'b1l', 'ext0', 'ext1', 'ext2', 'ext3',
            'a0', 'a1', 'a0l', 'a1l', 'a0h', 'a1h', 'lc', 'sv']
AASM = ['ar0', 'ar1', 'arp0', 'arp1', 'arp2', 'arp3', None, None, 'stt0', 'stt1', 'stt2', None, 'mod0', 'mod1', 'mod2', 'mod3']
# excluded from the single-word round trip by the statement: pc (not pushable), the product high word and whole
# accumulators (they have dedicated multi-word push/pop pairs)
REG_EXCLUDE = ('pc', 'p', 'a0', 'a1')


def find(E, name, types):
    out = [i for i, f in enumerate(E.forms) if f['name'] == name and tuple(p[1] for p in f['ops'] if p[0] in ('at', 'const')) == tuple(types)]
    if len(out) != 1:
        raise KeyError('row %s%r: %r' % (name, types, out))
    return out[0]


def fld(E, i, k, o, e):
    ops = [p for p in E.forms[i]['ops'] if p[0] in ('at', 'const')]
    return forms.field(o, e, ops[k])


CONS = []      # constraints on the opcodes of the last composition (row membership, operand choices): part of every obligation's assumptions


def two(E, ck, ia, ib, oa, ea, ob, eb, A, extraA=(), extraB=()):
    """run row ia then row ib; returns (mid result, final result) or None"""
    CONS.clear()
    CONS.extend([E.match_pred(E.rows[ia], oa)] + list(extraA) + [E.match_pred(E.rows[ib], ob)] + list(extraB))
    ra = E.run_row(ia, oa, ea, list(A) + [E.match_pred(E.rows[ia], oa)] + list(extraA))
    ck.ninstr += ra['ninstr']
    if ra['st'] is None:
        return ra, None
    rb = E.run_row(ib, ob, eb, [E.match_pred(E.rows[ib], ob)] + list(extraB), st_in=ra['st'], keep=True)
    ck.ninstr += rb['ninstr']
    ck.nstates += 2
    return ra, rb


def noexit(r):
    return z3.Not(kit.exit_cond(type('X', (), {'exits': r['exits']})()))


def same_all(E, post, R, skip=()):
    return [post[f] == R[f] for f in post if f not in skip and not post[f].eq(R[f])]


def job_callret(kind, tier, seed):
    E = env()
    ck = core.Check('C08', 'model_checking', tier, seed)
    R = E.R()
    inv = E.inv()
    oa, ea, ob, eb = [z3.BitVec(n, 16) for n in ('o1', 'e1', 'o2', 'e2')]
    form = {'call': ('call', ('Address18_16', 'Address18_2', 'Cond')), 'calla_l': ('calla', ('Axl',)), 'calla': ('calla', ('Ax',)), 'callr': ('callr', ('RelAddr7', 'Cond'))}[kind]
    ia = find(E, *form)
    for retname in ('ret', 'rets'):
        ib = find(E, retname, ('Cond',) if retname == 'ret' else ('Imm8',))
        condk = {'call': 2, 'callr': 1}.get(kind)
        taken = alu.cond_pass(R, fld(E, ia, condk, oa, ea)) if condk is not None else z3.BoolVal(True)
        extraB = [fld(E, ib, 0, ob, eb) == 0] if retname == 'ret' else []
        try:
            ra, rb = two(E, ck, ia, ib, oa, ea, ob, eb, inv + [taken], extraB=extraB)
        except (Abort, UnwindBound) as x:
            ck.inconclusive.append('%s;%s: %r' % (kind, retname, x))
            continue
        if rb is None or rb['st'] is None:
            ck.prove('CallRet[%s;%s]' % (kind, retname), inv + [taken], z3.BoolVal(False), vars={'o1': oa})
            continue
        post = E.post_regs(rb['st'])
        skip = ('sp',) if retname == 'rets' else ()
        g = same_all(E, post, R, skip) + [noexit(rb)]
        if retname == 'rets':
            g.append(post['sp'] == R['sp'] + z3.ZeroExt(8, fld(E, ib, 0, ob, eb)))
        # only the two stack cells below sp are written
        dm, dm0 = E.post_dmem(rb['st']), E.pre_dmem()
        x = z3.BitVec('probe', 16)
        g.append(z3.Implies(z3.And(x != R['sp'] - 1, x != R['sp'] - 2), z3.Select(dm, x) == z3.Select(dm0, x)))
        # while inside the callee the pc is the target the form names
        mid = E.post_regs(ra['st'])
        if kind == 'call':
            g.append(mid['pc'] == z3.Concat(z3.BitVecVal(0, 14), fld(E, ia, 1, oa, ea), fld(E, ia, 0, oa, ea)))
        elif kind == 'callr':
            g.append(mid['pc'] == R['pc'] + z3.SignExt(25, fld(E, ia, 0, oa, ea)))
        vars_ = c03.vars_of(R, {'o1': oa, 'e1': ea, 'o2': ob, 'e2': eb, 'probe': x})
        ck.prove('CallRet[%s;%s]' % (kind, retname), inv + [taken] + CONS, z3.And(*g), vars=vars_,
                 sample='%s (condition true) then %s: pc back at the instruction after the call, sp restored%s, no other register changes, only the two stack words below sp written; both pc word orders (cpc symbolic)' % (kind, retname, ' plus the immediate' if retname == 'rets' else ''))
    if kind in ('call', 'callr'):
        condk = {'call': 2, 'callr': 1}[kind]
        nt = z3.Not(alu.cond_pass(R, fld(E, ia, condk, oa, ea)))
        r = E.run_row(ia, oa, ea, inv + [E.match_pred(E.rows[ia], oa), nt])
        ck.ninstr += r['ninstr']
        g = same_all(E, E.post_regs(r['st']), R) + [E.post_dmem(r['st']) == E.pre_dmem(), noexit(r)]
        ck.prove('CallNotTaken[%s]' % kind, inv + [nt, E.match_pred(E.rows[ia], oa)], z3.And(*g), vars=c03.vars_of(R, {'o1': oa, 'e1': ea}), sample='%s with a false condition has no effect at all' % kind)
    return ck.export()


def reg_value(E, st, name):
    """RegToBus16(name) on state st, executed by the real helper (no saturation on read)"""
    ex, st0, ctx = E.base()
    r = ex.call(st.fork(), '@k_reg2bus', [ctx['interp'], REGNAMES.index(name), 0])
    return bv(r[1], 16)


def job_pushpop(kind, k, tier, seed):
    E = env()
    ck = core.Check('C08', 'model_checking', tier, seed)
    R = E.R()
    oa, ea, ob, eb = [z3.BitVec(n, 16) for n in ('o1', 'e1', 'o2', 'e2')]
    A = E.inv() + [R['sat'] == 1, R['lp'] == 0]      # the statement's preconditions: saturation disabled, no hardware loop active
    ex, st0, ctx = E.base()
    MORE = []
    simple = {'r6': 'r[6]', 'repc': 'repc', 'x0': 'x[0]', 'x1': 'x[1]', 'y1': 'y[1]', 'prpage': 'prpage'}
    try:
        if kind == 'Register':
            name = REGISTER[k]
            ia, ib = find(E, 'push', ('Register',)), find(E, 'pop', ('Register',))
            ra, rb = two(E, ck, ia, ib, oa, ea, ob, eb, A, [fld(E, ia, 0, oa, ea) == k], [fld(E, ib, 0, ob, eb) == k])
            label = 'push %s;pop %s' % (name, name)
        elif kind == 'ArArpSttMod':
            name = AASM[k]
            ia, ib = find(E, 'push', ('ArArpSttMod',)), find(E, 'pop', ('ArArpSttMod',))
            ra, rb = two(E, ck, ia, ib, oa, ea, ob, eb, A, [fld(E, ia, 0, oa, ea) == k], [fld(E, ib, 0, ob, eb) == k])
            label = 'push %s;pop %s' % (name, name)
        elif kind == 'Abe':
            name = forms.ENUMS['Abe'][k]
            ia, ib = find(E, 'push', ('Abe',)), find(E, 'pop', ('Abe',))
            ra, rb = two(E, ck, ia, ib, oa, ea, ob, eb, A, [fld(E, ia, 0, oa, ea) == k], [fld(E, ib, 0, ob, eb) == k])
            label = 'push %s;pop %s' % (name, name)
        elif kind == 'simple':
            name = list(simple)[k]
            ia, ib = find(E, 'push_' + name, ()), find(E, 'pop_' + name, ())
            ra, rb = two(E, ck, ia, ib, oa, ea, ob, eb, A)
            label = 'push %s;pop %s' % (name, name)
        elif kind == 'Px':
            name = 'p%d' % k
            ia, ib = find(E, 'push', ('Px',)), find(E, 'pop', ('Px',))
            ra, rb = two(E, ck, ia, ib, oa, ea, ob, eb, A, [fld(E, ia, 0, oa, ea) == k], [fld(E, ib, 0, ob, eb) == k])
            label = 'push %s;pop %s' % (name, name)
        elif kind == 'acc32':
            name = ['a0', 'a1', 'b0', 'b1'][k]
            ia = find(E, 'pusha', ('Ax',) if k < 2 else ('Bx',))
            ib = find(E, 'popa', ('Ab',))
            abk = forms.ENUMS['Ab'].index(name)
            ra, rb = two(E, ck, ia, ib, oa, ea, ob, eb, A, [fld(E, ia, 0, oa, ea) == (k & 1)], [fld(E, ib, 0, ob, eb) == abk])
            label = 'pusha %s;popa %s' % (name, name)
        elif kind == 'acc40':
            # push aXe ; pusha aX ; popa aX ; pop aXe : the whole 40-bit accumulator
            name = ['a0', 'a1', 'b0', 'b1'][k]
            abk = forms.ENUMS['Ab'].index(name)
            i1, i2 = find(E, 'push', ('Abe',)), find(E, 'pusha', ('Ax',) if k < 2 else ('Bx',))
            i3, i4 = find(E, 'popa', ('Ab',)), find(E, 'pop', ('Abe',))
            o3, e3, o4, e4 = [z3.BitVec(n, 16) for n in ('o3', 'e3', 'o4', 'e4')]
            ra, r2 = two(E, ck, i1, i2, oa, ea, ob, eb, A, [fld(E, i1, 0, oa, ea) == abk], [fld(E, i2, 0, ob, eb) == (k & 1)])
            MORE = [E.match_pred(E.rows[i3], o3), fld(E, i3, 0, o3, e3) == abk, E.match_pred(E.rows[i4], o4), fld(E, i4, 0, o4, e4) == abk]
            MORE = list(CONS) + MORE
            r3 = E.run_row(i3, o3, e3, [E.match_pred(E.rows[i3], o3), fld(E, i3, 0, o3, e3) == abk], st_in=r2['st'], keep=True)
            rb = E.run_row(i4, o4, e4, [E.match_pred(E.rows[i4], o4), fld(E, i4, 0, o4, e4) == abk], st_in=r3['st'], keep=True)
            ck.ninstr += r3['ninstr'] + rb['ninstr']
            label = 'push %se;pusha %s;popa %s;pop %se' % (name, name, name, name)
    except (Abort, UnwindBound) as x:
        ck.inconclusive.append('%s %d: %r' % (kind, k, x))
        return ck.export()
    if rb is None or rb['st'] is None:
        ck.prove('PushPop[%s]' % label, A, z3.BoolVal(False), vars={'o1': oa})
        return ck.export()
    post = E.post_regs(rb['st'])
    g = [noexit(rb), post['sp'] == R['sp']]
    vars_ = c03.vars_of(R, {'o1': oa, 'e1': ea, 'o2': ob, 'e2': eb})
    if kind in ('Register', 'ArArpSttMod'):
        g.append(reg_value(E, rb['st'], name) == reg_value(E, st0, name))
        what = 'the value read through the 16-bit bus is restored'
    elif kind == 'Abe' or kind == 'acc40':
        f = alu.ACC[name[:2]]
        g.append(post[f] == R[f])
        what = 'the whole 40-bit accumulator is restored'
    elif kind == 'acc32':
        f = alu.ACC[name]
        g.append(z3.Extract(31, 0, post[f]) == z3.Extract(31, 0, R[f]))
        g.append(z3.Implies(alu.fits32(R[f]), post[f] == R[f]))
        what = 'the low 32 bits are restored (the whole accumulator when it fits 32 bits)'
    elif kind == 'simple':
        g += same_all(E, post, R)
        what = 'the register is restored and no other register changes'
    elif kind == 'Px':
        # the stack discipline holds everywhere and is a separate obligation: the listed product-shift finding concerns the
        # restored product only and must not excuse anything else in its input region
        g += same_all(E, post, R, ('p[%d]' % k, 'pe[%d]' % k))
        ck.prove('PushPop.frame[%s]' % label, A + CONS + MORE, z3.And(*g), vars=dict(vars_), sample='%s: sp restored, no abort, no register other than the product changed, for every product shift mode' % label)
        g = [post['p[%d]' % k] == R['p[%d]' % k], post['pe[%d]' % k] == R['pe[%d]' % k]]
        vars_['ps'] = R['ps[%d]' % k]
        vars_['pe'] = R['pe[%d]' % k]
        vars_['p'] = R['p[%d]' % k]
        what = 'the 33-bit product is restored'
    # untouched registers: everything except the destination, the flags an accumulator write sets, and the stack cells
    ck.prove('PushPop[%s]' % label, A + CONS + MORE, z3.And(*g), vars=vars_, replay=(pushpop_replay(E, ia, ib, kind, k) if kind == 'Px' else None),
             sample='%s with sat=1, lp=0: sp restored and %s' % (label, what))
    return ck.export()


def pushpop_replay(E, ia, ib, kind, k):
    if ia is None or kind != 'Px':
        return None

    def rp(inputs):
        tw = interp._twin_cache.get(E.tree) or interp._twin_cache.setdefault(E.tree, interp.Twin(E))
        regs = {n[2:]: v for n, v in inputs.items() if n.startswith('r.')}
        a = tw.run_row(ia, inputs['o1'], inputs['e1'], regs, [])
        if a[0] != 'ok':
            return True, {'native': a}
        mid = dict(a[1]['regs'])
        b = tw.run_row(ib, inputs['o2'], inputs['e2'], mid, list(a[1]['dmem'].items()))
        if b[0] != 'ok':
            return True, {'native': b}
        bad = {f: (regs.get(f), b[1]['regs'].get(f)) for f in ('p[%d]' % k, 'pe[%d]' % k, 'sp') if regs.get(f) != b[1]['regs'].get(f)}
        return bool(bad), {'(before, after push;pop)': bad}
    return rp


def job_context(kind, tier, seed):
    E = env()
    ck = core.Check('C08', 'model_checking', tier, seed)
    R = E.R()
    inv = E.inv()
    oa, ea, ob, eb = [z3.BitVec(n, 16) for n in ('o1', 'e1', 'o2', 'e2')]
    oneway = ('shadow_registers', 'repcs', 'a1s', 'b1s')
    try:
        if kind == 'cntx':
            ia, ib = find(E, 'cntx_s', ()), find(E, 'cntx_r', ())
            ra, rb = two(E, ck, ia, ib, oa, ea, ob, eb, inv)
        elif kind == 'banke':
            ia = ib = find(E, 'banke', ('BankFlags',))
            ra, rb = two(E, ck, ia, ib, oa, ea, ob, eb, inv, [], [fld(E, ib, 0, ob, eb) == fld(E, ia, 0, oa, ea)])
        else:
            types = {'bankr': (), 'bankr_ar': ('Ar',), 'bankr_ar_arp': ('Ar', 'Arp'), 'bankr_arp': ('Arp',)}[kind]
            ia = ib = find(E, 'bankr', types)
            extraB = [fld(E, ib, q, ob, eb) == fld(E, ia, q, oa, ea) for q in range(len(types))]
            ra, rb = two(E, ck, ia, ib, oa, ea, ob, eb, inv, [], extraB)
    except (Abort, UnwindBound) as x:
        ck.inconclusive.append('%s: %r' % (kind, x))
        return ck.export()
    post = E.post_regs(rb['st'])
    mid = E.post_regs(ra['st'])
    skip = [f for f in post if f.split('[')[0] in oneway] if kind == 'cntx' else []
    g = same_all(E, post, R, skip) + [noexit(rb), E.post_dmem(rb['st']) == E.pre_dmem()]
    if kind == 'cntx':
        # the hidden one-way slots take the saved values
        g += [z3.Implies(R['crep'] == 0, post['repcs'] == R['repc']), z3.Implies(R['crep'] != 0, post['repcs'] == R['repcs']),
              z3.Implies(R['ccnta'] == 0, z3.And(post['a1s'] == R['a[1]'], post['b1s'] == R['b[1]'])),
              z3.Implies(R['ccnta'] != 0, z3.And(post['a1s'] == R['a1s'], post['b1s'] == R['b1s']))]
        # and the context really is switched in between (two-way banks swapped): restoring is not a no-op by accident
        g.append(z3.And(*[mid[f] == R[f] for f in ('r[0]', 'sp', 'pc')]))
    ck.prove('RoundTrip[%s]' % kind, inv + CONS, z3.And(*g), vars=c03.vars_of(R, {'o1': oa, 'o2': ob}),
             sample={'cntx': 'cntx_s;cntx_r leaves every program-visible register and every two-way bank as it was; only the one-way slots (flag shadows, repcs, a1s/b1s) take the saved values',
                     'banke': 'banke f;banke f (same flags, all 64 combinations symbolic) is the identity on the whole register state'}.get(kind, '%s applied twice with the same operands is the identity on the whole register state' % kind))
    ck.nstates += 1
    return ck.export()


def job_irq(which, tier, seed):
    """interrupt entry as Run performs it (C07 proves Run does exactly this), followed by reti / retic"""
    E = env()
    ck = core.Check('C08', 'model_checking', tier, seed)
    ex, st0, ctx = E.base()
    regs, ip = ctx['regs'], ctx['interp']
    R = E.R()
    inv = E.inv()
    ob, eb = z3.BitVec('o2', 16), z3.BitVec('e2', 16)
    st = st0.fork()
    st.pc += inv
    ex.exits, ex.oblig = [], []
    vec = z3.BitVec('vector', 32)
    regs.set(st, 'ie', 0)
    ex.call(st, '@k_pushpc', [ip])
    regs.set(st, 'pc', vec)
    if which == 'retic':
        ex.call(st, '@k_ctxs', [ip])
    ib = find(E, which, ('Cond',))
    rb = E.run_row(ib, ob, eb, [E.match_pred(E.rows[ib], ob), fld(E, ib, 0, ob, eb) == 0, z3.ULT(vec, 0x40000)], st_in=st, keep=True)
    ck.ninstr += rb['ninstr']
    ck.nstates += 2
    post = E.post_regs(rb['st'])
    oneway = ('shadow_registers', 'repcs', 'a1s', 'b1s')
    skip = ['ie'] + ([f for f in post if f.split('[')[0] in oneway] if which == 'retic' else [])
    g = same_all(E, post, R, skip) + [post['ie'] == 1, noexit(rb)]
    ck.prove('InterruptReturn[%s]' % which, inv + [z3.ULT(vec, 0x40000), E.match_pred(E.rows[ib], ob), fld(E, ib, 0, ob, eb) == 0], z3.And(*g), vars=c03.vars_of(R, {'o2': ob, 'vector': vec}),
             sample='interrupt entry (ie:=0, push pc, jump to the vector%s) followed by %s: resumes at the interrupted pc with sp restored, interrupts re-enabled%s' % (', context store' if which == 'retic' else '', which, ' and the whole context as it was' if which == 'retic' else ''))
    return ck.export()


def _dispatch(fn, args):
    return fn(*args)


def run(tier, seed):
    ck = core.Check('C08', 'model_checking', tier, seed)
    E = env()
    ck.funcs.update(['call', 'calla (2)', 'callr', 'ret', 'rets', 'reti', 'retic', 'PushPC', 'PopPC', 'SetPC', 'push (Register, Abe, ArArpSttMod, Px)', 'pop (same)', 'push_/pop_ r6 repc x0 x1 y1 prpage', 'pusha (2)', 'popa',
                     'cntx_s', 'cntx_r', 'ContextStore', 'ContextRestore', 'RegisterState::ShadowStore/ShadowRestore/ShadowSwap/SwapAr/SwapArp', 'banke', 'bankr (4)', 'RegToBus16', 'RegFromBus16'])
    ck.assumptions += ['Inv on the pre-state; push/pop round trips additionally assume sat == 1 (read saturation off) and lp == 0, exactly the preconditions of the statement',
                       'single-word round trip excludes pc (not pushable), the product high word p and whole accumulators a0/a1 as Register operands (they have dedicated multi-word pairs, checked separately)',
                       'for a register that is a view (accumulator halves, status words) "restored" means the value read through the 16-bit bus is the same afterwards',
                       'interrupt entry is composed here as ie:=0; PushPC; pc:=vector; [ContextStore]; C07 proves that Run performs exactly this sequence']
    ck.bounds += ['no bound on values; two to four instructions per composition; all operand names enumerated (32 Register names, 16 ArArpSttMod codes, 4 Abe, 2 Px)']
    ck.stubs += E.tabulated
    jobs = [(job_callret, (k, tier, seed)) for k in ('call', 'calla_l', 'calla', 'callr')]
    jobs += [(job_pushpop, ('Register', k, tier, seed)) for k, n in enumerate(REGISTER) if n not in REG_EXCLUDE]
    jobs += [(job_pushpop, ('ArArpSttMod', k, tier, seed)) for k, n in enumerate(AASM) if n]
    jobs += [(job_pushpop, ('Abe', k, tier, seed)) for k in range(4)] + [(job_pushpop, ('simple', k, tier, seed)) for k in range(6)]
    jobs += [(job_pushpop, ('Px', k, tier, seed)) for k in range(2)] + [(job_pushpop, ('acc32', k, tier, seed)) for k in range(4)] + [(job_pushpop, ('acc40', k, tier, seed)) for k in range(4)]
    jobs += [(job_context, (k, tier, seed)) for k in ('cntx', 'banke', 'bankr', 'bankr_ar', 'bankr_ar_arp', 'bankr_arp')]
    jobs += [(job_irq, (k, tier, seed)) for k in ('reti', 'retic')]
    for r in core.pmap(_dispatch, jobs):
        if '__error__' in r:
            ck.engine_errors.append(r['__error__'])
        else:
            ck.absorb(r)
    for r in core.pmap(job_val, [(find(E, n, t), seed) for n, t in (('call', ('Address18_16', 'Address18_2', 'Cond')), ('ret', ('Cond',)), ('push', ('Register',)), ('pop', ('Register',)), ('cntx_s', ()), ('cntx_r', ()), ('banke', ('BankFlags',)), ('popa', ('Ab',)))]):
        if '__error__' in r:
            ck.engine_errors.append(r['__error__'])
        else:
            ck.absorb(r)
    return ck.finish('call/return, push/pop, context and bank round trips as two-instruction compositions from an arbitrary state')


def job_val(i, seed):
    return interp.validate_row(env(), i, seed, 'C08', 'model_checking')
