"""Inv: the well-formed machine state predicate (DESIGN 1.5), written from the width comments in register.h/register.md."""
import z3

ONE_BIT = ['cpc', 'crep', 'lp', 'ccnta', 'sat', 'sata', 's', 'fz', 'fm', 'fn', 'fv', 'fe', 'fc0', 'fc1', 'flm', 'fvl', 'fr',
           'stp16', 'cmd', 'epi', 'epj', 'ipv', 'imv', 'nimc', 'ie', 'rep']
ONE_BIT_ARR = {'m': 8, 'br': 8, 'pe': 2, 'ip': 3, 'im': 3, 'ic': 3, 'ou': 5, 'iu': 2}
LIMITS = {'prpage': 15, 'hwm': 3, 'page': 255, 'pcmhi': 3, 'stepi': 127, 'stepj': 127, 'modi': 511, 'modj': 511,
          'stepib': 127, 'stepjb': 127, 'modib': 511, 'modjb': 511, 'bcn': 4}
ARR_LIMITS = {'ps': (2, 3), 'arstep': (4, 7), 'arpstepi': (4, 7), 'arpstepj': (4, 7), 'aroffset': (4, 3), 'arpoffseti': (4, 3),
              'arpoffsetj': (4, 3), 'arrn': (4, 7), 'arprni': (4, 3), 'arprnj': (4, 3)}


def sext40(v):
    return z3.SignExt(24, z3.Extract(39, 0, v)) == v


def inv(R, full=True):
    """R: name -> z3 term (arrays as name[i]); returns list of conjuncts"""
    c = [z3.ULT(R['pc'], 0x40000)]
    for n in ONE_BIT:
        c.append(z3.ULE(R[n], 1))
    for n, k in ONE_BIT_ARR.items():
        for i in range(k):
            c.append(z3.ULE(R['%s[%d]' % (n, i)], 1))
    for n, lim in LIMITS.items():
        c.append(z3.ULE(R[n], lim))
    for n, (k, lim) in ARR_LIMITS.items():
        for i in range(k):
            c.append(z3.ULE(R['%s[%d]' % (n, i)], lim))
    for n in ('a[0]', 'a[1]', 'b[0]', 'b[1]', 'a1s', 'b1s'):
        c.append(sext40(R[n]))
    c.append(z3.Or(z3.And(R['lp'] == 0, R['bcn'] == 0), z3.And(R['lp'] == 1, z3.UGE(R['bcn'], 1), z3.ULE(R['bcn'], 4))))
    for i in range(4):
        c.append(z3.ULT(R['bkrep_stack.start[%d]' % i], 0x40000))
        c.append(z3.ULT(R['bkrep_stack.end[%d]' % i], 0x40000))
    c.append(R['mod0_unk_const'] == 1)
    return c
