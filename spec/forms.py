"""Operand forms of the decode-table rows, parsed from the INST(...) lines of the tree's decoder.h: this is what each
instruction form *names* (which opcode bits select which operand). Row order = table order (checked against the
executed table by the users)."""
import re, os

ENUMS = {
    'Ax': ['a0', 'a1'], 'Axl': ['a0l', 'a1l'], 'Axh': ['a0h', 'a1h'], 'Bx': ['b0', 'b1'], 'Bxl': ['b0l', 'b1l'], 'Bxh': ['b0h', 'b1h'],
    'Ab': ['b0', 'b1', 'a0', 'a1'], 'Abl': ['b0l', 'b1l', 'a0l', 'a1l'], 'Abh': ['b0h', 'b1h', 'a0h', 'a1h'], 'Abe': ['b0e', 'b1e', 'a0e', 'a1e'],
    'Ablh': ['b0l', 'b0h', 'b1l', 'b1h', 'a0l', 'a0h', 'a1l', 'a1h'],
    'Alm': ['Or', 'And', 'Xor', 'Add', 'Tst0', 'Tst1', 'Cmp', 'Sub', 'Msu', 'Addh', 'Addl', 'Subh', 'Subl', 'Sqr', 'Sqra', 'Cmpu'],
    'Alu': ['Or', 'And', 'Xor', 'Add', 'Reserved', 'Reserved', 'Cmp', 'Sub'],
    'Moda4': ['Shr', 'Shr4', 'Shl', 'Shl4', 'Ror', 'Rol', 'Clr', 'Reserved', 'Not', 'Neg', 'Rnd', 'Pacr', 'Clrr', 'Inc', 'Dec', 'Copy'],
    'Moda3': ['Shr', 'Shr4', 'Shl', 'Shl4', 'Ror', 'Rol', 'Clr', 'Clrr'],
    'Cond': ['True', 'Eq', 'Neq', 'Gt', 'Ge', 'Lt', 'Le', 'Nn', 'C', 'V', 'E', 'L', 'Nr', 'Niu0', 'Iu0', 'Iu1'],
    'StepZIDS': ['Zero', 'Increase', 'Decrease', 'PlusStep'],
    'Mul3': ['Mpy', 'Mpysu', 'Mac', 'Macus', 'Maa', 'Macuu', 'Macsu', 'Maasu'], 'Mul2': ['Mpy', 'Mac', 'Maa', 'Macsu'],
}
BITS = {'Imm2': 2, 'Imm4': 4, 'Imm5': 5, 'Imm5s': 5, 'Imm6s': 6, 'Imm7s': 7, 'Imm8': 8, 'Imm8s': 8, 'Imm9': 9, 'Imm16': 16, 'MemImm8': 8, 'MemImm16': 16,
        'MemR7Imm7s': 7, 'MemR7Imm16': 16, 'Px': 1, 'Rn': 3, 'Register': 5, 'RelAddr7': 7, 'Address16': 16, 'Address18_16': 16, 'Address18_2': 2,
        'ArRn1': 1, 'ArRn2': 2, 'ArStep1': 1, 'ArStep1Alt': 1, 'ArStep2': 2, 'ArpRn1': 1, 'ArpRn2': 2, 'ArpStep1': 1, 'ArpStep2': 2, 'R45': 1, 'R0123': 2,
        'BankFlags': 6, 'SwapType': 4, 'Alb': 3, 'CbsCond': 1, 'RnOld': 3, 'ArArpSttMod': 4, 'ArArp': 3, 'SttMod': 3, 'Ar': 1, 'Arp': 2}
for k, v in ENUMS.items():
    n = 0
    while (1 << n) < len(v):
        n += 1
    BITS[k] = n


def rows(tree):
    src = open(os.path.join(tree, 'src', 'decoder.h')).read()
    body = src[src.index('std::vector<Matcher<V>> GetDecodeTable()'):]
    out = []
    for m in re.finditer(r'^\s*(//)?\s*INST\((\w+),\s*(0x[0-9A-Fa-f]+)([^\n]*)', body, re.M):
        if m.group(1):
            continue
        ops = []
        for om in re.finditer(r'(AtNamed|At|Const|Unused|AtConst)<([^<>]*)>|\b(SX|SY|UX|UY|BZr|BAc|BSv|BSr|PA|PP|Sub|Add|EMod|DMod)\b', m.group(4).split('.EXCEPT')[0]):
            if om.group(3):
                ops.append(('cn', om.group(3)))
                continue
            kind, args = om.group(1), [a.strip() for a in om.group(2).split(',')]
            if kind in ('At', 'AtNamed'):
                ops.append(('at', args[0], int(args[1])))
            elif kind == 'Const':
                ops.append(('const', args[0], int(args[1])))
            elif kind == 'Unused':
                ops.append(('unused', int(args[0])))
        out.append({'name': m.group(2), 'expected': int(m.group(3), 16), 'ops': ops})
    return out


def field(o, e, op):
    """z3 term (or int) of the operand's storage value for opcode o / second word e"""
    import z3
    if op[0] == 'const':
        return op[2]
    _, ty, pos = op
    n = BITS[ty]
    if pos == 16:
        return e
    return z3.Extract(pos + n - 1, pos, o)
