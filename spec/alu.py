"""Reference model (S) of the accumulator arithmetic written from the statements of C03/C04: exact 40-bit two's
complement results, flags of the 40-bit value, 32-bit saturation. All functions take/return z3 terms; R is a dict
name -> term of RegisterState fields ('a[0]', 'fz', ...)."""
import z3

B40 = lambda v: z3.Extract(39, 0, v)
SX40 = lambda v40: z3.SignExt(24, v40)
ONE16 = z3.BitVecVal(1, 16)
ZERO16 = z3.BitVecVal(0, 16)
b16 = lambda c: z3.If(c, ONE16, ZERO16)
ACC = {'a0': 'a[0]', 'a1': 'a[1]', 'b0': 'b[0]', 'b1': 'b[1]'}


def addsub(a64, b64, sub):
    """exact 41-bit a +/- b of the 40-bit operands -> (result sign-extended from bit 39, carry/borrow = bit 40, signed overflow)"""
    A = z3.ZeroExt(1, B40(a64))
    Bv = z3.ZeroExt(1, B40(b64))
    Rr = (A - Bv) if sub else (A + Bv)
    res40 = z3.Extract(39, 0, Rr)
    carry = z3.Extract(40, 40, Rr) == 1
    sa, sb, sr = z3.Extract(39, 39, A), z3.Extract(39, 39, Bv), z3.Extract(39, 39, Rr)
    if sub:
        ov = z3.And(sa != sb, sr != sa)
    else:
        ov = z3.And(sa == sb, sr != sa)
    return SX40(res40), carry, ov


def fits32(v64):
    return z3.SignExt(32, z3.Extract(31, 0, v64)) == v64


def flags(R, v64):
    """zero / minus / extension / normalized flags of the 40-bit value"""
    R = dict(R)
    z = v64 == 0
    e = z3.Not(fits32(v64))
    R['fz'] = b16(z)
    R['fm'] = b16(z3.Extract(39, 39, v64) == 1)
    R['fe'] = b16(e)
    R['fn'] = b16(z3.Or(z, z3.And(z3.Not(e), z3.Extract(31, 31, v64) != z3.Extract(30, 30, v64))))
    return R


def saturate(v64):
    neg = z3.Extract(39, 39, v64) == 1
    return z3.If(fits32(v64), v64, z3.If(neg, z3.BitVecVal(0xFFFFFFFF80000000, 64), z3.BitVecVal(0x7FFFFFFF, 64)))


def write_acc_sat(R, acc, v64, cond=None):
    """flags from the unsaturated value, then saturation-on-write (sata == 0) with the limit flag; acc: field name"""
    R2 = flags(R, v64)
    sat_on = R['sata'] == 0
    over = z3.And(sat_on, z3.Not(fits32(v64)))
    R2['flm'] = z3.If(over, ONE16, R['flm'])
    R2[acc] = z3.If(sat_on, saturate(v64), v64)
    return R2


def write_acc_nosat(R, acc, v64):
    R2 = flags(R, v64)
    R2[acc] = v64
    return R2


def with_cv(R, carry, ov):
    R = dict(R)
    R['fc0'] = b16(carry)
    R['fv'] = b16(ov)
    R['fvl'] = z3.If(ov, ONE16, R['fvl'])
    return R


def acc_sel(R, idx_term, names):
    """value of the accumulator selected by an operand field (names: list of a0/a1/b0/b1 in enum order)"""
    out = R[ACC[names[-1]]]
    for k in range(len(names) - 2, -1, -1):
        out = z3.If(idx_term == k, R[ACC[names[k]]], out)
    return out


def acc_store(Rnew_by_name, idx_term, names, Rold):
    """merge: Rnew_by_name(name) -> post-state dict when the destination is that accumulator"""
    posts = [Rnew_by_name(n) for n in names]
    out = {}
    for f in Rold:
        t = posts[-1][f]
        for k in range(len(names) - 2, -1, -1):
            if posts[k][f] is t:
                continue
            t = z3.If(idx_term == k, posts[k][f], t)
        out[f] = t
    return out


def cond_pass(R, c):
    """Cond operand (4-bit term) per the architecture: true eq neq gt ge lt le nn c v e l nr niu0 iu0 iu1"""
    fz, fm, fn, fv, fe, fc0, flm, fvl, fr = [R[k] == 1 for k in ('fz', 'fm', 'fn', 'fv', 'fe', 'fc0', 'flm', 'fvl', 'fr')]
    table = [z3.BoolVal(True), fz, z3.Not(fz), z3.And(z3.Not(fz), z3.Not(fm)), z3.Not(fm), fm, z3.Or(fm, fz), z3.Not(fn), fc0, fv, fe,
             z3.Or(flm, fvl), z3.Not(fr), R['iu[0]'] == 0, R['iu[0]'] == 1, R['iu[1]'] == 1]
    out = table[15]
    for k in range(14, -1, -1):
        out = z3.If(c == k, table[k], out)
    return out


def product40(R, unit):
    """read of product register `unit` through the product shifter: none, >>1 (arithmetic), <<1, <<2, sign-extended"""
    p33 = z3.Concat(z3.Extract(0, 0, R['pe[%d]' % unit]), R['p[%d]' % unit])       # 33-bit signed
    v = z3.SignExt(31, p33)                                                           # 64-bit
    ps = R['ps[%d]' % unit]
    return z3.If(ps == 0, v, z3.If(ps == 1, v >> 1, z3.If(ps == 2, v << 1, v << 2)))


def multiply(R, unit, xs, ys):
    """exact product of the 16-bit factors under the sign selection and the half-word mode -> (p = low 32 bits, pe = bit 32
    of the exact 33-bit product).  The low 32 bits are written as the 32-bit product of the extended factors (the exact
    product modulo 2^32, by the ring homomorphism Z -> Z/2^32); bit 32 comes from a 33-bit product of 33-bit extensions."""
    x = R['x[%d]' % unit]
    y = R['y[%d]' % unit]
    hwm = R['hwm']
    take_hi = z3.Or(hwm == 1, hwm == 3) if unit == 0 else (hwm == 1)
    take_lo = (hwm == 2) if unit == 0 else z3.Or(hwm == 2, hwm == 3)
    y = z3.If(take_hi, z3.LShR(y, 8), z3.If(take_lo, y & 0xFF, y))
    ext = lambda v, signed, n: z3.SignExt(n, v) if signed else z3.ZeroExt(n, v)
    p = ext(x, xs, 16) * ext(y, ys, 16)
    P33 = ext(x, xs, 17) * ext(y, ys, 17)
    pe = z3.ZeroExt(15, z3.Extract(32, 32, P33))
    return p, pe
