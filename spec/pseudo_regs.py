"""Bit-field layout of the 19 architectural status/config words: (field, position, length, kind).
kind: 'rw' plain read/write slot, 'ro' read-only slot, 'lp' write-1-to-clear loop flag (also clears bcn),
'dbl' the TeakLite limit flag = flm | fvl (a write sets both), 'acce' low 4 bits of the accumulator extension
(written value sign-extended into bits 39..32).  Bits not listed are reserved and read 0.
Source: the statement of C20 plus the hardware-validated layout (register.h at the pinned commit, Lauterbach names)."""


def arr(name, n):
    return ['%s[%d]' % (name, i) for i in range(n)]


W = {}
W['cfgi'] = [('stepi', 0, 7, 'rw'), ('modi', 7, 9, 'rw')]
W['cfgj'] = [('stepj', 0, 7, 'rw'), ('modj', 7, 9, 'rw')]
W['stt0'] = [('flm', 0, 1, 'rw'), ('fvl', 1, 1, 'rw'), ('fe', 2, 1, 'rw'), ('fc0', 3, 1, 'rw'), ('fv', 4, 1, 'rw'), ('fn', 5, 1, 'rw'),
             ('fm', 6, 1, 'rw'), ('fz', 7, 1, 'rw'), ('fc1', 11, 1, 'rw')]
W['stt1'] = [('fr', 4, 1, 'rw'), ('iu[0]', 10, 1, 'ro'), ('iu[1]', 11, 1, 'ro'), ('pe[0]', 14, 1, 'rw'), ('pe[1]', 15, 1, 'rw')]
W['stt2'] = [('ip[0]', 0, 1, 'ro'), ('ip[1]', 1, 1, 'ro'), ('ip[2]', 2, 1, 'ro'), ('ipv', 3, 1, 'ro'), ('pcmhi', 6, 2, 'rw'),
             ('bcn', 12, 3, 'ro'), ('lp', 15, 1, 'lp')]
W['mod0'] = [('sat', 0, 1, 'rw'), ('sata', 1, 1, 'rw'), ('mod0_unk_const', 2, 3, 'ro'), ('hwm', 5, 2, 'rw'), ('s', 7, 1, 'rw'),
             ('ou[0]', 8, 1, 'rw'), ('ou[1]', 9, 1, 'rw'), ('ps[0]', 10, 2, 'rw'), ('ps[1]', 13, 2, 'rw')]
W['mod1'] = [('page', 0, 8, 'rw'), ('stp16', 12, 1, 'rw'), ('cmd', 13, 1, 'rw'), ('epi', 14, 1, 'rw'), ('epj', 15, 1, 'rw')]
W['mod2'] = [('m[%d]' % i, i, 1, 'rw') for i in range(8)] + [('br[%d]' % i, 8 + i, 1, 'rw') for i in range(8)]
W['mod3'] = [('nimc', 0, 1, 'rw'), ('ic[0]', 1, 1, 'rw'), ('ic[1]', 2, 1, 'rw'), ('ic[2]', 3, 1, 'rw'), ('ou[2]', 4, 1, 'rw'), ('ou[3]', 5, 1, 'rw'),
             ('ou[4]', 6, 1, 'rw'), ('ie', 7, 1, 'rw'), ('im[0]', 8, 1, 'rw'), ('im[1]', 9, 1, 'rw'), ('im[2]', 10, 1, 'rw'), ('imv', 11, 1, 'rw'),
             ('ccnta', 13, 1, 'rw'), ('cpc', 14, 1, 'rw'), ('crep', 15, 1, 'rw')]
W['st0'] = [('sat', 0, 1, 'rw'), ('ie', 1, 1, 'rw'), ('im[0]', 2, 1, 'rw'), ('im[1]', 3, 1, 'rw'), ('fr', 4, 1, 'rw'), ('flm|fvl', 5, 1, 'dbl'),
            ('fe', 6, 1, 'rw'), ('fc0', 7, 1, 'rw'), ('fv', 8, 1, 'rw'), ('fn', 9, 1, 'rw'), ('fm', 10, 1, 'rw'), ('fz', 11, 1, 'rw'), ('a[0]', 12, 4, 'acce')]
W['st1'] = [('page', 0, 8, 'rw'), ('ps[0]', 10, 2, 'rw'), ('a[1]', 12, 4, 'acce')]
W['st2'] = [('m[%d]' % i, i, 1, 'rw') for i in range(6)] + [('im[2]', 6, 1, 'rw'), ('s', 7, 1, 'rw'), ('ou[0]', 8, 1, 'rw'), ('ou[1]', 9, 1, 'rw'),
            ('iu[0]', 10, 1, 'ro'), ('iu[1]', 11, 1, 'ro'), ('ip[2]', 13, 1, 'ro'), ('ip[0]', 14, 1, 'ro'), ('ip[1]', 15, 1, 'ro')]
W['icr'] = [('nimc', 0, 1, 'rw'), ('ic[0]', 1, 1, 'rw'), ('ic[1]', 2, 1, 'rw'), ('ic[2]', 3, 1, 'rw'), ('lp', 4, 1, 'lp'), ('bcn', 5, 3, 'ro')]
for i in range(2):
    W['ar%d' % i] = [('arstep[%d]' % (2 * i + 1), 0, 3, 'rw'), ('aroffset[%d]' % (2 * i + 1), 3, 2, 'rw'), ('arstep[%d]' % (2 * i), 5, 3, 'rw'),
                     ('aroffset[%d]' % (2 * i), 8, 2, 'rw'), ('arrn[%d]' % (2 * i + 1), 10, 3, 'rw'), ('arrn[%d]' % (2 * i), 13, 3, 'rw')]
for i in range(4):
    W['arp%d' % i] = [('arpstepi[%d]' % i, 0, 3, 'rw'), ('arpoffseti[%d]' % i, 3, 2, 'rw'), ('arpstepj[%d]' % i, 5, 3, 'rw'), ('arpoffsetj[%d]' % i, 8, 2, 'rw'),
                      ('arprni[%d]' % i, 10, 2, 'rw'), ('arprnj[%d]' % i, 13, 2, 'rw')]
ORDER = ['st0', 'st1', 'st2', 'stt0', 'stt1', 'stt2', 'mod0', 'mod1', 'mod2', 'mod3', 'cfgi', 'cfgj', 'ar0', 'ar1', 'arp0', 'arp1', 'arp2', 'arp3', 'icr']
assert sorted(ORDER) == sorted(W)
